#!/bin/bash
# One-time setup after a fresh restore: build the overlay generator and warm the build cache. Offline.
set -u
export GOFLAGS=-mod=mod GOPROXY=off GOSUMDB=off GOTOOLCHAIN=local
export PATH=/usr/local/bin:$PATH
ROOT=/verif
cd $ROOT/engine || exit 1
mkdir -p $ROOT/.build/bin $ROOT/evidence $ROOT/replays
cp -f /repo/go.sum $ROOT/engine/go.sum
go1.26 build -o $ROOT/.build/bin/overlaygen ./cmd/overlaygen || exit 1
$ROOT/.build/bin/overlaygen $ROOT/.build || exit 1
for d in cmd/*/; do
  c=$(basename $d)
  [ "$c" = overlaygen ] && continue
  go1.26 build -tags verif -overlay $ROOT/.build/overlay.json -o $ROOT/.build/bin/$c ./cmd/$c || exit 1
done
if [ -f $ROOT/models/Makefile ]; then make -C $ROOT/models -s || exit 1; fi
echo setup ok
