package main

import (
	"bytes"
	"fmt"
	"os"
	"runtime/debug"
	"sort"
	"strings"
	"sync"
	"time"

	"go.sia.tech/core/consensus"
	"go.sia.tech/core/types"
	"go.sia.tech/coreutils"
	"verif/internal/bfs"
	"verif/internal/ledger"
	"verif/internal/node"
	"verif/internal/univ"
)

// txSet is one entry of the pool menu.
type txSet struct {
	Name  string
	V1    []types.Transaction
	V2    []types.V2Transaction
	Basis int // universe node whose ledger the v2 proofs refer to
}

type poolUniverse struct {
	u    *univ.Universe
	menu []txSet
	ext  sync.Mutex // guards dynamic extension of u by mined blocks
}

type addOp struct {
	Add string `json:"add"`
}

func (o addOp) String() string { return "add(" + o.Add + ")" }

type mineOp struct{}

func (mineOp) String() string { return "mine" }

// buildPoolUniverse: main m1..m4 (m2 carries a spend of A1's third output), branch b2..b5 from m1 (b3
// carries menu transaction "a"), so that reorgs confirm, unconfirm and invalidate pooled transactions.
func buildPoolUniverse(reg univ.Regime) *poolUniverse {
	u := univ.NewUniverse("pool", reg)
	as := u.As
	root := 0
	trunk := 0
	if reg == univ.RegimeX {
		trunk = 2 // tip height 2: child height 3 == allow height, v1 still allowed
	}
	for i := 0; i < trunk; i++ {
		root = u.Add(root, 0, nil, nil, "trunk")
	}
	v2 := reg != univ.RegimeV1
	m1 := u.Add(root, 0, nil, nil, "m1")
	L := u.Nodes[m1].L
	cs := L.State
	a1, a2, a3 := univ.OwnedSC(L, as[1].Addr), univ.OwnedSC(L, as[2].Addr), univ.OwnedSC(L, as[3].Addr)
	if len(a3) > 3 {
		a3 = a3[len(a3)-3:] // skip the (huge) foundation subsidy outputs
	}
	pu := &poolUniverse{u: u}
	spend := func(a univ.Actor, e types.SiacoinElement, to int, amt uint32) (types.Transaction, types.V2Transaction) {
		if v2 {
			return types.Transaction{}, univ.V2Spend(cs, a, e, as[to].Addr, univ.SC(amt), univ.SC(1))
		}
		return univ.V1Spend(cs, a, e, as[to].Addr, univ.SC(amt), univ.SC(1)), types.V2Transaction{}
	}
	set := func(name string, basis int, pairs ...any) {
		s := txSet{Name: name, Basis: basis}
		for i := 0; i < len(pairs); i += 2 {
			if v2 {
				s.V2 = append(s.V2, pairs[i+1].(types.V2Transaction))
			} else {
				s.V1 = append(s.V1, pairs[i].(types.Transaction))
			}
		}
		pu.menu = append(pu.menu, s)
	}
	ta1, ta2 := spend(as[1], a1[0], 2, 3)
	tax1, tax2 := spend(as[1], a1[0], 3, 4) // conflicts with a
	tb1, tb2 := spend(as[1], a1[1], 2, 3)
	tc1, tc2 := spend(as[1], a1[2], 2, 3) // conflicts with the spend in m2
	tm1, tm2 := spend(as[1], a1[2], 3, 5) // goes into block m2
	td1, td2 := spend(as[2], a2[1], 0, 2)
	te1, te2 := spend(as[3], a3[0], 0, 2)
	tf1, tf2 := spend(as[3], a3[1], 0, 2)
	// parent/child chain: P = A2's first output to itself, C spends P's first output
	var p1, c1 types.Transaction
	var p2, c2 types.V2Transaction
	if v2 {
		p2 = univ.V2Spend(cs, as[2], a2[0], as[2].Addr, univ.SC(9), univ.SC(1))
		c2 = univ.V2Spend(cs, as[2], univ.Ephemeral(p2, 0), as[0].Addr, univ.SC(2), univ.SC(1))
	} else {
		p1 = univ.V1Spend(cs, as[2], a2[0], as[2].Addr, univ.SC(9), univ.SC(1))
		c1 = univ.V1SpendID(cs, as[2], p1.SiacoinOutputID(0), univ.SC(9), as[0].Addr, univ.SC(2), univ.SC(1))
	}
	// invalid: bad signature
	bad1, bad2 := spend(as[3], a3[2], 0, 2)
	if v2 {
		bad2.SiacoinInputs[0].SatisfiedPolicy.Signatures[0][9] ^= 4
	} else {
		bad1.Signatures[0].Signature[9] ^= 4
	}
	set("a", m1, ta1, ta2)
	set("a-conflict", m1, tax1, tax2)
	set("b", m1, tb1, tb2)
	set("c", m1, tc1, tc2)
	set("chain", m1, p1, p2, c1, c2)
	set("child-only", m1, c1, c2)
	// three generations: G -> P3 -> C3 (all unconfirmed)
	var g1, q1, r1 types.Transaction
	var g2, q2, r2 types.V2Transaction
	if v2 {
		g2 = univ.V2Spend(cs, as[3], a3[2], as[3].Addr, univ.SC(9), univ.SC(1))
		q2 = univ.V2Spend(cs, as[3], univ.Ephemeral(g2, 0), as[3].Addr, univ.SC(7), univ.SC(1))
		r2 = univ.V2Spend(cs, as[3], univ.Ephemeral(q2, 0), as[0].Addr, univ.SC(5), univ.SC(1))
	} else {
		g1 = univ.V1Spend(cs, as[3], a3[2], as[3].Addr, univ.SC(9), univ.SC(1))
		q1 = univ.V1SpendID(cs, as[3], g1.SiacoinOutputID(0), univ.SC(9), as[3].Addr, univ.SC(7), univ.SC(1))
		r1 = univ.V1SpendID(cs, as[3], q1.SiacoinOutputID(0), univ.SC(7), as[0].Addr, univ.SC(5), univ.SC(1))
	}
	set("chain3", m1, g1, g2, q1, q2, r1, r2)
	set("b+d", m1, tb1, tb2, td1, td2)
	set("e+a-conflict", m1, te1, te2, tax1, tax2)
	set("f+badsig", m1, tf1, tf2, bad1, bad2)
	set("d+e", m1, td1, td2, te1, te2)
	if v2 {
		// the same as "b" but with proofs as of an older basis
		Lr := u.Nodes[root].L
		for _, e := range univ.OwnedSC(Lr, as[1].Addr) {
			if e.ID == a1[1].ID {
				pu.menu = append(pu.menu, txSet{Name: "b-stale-basis", Basis: root, V2: []types.V2Transaction{univ.V2Spend(cs, as[1], e, as[2].Addr, univ.SC(3), univ.SC(1))}})
			}
		}
	}
	one := func(t1 types.Transaction, t2 types.V2Transaction) ([]types.Transaction, []types.V2Transaction) {
		if v2 {
			return nil, []types.V2Transaction{t2}
		}
		return []types.Transaction{t1}, nil
	}
	x1, x2 := one(tm1, tm2)
	m2 := u.Add(m1, 0, x1, x2, "m2")
	// m3 confirms the PARENT of menu set "chain" but not its child; m4 confirms the grandparent of "chain3"
	rebuilt := func(L *ledger.Ledger, a univ.Actor, id types.SiacoinOutputID, to types.Address, amt uint32) []types.V2Transaction {
		for _, e := range univ.OwnedSC(L, a.Addr) {
			if e.ID == id {
				return []types.V2Transaction{univ.V2Spend(L.State, a, e, to, univ.SC(amt), univ.SC(1))}
			}
		}
		panic("pool universe: output to rebuild not found")
	}
	var z1 []types.Transaction
	var z2 []types.V2Transaction
	if v2 {
		z2 = rebuilt(u.Nodes[m2].L, as[2], a2[0].ID, as[2].Addr, 9)
		if z2[0].ID() != p2.ID() {
			panic("pool universe: rebuilt parent differs")
		}
	} else {
		z1 = []types.Transaction{p1}
	}
	m3 := u.Add(m2, 0, z1, z2, "m3")
	z1, z2 = nil, nil
	if v2 {
		z2 = rebuilt(u.Nodes[m3].L, as[3], a3[2].ID, as[3].Addr, 9)
	} else {
		z1 = []types.Transaction{g1}
	}
	u.Add(m3, 0, z1, z2, "m4")
	b2 := u.Add(m1, 1, nil, nil, "b2")
	// block b3 confirms "a" (rebuilt with proofs valid at b2)
	Lb := u.Nodes[b2].L
	var y1 []types.Transaction
	var y2 []types.V2Transaction
	for _, e := range univ.OwnedSC(Lb, as[1].Addr) {
		if e.ID == a1[0].ID {
			if v2 {
				y2 = []types.V2Transaction{univ.V2Spend(Lb.State, as[1], e, as[2].Addr, univ.SC(3), univ.SC(1))}
			} else {
				y1 = []types.Transaction{ta1}
			}
		}
	}
	b3 := u.Add(b2, 1, y1, y2, "b3")
	b4 := u.Add(b3, 1, nil, nil, "b4")
	u.Add(b4, 1, nil, nil, "b5")
	for _, n := range u.Nodes {
		if !n.Valid {
			panic("pool universe: invalid block " + n.Label + ": " + n.Err)
		}
	}
	return pu
}

// poolWorld cannot be cloned (the pool lives inside the Manager): the explorer replays histories.
type poolWorld struct {
	pu       *poolUniverse
	n        *node.Node
	prop     string
	accepted []acceptedTxn // reference pool: accepted, in order
	mined    int
}

type acceptedTxn struct {
	id    types.TransactionID
	v1    *types.Transaction
	v2    *types.V2Transaction
	alive bool
}

func (w *poolWorld) Key() [32]byte {
	k := w.n.Key(true)
	for i, a := range w.accepted {
		if a.alive {
			k[i%32] ^= a.id[0] + byte(i)
		}
	}
	return k
}
func (w *poolWorld) Clone() bfs.World { return nil }

func txID1(t types.Transaction) types.TransactionID   { return t.ID() }
func txID2(t types.V2Transaction) types.TransactionID { return t.ID() }

func encTxns(v1 []types.Transaction, v2 []types.V2Transaction) []byte {
	var buf bytes.Buffer
	e := types.NewEncoder(&buf)
	for _, t := range v1 {
		t.EncodeTo(e)
	}
	for _, t := range v2 {
		t.EncodeTo(e)
	}
	e.Flush()
	return buf.Bytes()
}

func poolIDs(n *node.Node) (ids []string, v1 []types.Transaction, v2 []types.V2Transaction) {
	v1, v2 = n.CM.PoolTransactions(), n.CM.V2PoolTransactions()
	for _, t := range v1 {
		ids = append(ids, "1:"+t.ID().String())
	}
	for _, t := range v2 {
		ids = append(ids, "2:"+t.ID().String())
	}
	return
}

// inputsPresent: every siacoin input of the transaction exists in ledger l or is created by an earlier alive pool transaction.
func (w *poolWorld) inputsPresent(a acceptedTxn, l *ledger.Ledger, created map[types.SiacoinOutputID]bool) bool {
	if a.v1 != nil {
		for _, in := range a.v1.SiacoinInputs {
			if _, ok := l.SCEs[in.ParentID]; !ok && !created[in.ParentID] {
				return false
			}
		}
	} else {
		for _, in := range a.v2.SiacoinInputs {
			if _, ok := l.SCEs[in.Parent.ID]; !ok && !created[in.Parent.ID] {
				return false
			}
		}
	}
	return true
}

// refPoolStep updates the reference pool's alive flags for an intermediate tip: a transaction stays
// required only while all of its inputs exist (on chain or created by an earlier alive pool transaction).
func (w *poolWorld) refPoolStep(tip types.ChainIndex) {
	k, ok := w.pu.u.ByID[tip.ID]
	if !ok || w.pu.u.Nodes[k].L == nil {
		return
	}
	l := w.pu.u.Nodes[k].L
	created := map[types.SiacoinOutputID]bool{}
	for i := range w.accepted {
		a := &w.accepted[i]
		if !a.alive {
			continue
		}
		if !w.inputsPresent(*a, l, created) {
			a.alive = false
			continue
		}
		if a.v1 != nil {
			for j := range a.v1.SiacoinOutputs {
				created[a.v1.SiacoinOutputID(j)] = true
			}
		} else {
			for j := range a.v2.SiacoinOutputs {
				created[a.v2.SiacoinOutputID(a.id, j)] = true
			}
		}
	}
}

func (w *poolWorld) hook() {
	w.n.Obs.Hook = func(applied bool, tip types.ChainIndex) { w.refPoolStep(tip) }
}

func newPoolWorld(pu *poolUniverse, prop string) *poolWorld {
	w := &poolWorld{pu: pu, n: node.New(pu.u), prop: prop}
	w.hook()
	return w
}

// checkPoolValid: every prefix of the reported pool (v1 then v2) validates against the tip with reference supplements.
func (w *poolWorld) checkPoolValid(ctx string) *bfs.Violation {
	u, n := w.pu.u, w.n
	tipK := n.TipNode()
	if tipK < 0 {
		return nil
	}
	l := u.Nodes[tipK].L
	_, v1, v2 := poolIDs(n)
	ms := consensus.NewMidState(l.State)
	for i, t := range v1 {
		ts := l.TxnSupplement(t)
		if err := consensus.ValidateTransaction(ms, t, ts); err != nil {
			return &bfs.Violation{Signature: "c05:pool-prefix-invalid:v1", What: fmt.Sprintf("%s: %s: pool v1 transaction %d (%v) is not valid after the %d before it at tip %s: %v", u.Describe(), ctx, i, t.ID(), i, u.Nodes[tipK].Label, err)}
		}
		ms.ApplyTransaction(t, ts)
	}
	for i, t := range v2 {
		if err := consensus.ValidateV2Transaction(ms, t); err != nil {
			return &bfs.Violation{Signature: "c05:pool-prefix-invalid:v2", What: fmt.Sprintf("%s: %s: pool v2 transaction %d (%v) is not valid after its prefix at tip %s: %v", u.Describe(), ctx, i, t.ID(), u.Nodes[tipK].Label, err)}
		}
		// proofs must be those of the reference ledger at the tip
		for _, in := range t.SiacoinInputs {
			if in.Parent.StateElement.LeafIndex == types.UnassignedLeafIndex {
				continue
			}
			ref, ok := l.SCEs[in.Parent.ID]
			if !ok || ref.StateElement.LeafIndex != in.Parent.StateElement.LeafIndex || fmt.Sprint(ref.StateElement.MerkleProof) != fmt.Sprint(in.Parent.StateElement.MerkleProof) {
				return &bfs.Violation{Signature: "c05:pool-proof-differs", What: fmt.Sprintf("%s: %s: pooled v2 transaction %v carries a proof for %v that differs from the ledger's at tip %s", u.Describe(), ctx, t.ID(), in.Parent.ID, u.Nodes[tipK].Label)}
			}
		}
		ms.ApplyV2Transaction(t)
	}
	// lookups agree with the lists
	for _, t := range v1 {
		got, ok := n.CM.PoolTransaction(t.ID())
		if !ok || got.ID() != t.ID() {
			return &bfs.Violation{Signature: "c14:lookup-v1", What: fmt.Sprintf("%s: %s: PoolTransaction(%v) = (%v, %v) for a listed transaction", u.Describe(), ctx, t.ID(), got.ID(), ok)}
		}
	}
	for _, t := range v2 {
		got, ok := n.CM.V2PoolTransaction(t.ID())
		if !ok || got.ID() != t.ID() {
			return &bfs.Violation{Signature: "c14:lookup-v2", What: fmt.Sprintf("%s: %s: V2PoolTransaction(%v) = (%v, %v) for a listed transaction", u.Describe(), ctx, t.ID(), got.ID(), ok)}
		}
	}
	return nil
}

// checkRetention: reference pool (lower bound) must be contained in the reported pool.
func (w *poolWorld) checkRetention(ctx string) *bfs.Violation {
	u, n := w.pu.u, w.n
	tipK := n.TipNode()
	l := u.Nodes[tipK].L
	ids, _, _ := poolIDs(n)
	have := map[string]bool{}
	for _, id := range ids {
		have[id[2:]] = true
	}
	// confirmed on the current best chain?
	confirmed := map[types.TransactionID]bool{}
	for _, k := range u.PathTo(tipK) {
		for _, t := range u.Nodes[k].Block.Transactions {
			confirmed[t.ID()] = true
		}
		for _, t := range u.Nodes[k].Block.V2Transactions() {
			confirmed[t.ID()] = true
		}
	}
	// re-validate the alive ones in acceptance order against the tip; those that fail are dropped for good
	ms := consensus.NewMidState(l.State)
	for i := range w.accepted {
		a := &w.accepted[i]
		if !a.alive {
			continue
		}
		if confirmed[a.id] {
			a.alive = false
			continue
		}
		if a.v1 != nil {
			ts := l.TxnSupplement(*a.v1)
			if consensus.ValidateTransaction(ms, *a.v1, ts) != nil {
				a.alive = false
				continue
			}
			ms.ApplyTransaction(*a.v1, ts)
		} else {
			// validity of a v2 transaction at the tip, proofs aside: inputs exist and are unspent
			ok := true
			t := a.v2.DeepCopy()
			for j := range t.SiacoinInputs {
				if ref, found := l.SCEs[t.SiacoinInputs[j].Parent.ID]; found {
					t.SiacoinInputs[j].Parent.StateElement = ref.StateElement.Copy()
				} else if t.SiacoinInputs[j].Parent.StateElement.LeafIndex != types.UnassignedLeafIndex {
					t.SiacoinInputs[j].Parent.StateElement = types.StateElement{LeafIndex: types.UnassignedLeafIndex}
				}
			}
			if consensus.ValidateV2Transaction(ms, t) != nil {
				ok = false
			}
			if !ok {
				a.alive = false
				continue
			}
			ms.ApplyV2Transaction(t)
		}
		if !have[a.id.String()] {
			return &bfs.Violation{Signature: "c05:accepted-transaction-lost", What: fmt.Sprintf("%s: %s: transaction %v was accepted, is not confirmed, never lost an input on any intermediate tip and is still valid at tip %s, but the pool no longer reports it (pool: %v)", u.Describe(), ctx, a.id, u.Nodes[tipK].Label, ids)}
		}
	}
	return nil
}

// determinise rewrites the random parts of a mined block so that replays produce the same block.
func determinise(cs consensus.State, b *types.Block, n int) {
	b.Timestamp = univ.TS(cs.Network, cs.Index.Height+1, 2)
	if b.V2 != nil {
		if len(b.V2.Transactions) > 0 && len(b.V2.Transactions[0].ArbitraryData) == 12 {
			b.V2.Transactions[0].ArbitraryData = []byte(fmt.Sprintf("mined-%06d", n))
		}
		b.V2.Commitment = cs.Commitment(b.MinerPayouts[0].Address, b.Transactions, b.V2Transactions())
	}
	univ.Mine(cs, b)
}

func poolApply(w0 bfs.World, o bfs.Op, check bool) (v *bfs.Violation) {
	w := w0.(*poolWorld)
	u, n := w.pu.u, w.n
	ctx := fmt.Sprint(o)
	defer func() {
		if r := recover(); r != nil {
			if os.Getenv("VERIF_DEBUG") != "" {
				fmt.Fprintf(os.Stderr, "panic in %v: %v\n%s\n", o, r, debug.Stack())
			}
			v = &bfs.Violation{Signature: "c05:panic:" + strings.SplitN(fmt.Sprint(o), "(", 2)[0], What: fmt.Sprintf("%s: %v panicked: %v", u.Describe(), o, r)}
			if w.prop == "C14" {
				v.Signature = "c14:panic:" + strings.SplitN(fmt.Sprint(o), "(", 2)[0]
			}
		}
	}()
	switch op := o.(type) {
	case addOp:
		var s txSet
		for _, m := range w.pu.menu {
			if m.Name == op.Add {
				s = m
			}
		}
		beforeIDs, _, _ := poolIDs(n)
		inPool := map[string]bool{}
		for _, id := range beforeIDs {
			inPool[id[2:]] = true
		}
		allKnown := true
		var setIDs []types.TransactionID
		for _, t := range s.V1 {
			setIDs = append(setIDs, t.ID())
		}
		for _, t := range s.V2 {
			setIDs = append(setIDs, t.ID())
		}
		// transactions of a v2 set that were confirmed between its basis and the tip are removed by the
		// rebase before anything else; 'known' and all-or-nothing are judged on the remaining ones
		if len(s.V2) > 0 {
			confirmed := map[types.TransactionID]bool{}
			if tk := n.TipNode(); tk >= 0 {
				for _, k := range u.PathTo(tk) {
					for _, t := range u.Nodes[k].Block.V2Transactions() {
						confirmed[t.ID()] = true
					}
				}
			}
			var rem []types.TransactionID
			for _, id := range setIDs {
				if !confirmed[id] {
					rem = append(rem, id)
				}
			}
			setIDs = rem
		}
		for _, id := range setIDs {
			if !inPool[id.String()] {
				allKnown = false
			}
		}
		// caller-owned copies
		v1 := append([]types.Transaction(nil), s.V1...)
		v2 := make([]types.V2Transaction, len(s.V2))
		for i := range s.V2 {
			v2[i] = s.V2[i].DeepCopy()
		}
		snap := encTxns(v1, v2)
		var known bool
		var err error
		if len(v2) > 0 {
			bn := u.Nodes[s.Basis]
			known, err = n.CM.AddV2PoolTransactions(types.ChainIndex{Height: bn.Height, ID: bn.Block.ID()}, v2)
		} else {
			known, err = n.CM.AddPoolTransactions(v1)
		}
		// bookkeeping, read before any query re-validates the pool: the recorded weight (which decides evictions at
		// the next revalidation) is the weight of what is pooled
		if rec, act, _ := n.CM.VerifPoolWeight(); rec != act {
			return &bfs.Violation{Signature: "c14:pool-weight-out-of-sync", What: fmt.Sprintf("%s: right after %v (known=%v err=%v) the pool records weight %d but holds transactions weighing %d: a rejected set leaves its weight behind and the next revalidation evicts by it", u.Describe(), o, known, err, rec, act)}
		}
		afterIDs, _, _ := poolIDs(n)
		if err == nil && !known {
			for i, t := range s.V1 {
				t := t
				if !inPool[setIDs[i].String()] {
					w.accepted = append(w.accepted, acceptedTxn{id: t.ID(), v1: &t, alive: true})
				}
			}
			remaining := map[types.TransactionID]bool{}
			for _, id := range setIDs {
				remaining[id] = true
			}
			for _, t := range s.V2 {
				t := t.DeepCopy()
				if !inPool[t.ID().String()] && remaining[t.ID()] {
					w.accepted = append(w.accepted, acceptedTxn{id: t.ID(), v2: &t, alive: true})
				}
			}
		}
		if !check {
			break
		}
		if w.prop == "C14" {
			after := map[string]bool{}
			for _, id := range afterIDs {
				after[id[2:]] = true
			}
			describe := fmt.Sprintf("%s: %v (known=%v err=%v) pool before %v after %v", u.Describe(), o, known, err, beforeIDs, afterIDs)
			if err != nil || known {
				if strings.Join(beforeIDs, ",") != strings.Join(afterIDs, ",") {
					return &bfs.Violation{Signature: "c14:failed-or-known-submission-changed-pool", What: describe}
				}
			} else {
				for _, id := range setIDs {
					if !after[id.String()] {
						return &bfs.Violation{Signature: "c14:accepted-set-not-fully-added", What: describe}
					}
				}
				if len(afterIDs) != len(beforeIDs)+func() int {
					c := 0
					for _, id := range setIDs {
						if !inPool[id.String()] {
							c++
						}
					}
					return c
				}() {
					return &bfs.Violation{Signature: "c14:pool-size-after-accept", What: describe}
				}
			}
			if known != (allKnown && err == nil) && !(err != nil && !known) {
				return &bfs.Violation{Signature: "c14:known-flag", What: describe + fmt.Sprintf(" (all ids pooled before: %v)", allKnown)}
			}
			if err == nil && allKnown && !known {
				return &bfs.Violation{Signature: "c14:known-flag", What: describe + " (all ids were pooled but known=false)"}
			}
			if !bytes.Equal(snap, encTxns(v1, v2)) {
				return &bfs.Violation{Signature: "c14:caller-memory-modified", What: describe}
			}
			// later mutation of caller memory must be invisible to the pool
			_, p1, p2 := poolIDs(n)
			poolSnap := encTxns(p1, p2)
			for i := range v2 {
				for j := range v2[i].SiacoinInputs {
					for k := range v2[i].SiacoinInputs[j].Parent.StateElement.MerkleProof {
						v2[i].SiacoinInputs[j].Parent.StateElement.MerkleProof[k][0] ^= 0xff
					}
					if len(v2[i].SiacoinInputs[j].SatisfiedPolicy.Signatures) > 0 {
						v2[i].SiacoinInputs[j].SatisfiedPolicy.Signatures[0][0] ^= 0xff
					}
				}
				for j := range v2[i].SiacoinOutputs {
					v2[i].SiacoinOutputs[j].Value = types.ZeroCurrency
				}
			}
			// mutate returned v2 transactions and reorder returned lists
			for i := range p2 {
				for j := range p2[i].SiacoinInputs {
					for k := range p2[i].SiacoinInputs[j].Parent.StateElement.MerkleProof {
						p2[i].SiacoinInputs[j].Parent.StateElement.MerkleProof[k][1] ^= 0xff
					}
				}
				for j := range p2[i].SiacoinOutputs {
					p2[i].SiacoinOutputs[j].Address[0] ^= 0xff
				}
			}
			sort.Slice(p1, func(i, j int) bool { return i > j })
			sort.Slice(p2, func(i, j int) bool { return i > j })
			// the same for every other query that hands out pooled v2 transactions: lookup by id and the
			// partial-block query by Merkle leaf hash
			scribble := func(txns []types.V2Transaction) {
				for i := range txns {
					for j := range txns[i].SiacoinInputs {
						for k := range txns[i].SiacoinInputs[j].Parent.StateElement.MerkleProof {
							txns[i].SiacoinInputs[j].Parent.StateElement.MerkleProof[k][2] ^= 0xff
						}
						if len(txns[i].SiacoinInputs[j].SatisfiedPolicy.Signatures) > 0 {
							txns[i].SiacoinInputs[j].SatisfiedPolicy.Signatures[0][1] ^= 0xff
						}
					}
					for j := range txns[i].SiacoinOutputs {
						txns[i].SiacoinOutputs[j].Address[1] ^= 0xff
					}
					for j := range txns[i].SiafundInputs {
						for k := range txns[i].SiafundInputs[j].Parent.StateElement.MerkleProof {
							txns[i].SiafundInputs[j].Parent.StateElement.MerkleProof[k][2] ^= 0xff
						}
					}
					if len(txns[i].ArbitraryData) > 0 {
						txns[i].ArbitraryData[0] ^= 0xff
					}
				}
			}
			{
				_, _, cur := poolIDs(n)
				var hashes []types.Hash256
				for _, t := range cur {
					hashes = append(hashes, t.MerkleLeafHash())
					if got, ok := n.CM.V2PoolTransaction(t.ID()); ok {
						scribble([]types.V2Transaction{got})
					}
				}
				_, partial := n.CM.TransactionsForPartialBlock(hashes)
				scribble(partial)
			}
			_, q1, q2 := poolIDs(n)
			if !bytes.Equal(poolSnap, encTxns(q1, q2)) {
				return &bfs.Violation{Signature: "c14:pool-aliases-caller-or-returned-memory", What: fmt.Sprintf("%s: after %v, mutating the caller's set / the returned transactions changed what the pool reports", u.Describe(), o)}
			}
			// lookups for every id kind
			var all []types.TransactionID
			for _, m := range w.pu.menu {
				for _, t := range m.V1 {
					all = append(all, t.ID())
				}
				for _, t := range m.V2 {
					all = append(all, t.ID())
				}
			}
			all = append(all, types.TransactionID{}, types.TransactionID{1}, types.TransactionID{0xff, 0xfe})
			v1ids, v2ids := map[types.TransactionID]bool{}, map[types.TransactionID]bool{}
			for _, t := range q1 {
				v1ids[t.ID()] = true
			}
			for _, t := range q2 {
				v2ids[t.ID()] = true
			}
			for _, id := range all {
				t1, ok1 := n.CM.PoolTransaction(id)
				if ok1 != v1ids[id] || (ok1 && t1.ID() != id) {
					return &bfs.Violation{Signature: "c14:lookup-v1", What: fmt.Sprintf("%s: after %v: PoolTransaction(%v) = (id %v, %v), v1 pool holds it: %v, v2 pool holds it: %v", u.Describe(), o, id, t1.ID(), ok1, v1ids[id], v2ids[id])}
				}
				t2, ok2 := n.CM.V2PoolTransaction(id)
				if ok2 != v2ids[id] || (ok2 && t2.ID() != id) {
					return &bfs.Violation{Signature: "c14:lookup-v2", What: fmt.Sprintf("%s: after %v: V2PoolTransaction(%v) = (id %v, %v), v2 pool holds it: %v, v1 pool holds it: %v", u.Describe(), o, id, t2.ID(), ok2, v2ids[id], v1ids[id])}
				}
			}
		}
	case mineOp:
		cs := n.CM.TipState()
		b, ok := coreutils.MineBlock(n.CM, u.As[0].Addr, 10*time.Second)
		if !ok {
			return &bfs.Violation{Signature: "c05:mine-failed", What: "MineBlock found no nonce"}
		}
		determinise(cs, &b, w.mined)
		w.mined++
		w.pu.ext.Lock()
		k := u.AddRaw(u.ByID[cs.Index.ID], b, fmt.Sprintf("mined%d", w.mined))
		valid, why := u.Nodes[k].Valid, u.Nodes[k].Err
		w.pu.ext.Unlock()
		err := n.CM.AddBlocks([]types.Block{b})
		if check && w.prop == "C05" {
			if !valid {
				return &bfs.Violation{Signature: "c05:mined-block-invalid", What: fmt.Sprintf("%s: the block assembled from the reported pool contents is invalid per the reference: %s", u.Describe(), why)}
			}
			if err != nil || n.CM.Tip().ID != b.ID() {
				return &bfs.Violation{Signature: "c05:mined-block-rejected", What: fmt.Sprintf("%s: the block assembled from the pool was not accepted: err=%v tip=%v", u.Describe(), err, n.CM.Tip())}
			}
			fresh := node.New(u)
			if err := fresh.CM.AddBlocks(u.Blocks(u.PathTo(k))); err != nil || fresh.CM.Tip().ID != b.ID() {
				return &bfs.Violation{Signature: "c05:mined-block-rejected-by-linear-node", What: fmt.Sprintf("%s: a fresh linear node rejects the mined chain: %v", u.Describe(), err)}
			}
		}
	default:
		_, pan := applySubmission(n, o)
		if pan != nil {
			return &bfs.Violation{Signature: "c05:panic:submit", What: fmt.Sprintf("%s: %v panicked: %v", u.Describe(), o, pan)}
		}
	}
	if !check {
		// keep the reference pool in step (its fold is part of the state)
		if w.prop == "C05" {
			w.checkRetention(ctx)
		}
		return nil
	}
	if w.prop == "C05" {
		if v := w.checkPoolValid(ctx); v != nil {
			return v
		}
		if v := w.checkRetention(ctx); v != nil {
			return v
		}
	}
	if w.prop == "C14" {
		if v := w.checkPoolValid(ctx); v != nil && strings.HasPrefix(v.Signature, "c14:") {
			return v
		}
	}
	return nil
}

func poolOps(pu *poolUniverse, withMine bool) []bfs.Op {
	var ops []bfs.Op
	for k := 1; k < len(pu.u.Nodes); k++ {
		if l := pu.u.Nodes[k].Label; l == "trunk" || l == "m1" || l == "m2" || l == "m3" || l == "m4" || l == "b3" || l == "b5" || l == "b2" {
			ops = append(ops, uptoOp{k})
		}
	}
	for _, m := range pu.menu {
		ops = append(ops, addOp{m.Name})
	}
	if withMine {
		ops = append(ops, mineOp{})
	}
	return ops
}

func poolExplore(prop string, depth int, withMine bool, onState func(w *poolWorld, hist []bfs.Op) *bfs.Violation) {
	regs := []univ.Regime{univ.RegimeV1, univ.RegimeX, univ.RegimeV2}
	parallel(len(regs), func(i int) {
		pu := buildPoolUniverse(regs[i])
		nStatic := len(pu.u.Nodes)
		ops := poolOps(pu, withMine)
		res := bfs.Run(bfs.Config{
			New:   func() bfs.World { return newPoolWorld(pu, prop) },
			Ops:   func(bfs.World, int) []bfs.Op { return ops },
			Apply: poolApply,
			OnState: func(w bfs.World, hist []bfs.Op) (*bfs.Violation, bool) {
				if onState != nil {
					return onState(w.(*poolWorld), hist), false
				}
				return nil, false
			},
			MaxDepth:  depth,
			MaxStates: 60000,
			Stop:      run.Expired,
		})
		run.Add(int64(res.States), int64(res.Transitions), int64(res.Replays), int64(res.Transitions))
		if res.Capped && run.Expired() {
			run.Cap("time budget hit in pool exploration " + string(regs[i]))
		}
		run.Extra["pool_universe_"+string(regs[i])] = map[string]any{"states": res.States, "transitions": res.Transitions, "replays": res.Replays, "blocks_mined_dynamically": len(pu.u.Nodes) - nStatic, "fixpoint": res.Complete}
		if len(res.Samples) > 0 {
			run.Sample(map[string]any{"universe": "pool[" + string(regs[i]) + "]", "history": histStrings(res.Samples[len(res.Samples)-1])})
		}
		for _, v := range res.Violations {
			run.Violate(v.Signature, v.What, map[string]any{"universe": "pool[" + string(regs[i]) + "]", "history": histStrings(v.History)})
		}
	})
	run.DistinctN = run.States
}

func c05() {
	depth := 4
	if run.Thorough() {
		depth = 5
	}
	poolExplore("C05", depth, true, nil)
	c05NearFullBlock()
	run.Rule = "pool universes (main m1..m4 with a conflicting spend in m2, the parent of menu set 'chain' confirmed without its child in m3 and the grandparent of 'chain3' in m4; branch b2..b5 confirming menu transaction 'a' in b3) in 3 regimes; ops: submit path up to m1/m2/m3/m4/b2/b3/b5, add each of the 10-11 menu sets (independent, conflicting, parent+child, child only, partly known, conflict at position 1, invalid at position 1, stale basis), mine (real coreutils.MineBlock, then AddBlocks); BFS by replay (the pool cannot be cloned) with state key = store + tip + private pool state; plus MineBlock on a pool holding one transaction of weight (maximum block weight - d) for d in 0..24; distinct = distinct states"
	run.Explanation = fmt.Sprintf("depth bound %d. After every transition: every prefix of PoolTransactions()+V2PoolTransactions() validates on a fresh MidState of the reference tip with reference supplements, v2 proofs equal the reference ledger's; mined blocks are valid per the reference, accepted by the node and by a fresh linear node; a reference lower-bound pool (accepted, not confirmed, no input missing on any intermediate tip of any reorg, still valid in acceptance order) is contained in the reported pool.", depth)
	run.Assumptions = []string{"fee-based eviction of a full pool is not explored (needs >= 2*10^7 weight units)", "contract revision/resolution sets are exercised by the C13 check, not here"}
}

func c14() {
	depth := 4
	if run.Thorough() {
		depth = 5
	}
	poolExplore("C14", depth, false, nil)
	run.Rule = "same pool universes and menu as C05 without mining; after every submission: pool id set == before (error or known) or before + exactly the new ids (accepted); known <=> every id was pooled; caller's transactions byte-identical after the call; flipping proof/signature/output bytes in the caller's set and in transactions returned by V2PoolTransactions, and reordering returned slices, leaves the reported pool unchanged; PoolTransaction and V2PoolTransaction for every menu id (v1 and v2 kinds) and three unknown ids return exactly the pooled transaction with that id or false, never panic"
	run.Explanation = fmt.Sprintf("BFS by replay to depth %d over 3 regimes.", depth)
	run.Assumptions = []string{"v1 submissions are not promised to be copied by the documentation; aliasing is only checked for the v2 API and for returned values"}
}
