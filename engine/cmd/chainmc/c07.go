package main

import (
	"errors"
	"fmt"
	"os"
	"sort"
	"strings"
	"sync"
	"time"

	"go.sia.tech/core/types"
	"go.sia.tech/coreutils/vtime"
	"go.sia.tech/coreutils/wallet"
	"verif/internal/node"
	"verif/internal/univ"
	"verif/internal/wstore"
)

type walletOpts struct{ Threshold, MaxInputs, MaxDefrag int }

func (o walletOpts) String() string {
	return fmt.Sprintf("defrag(thr=%d,maxin=%d,maxutxo=%d)", o.Threshold, o.MaxInputs, o.MaxDefrag)
}

// fundedTxn is an outstanding (not released, not confirmed) funded transaction.
type fundedTxn struct {
	v1     *types.Transaction
	v2     *types.V2Transaction
	toSign []types.Hash256
	toSig2 []int
	basis  types.ChainIndex
	inputs []types.SiacoinOutputID
	set    []types.V2Transaction // for redistribute: the whole set
}

type c07World struct {
	u     *univ.Universe
	v2    bool
	n     *node.Node
	st    *wstore.Store
	w     *wallet.SingleAddressWallet
	opts  walletOpts
	out   []*fundedTxn
	mined int
	log   []string
	// noSync: mine() leaves the wallet un-notified (the chain manager is ahead of the wallet's store)
	noSync bool
}

func (w *c07World) newWallet() {
	if w.w != nil {
		w.w.Close()
	}
	sw, err := wallet.NewSingleAddressWallet(w.u.As[0].Key, w.n.CM, w.st, nopSyncer{},
		wallet.WithDefragThreshold(w.opts.Threshold), wallet.WithMaxInputsForDefrag(w.opts.MaxInputs), wallet.WithMaxDefragUTXOs(w.opts.MaxDefrag),
		wallet.WithReservationDuration(3*time.Hour), wallet.WithDebounceInterval(time.Hour))
	if err != nil {
		panic(err)
	}
	w.w = sw
}

func (w *c07World) sync() {
	for w.st.TipIdx != w.n.CM.Tip() {
		rus, aus, err := w.n.CM.UpdatesSince(w.st.TipIdx, 1000)
		if err != nil {
			panic(err)
		}
		if err := w.w.UpdateChainState(w.st, rus, aus); err != nil {
			panic(err)
		}
		if len(aus) > 0 {
			w.st.TipIdx = aus[len(aus)-1].State.Index
		} else if len(rus) > 0 {
			w.st.TipIdx = rus[len(rus)-1].State.Index
		}
	}
}

// c07Base builds the chain: block 1 gives the wallet exactly outputs of 1,2,3,5 SC; blocks are mined by
// actor 1 so that the wallet has no payouts; two more blocks mature everything.
func c07Base(reg univ.Regime) *univ.Universe {
	u := univ.NewUniverse("walletbase", reg)
	v2 := reg != univ.RegimeV1
	L := u.Nodes[0].L
	own := univ.OwnedSC(L, u.As[0].Addr)
	a0 := u.As[0]
	outs := []types.SiacoinOutput{{Address: a0.Addr, Value: univ.SC(1)}, {Address: a0.Addr, Value: univ.SC(2)}, {Address: a0.Addr, Value: univ.SC(3)}, {Address: a0.Addr, Value: univ.SC(5)}}
	var v1 []types.Transaction
	var v2t []types.V2Transaction
	for i, e := range own {
		if v2 {
			t := univ.V2Spend(L.State, a0, e, u.As[1].Addr, e.SiacoinOutput.Value.Sub(univ.SC(1)), univ.SC(1))
			if i == 0 {
				t = types.V2Transaction{SiacoinInputs: []types.V2SiacoinInput{{Parent: e.Copy()}}, MinerFee: univ.SC(1)}
				t.SiacoinOutputs = append(append([]types.SiacoinOutput{}, outs...), types.SiacoinOutput{Address: u.As[1].Addr, Value: e.SiacoinOutput.Value.Sub(univ.SC(12))})
				univ.SignV2(L.State, &t, a0)
			}
			v2t = append(v2t, t)
		} else {
			t := univ.V1Spend(L.State, a0, e, u.As[1].Addr, e.SiacoinOutput.Value.Sub(univ.SC(1)), univ.SC(1))
			if i == 0 {
				t = types.Transaction{SiacoinInputs: []types.SiacoinInput{{ParentID: e.ID, UnlockConditions: a0.UC}}, MinerFees: []types.Currency{univ.SC(1)}}
				t.SiacoinOutputs = append(append([]types.SiacoinOutput{}, outs...), types.SiacoinOutput{Address: u.As[1].Addr, Value: e.SiacoinOutput.Value.Sub(univ.SC(12))})
				t.Signatures = []types.TransactionSignature{{ParentID: types.Hash256(e.ID), CoveredFields: types.CoveredFields{WholeTransaction: true}}}
				sig := a0.Key.SignHash(L.State.WholeSigHash(t, types.Hash256(e.ID), 0, 0, nil))
				t.Signatures[0].Signature = sig[:]
			}
			v1 = append(v1, t)
		}
	}
	k := u.Add(0, 1, v1, v2t, "m1")
	k = u.Add(k, 1, nil, nil, "m2")
	k = u.Add(k, 1, nil, nil, "m3")
	for _, n := range u.Nodes {
		if !n.Valid {
			panic("wallet base universe invalid: " + n.Err)
		}
	}
	return u
}

var c07mu sync.Mutex // guards dynamic universe extension

func newC07World(u *univ.Universe, opts walletOpts) *c07World {
	w := &c07World{u: u, v2: u.Regime != univ.RegimeV1, n: node.New(u), st: wstore.New(), opts: opts}
	w.n.CM.AddBlocks(u.Blocks(u.PathTo(3)))
	w.newWallet()
	w.sync()
	return w
}

// mine assembles a block from the pool (miner: actor `miner`), adds it and syncs the wallet.
func (w *c07World) mine(miner int) error {
	cs := w.n.CM.TipState()
	L := w.u.Nodes[w.n.TipNode()].L
	b := univ.BuildBlock(L, univ.TS(w.u.Net, cs.Index.Height+1, 3), w.u.As[miner].Addr, w.n.CM.PoolTransactions(), w.n.CM.V2PoolTransactions())
	c07mu.Lock()
	w.u.AddRaw(w.n.TipNode(), b, fmt.Sprintf("mined-by-%d", miner))
	c07mu.Unlock()
	if err := w.n.CM.AddBlocks([]types.Block{b}); err != nil {
		return err
	}
	if w.noSync {
		return nil // the wallet has not been notified of the block yet
	}
	w.sync()
	// confirmed transactions are no longer outstanding
	var rest []*fundedTxn
	for _, f := range w.out {
		spent := 0
		for _, id := range f.inputs {
			if _, ok := w.st.UTXOs[id]; !ok {
				spent++
			}
		}
		if spent < len(f.inputs) {
			rest = append(rest, f)
		}
	}
	w.out = rest
	return nil
}

// --- setup actions (bring the wallet into a given mix of output states) ---

func (w *c07World) utxoByValue(sc uint32) (types.SiacoinElement, bool) {
	for _, e := range w.st.UTXOs {
		if e.SiacoinOutput.Value.Equals(univ.SC(sc)) {
			return e.Copy(), true
		}
	}
	return types.SiacoinElement{}, false
}

func (w *c07World) setup(name string) {
	a0, a1 := w.u.As[0], w.u.As[1]
	cs := w.n.CM.TipState()
	switch name {
	case "plain":
	case "immature":
		if err := w.mine(0); err != nil {
			panic(err)
		}
	case "poolspent":
		// an external spend of one wallet output that no outstanding funded transaction has reserved
		locked := w.w.VerifLocked()
		e, ok := w.utxoByValue(2)
		if _, l := locked[e.ID]; !ok || l {
			ok = false
			for _, v := range []uint32{3, 1, 5} {
				if c, found := w.utxoByValue(v); found {
					if _, l := locked[c.ID]; !l {
						e, ok = c, true
						break
					}
				}
			}
		}
		if !ok {
			return
		}
		if w.v2 {
			t := univ.V2Spend(cs, a0, e, a1.Addr, e.SiacoinOutput.Value.Sub(univ.SC(1)).Add(types.NewCurrency64(1)).Sub(types.NewCurrency64(1)), univ.SC(1))
			if e.SiacoinOutput.Value.Equals(univ.SC(1)) {
				t = univ.V2Spend(cs, a0, e, a1.Addr, univ.SC(1).Div64(2), univ.SC(1).Div64(2))
			}
			if _, err := w.n.CM.AddV2PoolTransactions(w.n.CM.Tip(), []types.V2Transaction{t}); err != nil {
				panic(err)
			}
		} else {
			t := univ.V1Spend(cs, a0, e, a1.Addr, e.SiacoinOutput.Value.Sub(univ.SC(1)), univ.SC(1))
			if e.SiacoinOutput.Value.Equals(univ.SC(1)) {
				t = univ.V1Spend(cs, a0, e, a1.Addr, univ.SC(1).Div64(2), univ.SC(1).Div64(2))
			}
			if _, err := w.n.CM.AddPoolTransactions([]types.Transaction{t}); err != nil {
				panic(err)
			}
		}
	case "unconfirmed":
		L := w.u.Nodes[w.n.TipNode()].L
		e := univ.OwnedSC(L, a1.Addr)[0]
		if w.v2 {
			t := univ.V2Spend(cs, a1, e, a0.Addr, univ.SC(4), univ.SC(1))
			if _, err := w.n.CM.AddV2PoolTransactions(w.n.CM.Tip(), []types.V2Transaction{t}); err != nil {
				panic(err)
			}
		} else {
			t := univ.V1Spend(cs, a1, e, a0.Addr, univ.SC(4), univ.SC(1))
			if _, err := w.n.CM.AddPoolTransactions([]types.Transaction{t}); err != nil {
				panic(err)
			}
		}
	case "locked":
		if v := w.fund(univ.SC(1), false); v != "" {
			panic("setup locked: " + v)
		}
	default:
		for _, part := range strings.Split(name, "+") {
			if part != name {
				w.setup(part)
			}
		}
	}
}

// --- model of what is spendable ---

type spendModel struct {
	spendable map[types.SiacoinOutputID]types.SiacoinElement // owned, mature, not pool-spent, not reserved
	unconf    map[types.SiacoinOutputID]types.SiacoinOutput  // outputs to the wallet created by pool transactions, unspent in the pool, not reserved
	reserved  map[types.SiacoinOutputID]bool
	poolSpent map[types.SiacoinOutputID]bool
}

func (w *c07World) model() spendModel {
	m := spendModel{spendable: map[types.SiacoinOutputID]types.SiacoinElement{}, unconf: map[types.SiacoinOutputID]types.SiacoinOutput{}, reserved: map[types.SiacoinOutputID]bool{}, poolSpent: map[types.SiacoinOutputID]bool{}}
	addr := w.u.As[0].Addr
	for _, f := range w.out {
		for _, id := range f.inputs {
			m.reserved[id] = true
		}
	}
	for _, t := range w.n.CM.PoolTransactions() {
		for _, in := range t.SiacoinInputs {
			m.poolSpent[in.ParentID] = true
			delete(m.unconf, in.ParentID)
		}
		for i, o := range t.SiacoinOutputs {
			if o.Address == addr {
				m.unconf[t.SiacoinOutputID(i)] = o
			}
		}
	}
	for _, t := range w.n.CM.V2PoolTransactions() {
		for _, in := range t.SiacoinInputs {
			m.poolSpent[in.Parent.ID] = true
			delete(m.unconf, in.Parent.ID)
		}
		id := t.ID()
		for i, o := range t.SiacoinOutputs {
			if o.Address == addr {
				m.unconf[t.SiacoinOutputID(id, i)] = o
			}
		}
	}
	tip := w.st.TipIdx.Height
	for id, e := range w.st.UTXOs {
		if e.MaturityHeight <= tip && !m.poolSpent[id] && !m.reserved[id] {
			m.spendable[id] = e
		}
	}
	for id := range m.unconf {
		if m.reserved[id] {
			delete(m.unconf, id)
		}
	}
	return m
}

func (m spendModel) sum() (s types.Currency) {
	for _, e := range m.spendable {
		s = s.Add(e.SiacoinOutput.Value)
	}
	return
}

// checkInputs: every selected input is justified by the model and appears once; returns their sum.
func (w *c07World) checkInputs(m spendModel, ids []types.SiacoinOutputID, vals []types.Currency, useUnconfirmed bool, what string) (types.Currency, string) {
	seen := map[types.SiacoinOutputID]bool{}
	var sum types.Currency
	for i, id := range ids {
		if seen[id] {
			return sum, fmt.Sprintf("c07:duplicate-input|%s selected input %v twice", what, id)
		}
		seen[id] = true
		if e, ok := m.spendable[id]; ok {
			if !e.SiacoinOutput.Value.Equals(vals[i]) {
				return sum, fmt.Sprintf("c07:input-value|%s input %v carries value %v, the wallet's output is worth %v", what, id, vals[i], e.SiacoinOutput.Value)
			}
			sum = sum.Add(vals[i])
			continue
		}
		if o, ok := m.unconf[id]; ok && useUnconfirmed {
			if !o.Value.Equals(vals[i]) {
				return sum, fmt.Sprintf("c07:input-value|%s unconfirmed input %v carries a wrong value", what, id)
			}
			sum = sum.Add(vals[i])
			continue
		}
		why := "not an output of the wallet"
		if e, ok := w.st.UTXOs[id]; ok {
			switch {
			case m.reserved[id]:
				why = "reserved by another outstanding funded transaction"
			case m.poolSpent[id]:
				why = "already spent by a pooled transaction"
			case e.MaturityHeight > w.st.TipIdx.Height:
				why = "immature"
			}
		} else if _, ok := m.unconf[id]; ok {
			why = "unconfirmed although useUnconfirmed=false"
		}
		return sum, fmt.Sprintf("c07:unjustified-input:%s|%s selected input %v which is %s", strings.Fields(why)[0], what, id, why)
	}
	return sum, ""
}

func lockedKey(m map[types.SiacoinOutputID]time.Time) string {
	var ks []string
	for k := range m {
		ks = append(ks, k.String())
	}
	sort.Strings(ks)
	return strings.Join(ks, ",")
}

// fund calls FundV2Transaction / FundTransaction for a transaction paying amount to actor 1 and checks
// everything the property says about the result. Returns "" or "signature|description".
func (w *c07World) fund(amount types.Currency, useUnconfirmed bool) string {
	m := w.model()
	lockedBefore := lockedKey(w.w.VerifLocked())
	what := fmt.Sprintf("Fund(%v, unconfirmed=%v) with %v:", amount, useUnconfirmed, w.opts)
	f := &fundedTxn{}
	var ids []types.SiacoinOutputID
	var vals []types.Currency
	var change types.Currency
	var err error
	if w.v2 {
		t := types.V2Transaction{SiacoinOutputs: []types.SiacoinOutput{{Address: w.u.As[1].Addr, Value: amount}}}
		if amount.IsZero() {
			t.SiacoinOutputs = nil
		}
		nOut := len(t.SiacoinOutputs)
		f.basis, f.toSig2, err = w.w.FundV2Transaction(&t, amount, useUnconfirmed)
		if err == nil {
			for _, in := range t.SiacoinInputs {
				ids = append(ids, in.Parent.ID)
				vals = append(vals, in.Parent.SiacoinOutput.Value)
			}
			for _, o := range t.SiacoinOutputs[nOut:] {
				if o.Address != w.u.As[0].Addr {
					return "c07:change-address|" + what + " change output does not pay the wallet"
				}
				change = change.Add(o.Value)
			}
			if len(f.toSig2) != len(t.SiacoinInputs) {
				return "c07:tosign|" + what + " toSign does not cover the added inputs"
			}
		} else if len(t.SiacoinInputs) != 0 || len(t.SiacoinOutputs) != nOut {
			return "c07:failed-fund-modified-txn|" + what + " failed but modified the transaction"
		}
		f.v2 = &t
	} else {
		t := types.Transaction{SiacoinOutputs: []types.SiacoinOutput{{Address: w.u.As[1].Addr, Value: amount}}}
		if amount.IsZero() {
			t.SiacoinOutputs = nil
		}
		nOut := len(t.SiacoinOutputs)
		f.toSign, err = w.w.FundTransaction(&t, amount, useUnconfirmed)
		if err == nil {
			for _, in := range t.SiacoinInputs {
				ids = append(ids, in.ParentID)
				if e, ok := w.st.UTXOs[in.ParentID]; ok {
					vals = append(vals, e.SiacoinOutput.Value)
				} else {
					vals = append(vals, m.unconf[in.ParentID].Value)
				}
			}
			for _, o := range t.SiacoinOutputs[nOut:] {
				change = change.Add(o.Value)
			}
		} else if len(t.SiacoinInputs) != 0 || len(t.SiacoinOutputs) != nOut {
			return "c07:failed-fund-modified-txn|" + what + " failed but modified the transaction"
		}
		f.v1 = &t
	}
	if os.Getenv("VERIF_C07_DEBUG") != "" {
		fmt.Fprintf(os.Stderr, "DEBUG %s err=%v ids=%v vals=%v change=%v model.spendable=%d unconf=%d reserved=%d poolSpent=%d\n", what, err, ids, vals, change, len(m.spendable), len(m.unconf), len(m.reserved), len(m.poolSpent))
	}
	avail := m.sum()
	if useUnconfirmed {
		for _, o := range m.unconf {
			avail = avail.Add(o.Value)
		}
	}
	if err != nil {
		if lockedKey(w.w.VerifLocked()) != lockedBefore {
			return "c07:failed-fund-reserved|" + what + " failed (" + err.Error() + ") but changed the reservation table"
		}
		if !errors.Is(err, wallet.ErrNotEnoughFunds) {
			return "c07:fund-error|" + what + " failed with " + err.Error()
		}
		if amount.Cmp(avail) <= 0 {
			return fmt.Sprintf("c07:fund-refused-although-funds|%s refused although %v is spendable: %v", what, avail, err)
		}
		return ""
	}
	if amount.Cmp(avail) > 0 {
		return fmt.Sprintf("c07:fund-beyond-spendable|%s succeeded although only %v is spendable", what, avail)
	}
	sum, bad := w.checkInputs(m, ids, vals, useUnconfirmed, what)
	if bad != "" {
		return bad
	}
	if !sum.Equals(amount.Add(change)) {
		return fmt.Sprintf("c07:conservation|%s inputs sum to %v but amount+change is %v", what, sum, amount.Add(change))
	}
	locked := w.w.VerifLocked()
	for _, id := range ids {
		if _, ok := locked[id]; !ok {
			return fmt.Sprintf("c07:input-not-reserved|%s input %v was selected but not reserved", what, id)
		}
	}
	f.inputs = ids
	if len(ids) > 0 {
		w.out = append(w.out, f)
	}
	return ""
}

// signAndBroadcast signs the most recent outstanding transaction and submits it to the pool.
func (w *c07World) signAndBroadcast() string {
	if len(w.out) == 0 {
		return ""
	}
	f := w.out[len(w.out)-1]
	if f.set != nil || (f.v2 != nil && len(f.v2.SiacoinInputs[0].SatisfiedPolicy.Signatures) > 0) || (f.v1 != nil && len(f.v1.Signatures) > 0) {
		return "" // already broadcast
	}
	if f.v2 != nil {
		w.w.SignV2Inputs(f.v2, f.toSig2)
		basis, set, err := w.n.CM.V2TransactionSet(f.basis, *f.v2)
		if err != nil {
			return "c07:funded-txn-set|V2TransactionSet for the funded transaction failed: " + err.Error()
		}
		if _, err := w.n.CM.AddV2PoolTransactions(basis, set); err != nil {
			return fmt.Sprintf("c07:funded-txn-rejected|the signed funded transaction (inputs %v) is rejected by the pool: %v", f.inputs, err)
		}
		return ""
	}
	w.w.SignTransaction(f.v1, f.toSign, types.CoveredFields{WholeTransaction: true})
	set := append(w.n.CM.UnconfirmedParents(*f.v1), *f.v1)
	if _, err := w.n.CM.AddPoolTransactions(set); err != nil {
		return fmt.Sprintf("c07:funded-txn-rejected|the signed funded transaction (inputs %v) is rejected by the pool: %v", f.inputs, err)
	}
	return ""
}

func (w *c07World) release() string {
	if len(w.out) == 0 {
		return ""
	}
	f := w.out[len(w.out)-1]
	if f.v2 != nil && len(f.v2.SiacoinInputs[0].SatisfiedPolicy.Signatures) > 0 || f.v1 != nil && len(f.v1.Signatures) > 0 {
		return "" // broadcast transactions must not be released
	}
	w.out = w.out[:len(w.out)-1]
	if f.set != nil {
		w.w.ReleaseInputs(nil, f.set)
	} else if f.v2 != nil {
		w.w.ReleaseInputs(nil, []types.V2Transaction{*f.v2})
	} else {
		w.w.ReleaseInputs([]types.Transaction{*f.v1}, nil)
	}
	locked := w.w.VerifLocked()
	for _, id := range f.inputs {
		if _, ok := locked[id]; ok {
			return fmt.Sprintf("c07:release-left-reservation|ReleaseInputs left input %v reserved", id)
		}
	}
	return ""
}

func (w *c07World) redistribute(outputs int, amount types.Currency) string {
	if !w.v2 {
		return ""
	}
	m := w.model()
	what := fmt.Sprintf("Redistribute(%d x %v) with %v:", outputs, amount, w.opts)
	lockedBefore := lockedKey(w.w.VerifLocked())
	basis, txns, toSign, err := w.w.Redistribute(outputs, amount, types.NewCurrency64(1))
	if err != nil {
		if lockedKey(w.w.VerifLocked()) != lockedBefore {
			return "c07:failed-fund-reserved|" + what + " failed but changed the reservation table"
		}
		return ""
	}
	if len(txns) == 0 {
		return ""
	}
	var all []types.SiacoinOutputID
	var vals []types.Currency
	for _, t := range txns {
		var in, out types.Currency
		for _, i := range t.SiacoinInputs {
			all = append(all, i.Parent.ID)
			vals = append(vals, i.Parent.SiacoinOutput.Value)
			in = in.Add(i.Parent.SiacoinOutput.Value)
		}
		for _, o := range t.SiacoinOutputs {
			out = out.Add(o.Value)
			if o.Address != w.u.As[0].Addr {
				return "c07:change-address|" + what + " output does not pay the wallet"
			}
		}
		if !in.Equals(out.Add(t.MinerFee)) {
			return fmt.Sprintf("c07:conservation|%s inputs %v != outputs %v + fee %v", what, in, out, t.MinerFee)
		}
	}
	if _, bad := w.checkInputs(m, all, vals, false, what); bad != "" {
		return bad
	}
	for i := range txns {
		w.w.SignV2Inputs(&txns[i], toSign[i])
	}
	f := &fundedTxn{set: txns, inputs: all, basis: basis, v2: &txns[0]}
	w.out = append(w.out, f)
	if _, err := w.n.CM.AddV2PoolTransactions(basis, txns); err != nil {
		return fmt.Sprintf("c07:funded-txn-rejected|%s the signed redistribution set is rejected by the pool: %v", what, err)
	}
	return ""
}

func (w *c07World) split(n int, min types.Currency) string {
	if !w.v2 {
		return ""
	}
	m := w.model()
	what := fmt.Sprintf("SplitUTXO(%d, %v) with %v:", n, min, w.opts)
	t, err := w.w.SplitUTXO(n, min)
	if err != nil || len(t.SiacoinInputs) == 0 {
		return ""
	}
	var ids []types.SiacoinOutputID
	var vals []types.Currency
	var in, out types.Currency
	for _, i := range t.SiacoinInputs {
		ids = append(ids, i.Parent.ID)
		vals = append(vals, i.Parent.SiacoinOutput.Value)
		in = in.Add(i.Parent.SiacoinOutput.Value)
	}
	for _, o := range t.SiacoinOutputs {
		out = out.Add(o.Value)
	}
	if _, bad := w.checkInputs(m, ids, vals, true, what); bad != "" {
		return bad
	}
	if !in.Equals(out.Add(t.MinerFee)) {
		return fmt.Sprintf("c07:conservation|%s inputs %v != outputs %v + fee %v", what, in, out, t.MinerFee)
	}
	if _, ok := w.n.CM.V2PoolTransaction(t.ID()); !ok {
		return "c07:funded-txn-rejected|" + what + " returned a transaction that is not in the pool"
	}
	w.out = append(w.out, &fundedTxn{set: []types.V2Transaction{t}, v2: &t, inputs: ids})
	return ""
}

// agreement: Balance().Spendable == sum(SpendableOutputs()) == the largest amount that can be funded.
func (w *c07World) agreement() string {
	m := w.model()
	want := m.sum()
	bal, err := w.w.Balance()
	if err != nil {
		return "c07:balance-error|" + err.Error()
	}
	outs, err := w.w.SpendableOutputs()
	if err != nil {
		return "c07:spendable-error|" + err.Error()
	}
	var sum types.Currency
	for _, o := range outs {
		sum = sum.Add(o.SiacoinOutput.Value)
	}
	if !bal.Spendable.Equals(sum) {
		return fmt.Sprintf("c07:balance-vs-spendable-outputs|Balance().Spendable = %v but SpendableOutputs() sum to %v (model: %v; pool spends %d, reservations %d)", bal.Spendable, sum, want, len(m.poolSpent), len(m.reserved))
	}
	if !bal.Spendable.Equals(want) {
		return fmt.Sprintf("c07:balance-vs-model|Balance().Spendable = %v, owned+mature+not pool-spent+not reserved outputs sum to %v", bal.Spendable, want)
	}
	return ""
}

// c07LaggingStore: the chain manager is one or more blocks ahead of the wallet's store (the state after every
// block until the subscriber has run), and one of those blocks is the one at which a payout of the wallet
// matures. Balance, SpendableOutputs and input selection must still agree with one another.
func c07LaggingStore() {
	for _, reg := range []univ.Regime{univ.RegimeV1, univ.RegimeV2} {
		w := newC07World(c07Base(reg), walletOpts{})
		if err := w.mine(0); err != nil { // the wallet's address mines a block: an immature payout
			run.Violate("c07:lagging-setup", err.Error(), nil)
			continue
		}
		var maturity uint64
		for _, e := range w.st.UTXOs {
			if e.MaturityHeight > maturity {
				maturity = e.MaturityHeight
			}
		}
		for lag := 1; w.n.CM.Tip().Height <= maturity+1 && lag < 400; lag++ {
			w.noSync = true
			err := w.mine(1)
			w.noSync = false
			if err != nil {
				run.Violate("c07:lagging-setup", err.Error(), nil)
				break
			}
			run.Add(1, 1, 1, 1)
			what := fmt.Sprintf("[%s] chain at height %d, wallet store at height %d, payout of the wallet maturing at %d", reg, w.n.CM.Tip().Height, w.st.TipIdx.Height, maturity)
			if v := w.agreement(); v != "" {
				parts := strings.SplitN(v, "|", 2)
				run.Violate(parts[0]+":store-behind-chain", what+": "+parts[1], map[string]any{"regime": string(reg)})
				break
			}
			// the largest amount Balance calls spendable can be funded
			bal, _ := w.w.Balance()
			if !bal.Spendable.IsZero() {
				if v := w.fund(bal.Spendable, false); v != "" {
					parts := strings.SplitN(v, "|", 2)
					run.Violate(parts[0]+":store-behind-chain", what+": funding Balance().Spendable: "+parts[1], map[string]any{"regime": string(reg)})
					break
				}
				w.release()
			}
			if lag%2 == 0 {
				w.sync() // catch up every other block, so that both lag 1 and lag 2 occur around the maturity height
			}
		}
		w.w.Close()
	}
}

func (w *c07World) restart() string {
	w.newWallet()
	w.out = nil // reservations are in-memory only
	return ""
}

type c07op struct {
	name string
	run  func(w *c07World) string
}

func c07Ops(v2 bool, amounts []types.Currency) []c07op {
	var ops []c07op
	for _, a := range amounts {
		for _, uc := range []bool{false, true} {
			a, uc := a, uc
			ops = append(ops, c07op{fmt.Sprintf("fund(%v,%v)", a, uc), func(w *c07World) string { return w.fund(a, uc) }})
		}
	}
	ops = append(ops,
		c07op{"release", (*c07World).release},
		c07op{"sign+broadcast", (*c07World).signAndBroadcast},
		c07op{"mine+sync", func(w *c07World) string {
			if err := w.mine(1); err != nil {
				return "c07:mine-failed|block assembled from the pool is rejected: " + err.Error()
			}
			return ""
		}},
		c07op{"restart", (*c07World).restart},
	)
	if v2 {
		ops = append(ops,
			c07op{"redistribute(2x1SC)", func(w *c07World) string { return w.redistribute(2, univ.SC(1)) }},
			c07op{"redistribute(3x2SC)", func(w *c07World) string { return w.redistribute(3, univ.SC(2)) }},
			// more than one batch of 10 outputs: the second batch can (12 x 0.5 SC) or cannot (14 x 0.75 SC) be funded
			c07op{"redistribute(12x0.5SC)", func(w *c07World) string { return w.redistribute(12, univ.SC(1).Div64(2)) }},
			c07op{"redistribute(14x0.75SC)", func(w *c07World) string { return w.redistribute(14, univ.SC(3).Div64(4)) }},
			c07op{"split(2,1SC)", func(w *c07World) string { return w.split(2, univ.SC(1)) }},
		)
	}
	return ops
}

var c07Setups = []string{"plain", "immature", "poolspent", "unconfirmed", "locked", "poolspent+unconfirmed", "locked+poolspent", "immature+locked+unconfirmed"}

func c07() {
	c07CrossVersion()
	c07LaggingStore()
	if os.Getenv("VERIF_C07_ONLY") == "crossversion" { // debugging aid
		return
	}
	h := types.NewCurrency64(1)
	var fullAmounts []types.Currency
	for k := uint32(0); k <= 12; k++ {
		fullAmounts = append(fullAmounts, univ.SC(k))
	}
	fullAmounts = append(fullAmounts, univ.SC(11).Add(h), univ.SC(11).Sub(h), univ.SC(6).Add(h), univ.SC(5).Sub(h), h, univ.SC(15), univ.SC(15).Add(h), univ.SC(300011))
	seqAmounts := []types.Currency{univ.SC(1), univ.SC(6), univ.SC(11), univ.SC(11).Add(h)}
	var grid []walletOpts
	for _, a := range []int{0, 1, 2, 30} {
		for _, b := range []int{0, 1, 3, 30} {
			for _, c := range []int{0, 1, 2, 10} {
				grid = append(grid, walletOpts{a, b, c})
			}
		}
	}
	seqOpts := []walletOpts{{30, 30, 10}, {0, 30, 10}, {1, 3, 2}}
	seqLen := 3
	if run.Thorough() {
		seqLen = 4
	}
	type job struct {
		reg   univ.Regime
		setup string
		opts  walletOpts
		seq   []int // indices into ops
		full  bool
	}
	bases := map[univ.Regime]*univ.Universe{univ.RegimeV1: c07Base(univ.RegimeV1), univ.RegimeV2: c07Base(univ.RegimeV2)}
	var jobs []job
	for _, reg := range []univ.Regime{univ.RegimeV1, univ.RegimeV2} {
		full := c07Ops(reg != univ.RegimeV1, fullAmounts)
		seq := c07Ops(reg != univ.RegimeV1, seqAmounts)
		for _, s := range c07Setups {
			// phase 1: every single call x full option grid x all amounts
			for _, o := range grid {
				for i := range full {
					if strings.HasPrefix(full[i].name, "fund") || strings.HasPrefix(full[i].name, "redist") {
						jobs = append(jobs, job{reg, s, o, []int{i}, true})
					}
				}
			}
			// phase 2: sequences
			var rec func(prefix []int)
			rec = func(prefix []int) {
				if len(prefix) > 0 {
					for _, o := range seqOpts {
						jobs = append(jobs, job{reg, s, o, append([]int(nil), prefix...), false})
					}
				}
				if len(prefix) == seqLen {
					return
				}
				for i := range seq {
					rec(append(prefix, i))
				}
			}
			rec(nil)
		}
	}
	var mu sync.Mutex
	outcomes := map[string]int{}
	parallel(64, func(shard int) {
		// every shard owns private universes: mined blocks extend them dynamically
		bases := map[univ.Regime]*univ.Universe{univ.RegimeV1: c07Base(univ.RegimeV1), univ.RegimeV2: c07Base(univ.RegimeV2)}
		static := map[univ.Regime]int{univ.RegimeV1: len(bases[univ.RegimeV1].Nodes), univ.RegimeV2: len(bases[univ.RegimeV2].Nodes)}
		for ji := shard; ji < len(jobs); ji += 64 {
			// blocks mined by the previous sequence are not needed any more (each keeps a reference ledger)
			for reg, u := range bases {
				c07mu.Lock()
				u.Truncate(static[reg])
				c07mu.Unlock()
			}
			if run.Expired() {
				run.Cap("time budget: not all wallet sequences run")
				return
			}
			j := jobs[ji]
			ops := c07Ops(j.reg != univ.RegimeV1, seqAmounts)
			if j.full {
				ops = c07Ops(j.reg != univ.RegimeV1, fullAmounts)
			}
			if !j.full && len(j.seq) < seqLen {
				continue // prefixes are covered by the longer sequences (every step is checked)
			}
			if dbg := os.Getenv("VERIF_C07_DEBUG"); dbg != "" {
				var nn []string
				for _, oi := range j.seq {
					nn = append(nn, ops[oi].name)
				}
				if dbg != fmt.Sprintf("%s|%s|%v|%s", j.reg, j.setup, j.opts, strings.Join(nn, ";")) {
					continue
				}
			}
			var names []string
			viol := ""
			func() {
				defer func() {
					if r := recover(); r != nil {
						viol = fmt.Sprintf("c07:panic|%v", r)
					}
				}()
				w := newC07World(bases[j.reg], j.opts)
				defer func() { w.w.Close() }() // the wallet at the end of the run ("restart" replaces it)
				w.setup(j.setup)
				if v := w.agreement(); v != "" {
					viol = v
					return
				}
				for _, oi := range j.seq {
					names = append(names, ops[oi].name)
					if v := ops[oi].run(w); v != "" {
						viol = v
						return
					}
					if v := w.agreement(); v != "" {
						viol = v
						return
					}
				}
				// no two outstanding funded transactions share an input
				seen := map[types.SiacoinOutputID]bool{}
				for _, f := range w.out {
					for _, id := range f.inputs {
						if seen[id] {
							viol = fmt.Sprintf("c07:shared-input|two outstanding funded transactions share input %v", id)
						}
						seen[id] = true
					}
				}
				mu.Lock()
				outcomes[fmt.Sprint(j.setup, len(w.out), len(w.n.CM.V2PoolTransactions())+len(w.n.CM.PoolTransactions()), len(w.st.UTXOs))]++
				mu.Unlock()
			}()
			run.Add(int64(len(j.seq)), int64(len(j.seq)), 1, 1)
			if ji%9973 == 0 {
				run.Sample(map[string]any{"regime": j.reg, "wallet_state": j.setup, "options": j.opts.String(), "ops": names})
			}
			if viol != "" {
				parts := strings.SplitN(viol, "|", 2)
				run.Violate(parts[0], fmt.Sprintf("regime %s, wallet state %q, %v, ops %v: %s", j.reg, j.setup, j.opts, names, parts[1]), map[string]any{"regime": j.reg, "setup": j.setup, "options": j.opts, "ops": names})
			}
		}
	})
	c07Expiry(bases)
	c07Races(bases[univ.RegimeV2])
	run.DistinctN = int64(len(outcomes))
	run.Extra["sequences"] = len(jobs)
	run.Rule = "wallet states {plain 1/2/3/5 SC outputs, +immature payout, +output spent by a pooled transaction, +unconfirmed incoming output, +outstanding reservation, combinations} x (phase 1) every single Fund(V2)Transaction/Redistribute call for every amount 0..12 SC, boundary +-1 H, balance+1 x both useUnconfirmed x the 4x4x4 grid of DefragThreshold/MaxInputsForDefrag/MaxDefragUTXOs; (phase 2) every sequence of length L of {fund x 4 amounts x 2, release, sign+broadcast, mine+sync, restart, redistribute x2, split} for 3 option settings; v1 regime (FundTransaction) and v2 regime (FundV2Transaction); plus reservation-expiry scenarios under a controlled clock and 2-3 thread schedule exploration; distinct = distinct final (state, outstanding, pool size, utxo count) outcomes"
	run.Explanation = fmt.Sprintf("sequence length L=%d. After every call: each selected input is owned, mature, unspent by the pool, not reserved by another outstanding transaction and appears once; inputs == amount + change; a failed call leaves the transaction and the reservation table (read through the export hook) unchanged; success iff amount <= spendable; the signed result is accepted by the pool; Balance().Spendable == sum(SpendableOutputs()) == model.", seqLen)
	run.Assumptions = []string{"amount domain: whole siacoins 0..12 plus +-1 hasting at the interesting boundaries", "clock: wallet.go compiled against the vtime seam; reservation duration 3 h"}
}

// c07Expiry: reservations end after the reservation period (controlled clock; single-threaded because the clock offset is global).
func c07Expiry(bases map[univ.Regime]*univ.Universe) {
	for reg, u := range bases {
		w := newC07World(u, walletOpts{30, 30, 10})
		if v := w.fund(univ.SC(6), false); v != "" {
			run.Violate("c07:expiry-setup", v, nil)
			continue
		}
		before := w.w.VerifLocked()
		if v := w.agreement(); v != "" {
			run.Violate(strings.SplitN(v, "|", 2)[0], "expiry scenario: "+v, nil)
		}
		vtime.Advance(3*time.Hour - time.Minute)
		w.out = w.out[:0]
		stillOut := &fundedTxn{}
		for id := range before {
			stillOut.inputs = append(stillOut.inputs, id)
		}
		w.out = append(w.out, stillOut)
		if v := w.agreement(); v != "" {
			run.Violate("c07:reservation-ended-early", fmt.Sprintf("regime %s: one minute before the reservation period ends: %s", reg, v), nil)
		}
		vtime.Advance(2 * time.Minute)
		w.out = nil
		if v := w.agreement(); v != "" {
			run.Violate("c07:reservation-not-expired", fmt.Sprintf("regime %s: after the reservation period: %s", reg, v), nil)
		}
		if v := w.fund(univ.SC(11), false); v != "" {
			run.Violate("c07:reservation-not-expired", fmt.Sprintf("regime %s: funding the whole balance after the reservation period: %s", reg, v), nil)
		}
		vtime.ResetNow()
		w.w.Close()
		run.Add(4, 4, 1, 1)
	}
}

// c07CrossVersion: in the window where v1 and v2 transactions coexist, the wallet's only way to reach the
// requested amount is an unconfirmed output created by a pooled transaction of the *other* version. A funded
// and signed transaction must be acceptable to the pool (or the funding must be refused): an output of a pooled
// v1 transaction cannot be spent by a v2 transaction before it is confirmed, and vice versa.
func c07CrossVersion() {
	for _, fundV2 := range []bool{true, false} {
		u := univ.NewUniverse("wallet-cross-version", univ.RegimeX)
		k := 0
		for u.Nodes[k].Height+1 < u.Net.HardforkV2.AllowHeight {
			k = u.Add(k, 1, nil, nil, fmt.Sprintf("m%d", u.Nodes[k].Height+1))
		}
		lw := &walletWorld{u: u, n: node.New(u), st: wstore.New(), rig: newWalletRig(u.As[0].Key)}
		if err := lw.n.CM.AddBlocks(u.Blocks(u.PathTo(k))); err != nil {
			run.Violate("c07:cross-version-setup", err.Error(), nil)
			return
		}
		for lw.st.TipIdx != lw.n.CM.Tip() {
			if _, err := lw.syncChunk(1000); err != nil {
				run.Violate("c07:cross-version-setup", err.Error(), nil)
				return
			}
		}
		L := u.Nodes[k].L
		a0, a1 := u.As[0], u.As[1]
		e := univ.OwnedSC(L, a1.Addr)[0]
		incoming := univ.SC(40)
		if fundV2 {
			t := univ.V1Spend(L.State, a1, e, a0.Addr, incoming, univ.SC(1))
			if _, err := lw.n.CM.AddPoolTransactions([]types.Transaction{t}); err != nil {
				run.Violate("c07:cross-version-setup", err.Error(), nil)
				return
			}
		} else {
			t := univ.V2Spend(L.State, a1, e, a0.Addr, incoming, univ.SC(1))
			if _, err := lw.n.CM.AddV2PoolTransactions(lw.n.CM.Tip(), []types.V2Transaction{t}); err != nil {
				run.Violate("c07:cross-version-setup", err.Error(), nil)
				return
			}
		}
		bal, _ := lw.rig.w.Balance()
		amount := bal.Spendable.Add(univ.SC(5)) // only reachable with the unconfirmed output
		run.Add(1, 1, 1, 1)
		if fundV2 {
			txn := types.V2Transaction{SiacoinOutputs: []types.SiacoinOutput{{Address: u.As[2].Addr, Value: amount}}}
			basis, toSign, err := lw.rig.w.FundV2Transaction(&txn, amount, true)
			if err == nil {
				lw.rig.w.SignV2Inputs(&txn, toSign)
				if _, perr := lw.n.CM.AddV2PoolTransactions(basis, []types.V2Transaction{txn}); perr != nil {
					run.Violate("c07:funded-transaction-rejected:v2-spends-unconfirmed-v1-output", fmt.Sprintf("regime x, a pooled v1 transaction pays the wallet %v; FundV2Transaction(%v, useUnconfirmed=true) succeeds, but the signed transaction is rejected by the pool: %v", incoming, amount, perr), nil)
				}
			}
		} else {
			txn := types.Transaction{SiacoinOutputs: []types.SiacoinOutput{{Address: u.As[2].Addr, Value: amount}}}
			toSign, err := lw.rig.w.FundTransaction(&txn, amount, true)
			if err == nil {
				lw.rig.w.SignTransaction(&txn, toSign, types.CoveredFields{WholeTransaction: true})
				if _, perr := lw.n.CM.AddPoolTransactions([]types.Transaction{txn}); perr != nil {
					run.Violate("c07:funded-transaction-rejected:v1-spends-unconfirmed-v2-output", fmt.Sprintf("regime x, a pooled v2 transaction pays the wallet %v; FundTransaction(%v, useUnconfirmed=true) succeeds, but the signed transaction is rejected by the pool: %v", incoming, amount, perr), nil)
				}
			}
		}
		lw.rig.w.Close()
	}
}
