package main

import (
	"fmt"

	"go.sia.tech/core/consensus"
	"go.sia.tech/core/types"
	"verif/internal/univ"
)

type consensusState = consensus.State

// shapeUniverse builds a universe from a tree shape. trunk blocks precede the shape's root so that
// forks straddle the hardfork heights; the first child of every node carries a plain spend.
func shapeUniverse(reg univ.Regime, shape []int, trunk int, name string) *univ.Universe {
	u := univ.NewUniverse(name, reg)
	root := 0
	for i := 0; i < trunk; i++ {
		root = u.Add(root, 0, nil, nil, "trunk")
	}
	ids := []int{root}
	nchild := map[int]int{}
	for _, p := range shape {
		parent := ids[p]
		salt := nchild[parent]
		nchild[parent]++
		pn := u.Nodes[parent]
		var v1 []types.Transaction
		var v2 []types.V2Transaction
		if salt == 0 {
			child := pn.Height + 1
			if own := univ.OwnedSC(pn.L, u.As[1].Addr); len(own) > 0 {
				if child >= u.Net.HardforkV2.AllowHeight {
					v2 = append(v2, univ.V2Spend(pn.L.State, u.As[1], own[0], u.As[2].Addr, univ.SC(1), univ.SC(1)))
				} else {
					v1 = append(v1, univ.V1Spend(pn.L.State, u.As[1], own[0], u.As[2].Addr, univ.SC(1), univ.SC(1)))
				}
			}
		}
		id := u.Add(parent, salt, v1, v2, "")
		if !u.Nodes[id].Valid {
			panic(fmt.Sprintf("shape universe %s: built block %d is invalid: %s", name, id, u.Nodes[id].Err))
		}
		ids = append(ids, id)
	}
	return u
}

func trunkFor(reg univ.Regime) int {
	if reg == univ.RegimeX {
		return 2
	}
	return 0
}
