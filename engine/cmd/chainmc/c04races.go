package main

import (
	"fmt"

	"go.sia.tech/core/types"
	"go.sia.tech/coreutils/vsync"
	"verif/internal/explore"
	"verif/internal/ledger"
	"verif/internal/node"
	"verif/internal/univ"
)

// c04Races: subscriber polls racing with block submissions under the cooperative scheduler
// (chain/manager.go compiled against the sync shim; a scheduling point before every Manager.mu
// Lock/Unlock, including the unlock/relock around listener calls).
func c04Races() {
	type scen struct {
		name         string
		reg          univ.Regime
		pre          string // label the node is pre-loaded to
		a, c         string // labels submitted by threads A and (optional) C
		polls, chunk int
		startSynced  bool
	}
	scens := []scen{
		{"reorg-vs-polls", univ.RegimeV2, "m4", "f1.6", "", 4, 2, false},
		{"reorg-vs-polls-synced", univ.RegimeX, "m4", "f3.4", "", 3, 1, true},
		{"two-submitters", univ.RegimeV2, "m3", "f1.6", "m6", 3, 3, true},
	}
	bound := 2
	if run.Thorough() {
		bound = 3
		scens = append(scens,
			scen{"reorg-vs-polls-v1", univ.RegimeV1, "m5", "f3.4", "", 4, 2, true},
			scen{"two-submitters-x", univ.RegimeX, "m4", "f3.4", "m6", 4, 2, false},
			scen{"deep-reorg", univ.RegimeX, "m6", "f1.6", "", 5, 3, true},
		)
	}
	var races []map[string]any
	for _, sc := range scens {
		u := combUniverse(sc.reg)
		byLabel := map[string]int{}
		for _, nd := range u.Nodes {
			byLabel[nd.Label] = nd.ID
		}
		type obs struct {
			outcome string
			sig     string
			what    string
		}
		var last *obs
		scenario := func() ([]func(), func(*vsync.Execution) (string, string)) {
			o := &obs{}
			last = o
			n := node.New(u)
			n.CM.AddBlocks(u.Blocks(u.PathTo(byLabel[sc.pre])))
			idx := types.ChainIndex{}
			shadow := ledger.New(u.Net)
			fail := func(sig, f string, a ...any) {
				if o.sig == "" {
					o.sig, o.what = sig, fmt.Sprintf("race %s: ", sc.name)+fmt.Sprintf(f, a...)
				}
			}
			if sc.startSynced {
				for idx != n.CM.Tip() {
					var bad string
					idx, _, _, bad = follow(n, idx, shadow, 1000)
					if bad != "" {
						panic(bad)
					}
				}
			}
			reorgs, tipChanges := 0, 0
			n.CM.OnReorg(func(types.ChainIndex) { reorgs++ })
			submitter := func(label string) func() {
				return func() {
					before := n.CM.Tip()
					n.CM.AddBlocks(u.Blocks(u.PathTo(byLabel[label])))
					_ = before
				}
			}
			lastTip := n.CM.Tip()
			n.Obs.Hook = func(bool, types.ChainIndex) {}
			bodies := []func(){submitter(sc.a)}
			if sc.c != "" {
				bodies = append(bodies, submitter(sc.c))
			}
			trace := ""
			bodies = append(bodies, func() {
				for i := 0; i < sc.polls; i++ {
					rus, aus, err := n.CM.UpdatesSince(idx, sc.chunk)
					if err != nil {
						fail("c04:race:updates-error", "UpdatesSince(%v,%d) failed: %v", idx, sc.chunk, err)
						return
					}
					if len(rus)+len(aus) > sc.chunk {
						fail("c04:race:too-many", "UpdatesSince returned %d > %d updates", len(rus)+len(aus), sc.chunk)
					}
					cur := idx
					for _, ru := range rus {
						if ru.Block.ID() != cur.ID || ru.State.Index.ID != ru.Block.ParentID {
							fail("c04:race:path", "revert of %v while subscriber is at %v", ru.Block.ID(), cur)
							return
						}
						shadow.RevertDiffs(ru.RevertUpdate, ru.State)
						cur = ru.State.Index
					}
					for _, au := range aus {
						if cur != (types.ChainIndex{}) && (au.Block.ParentID != cur.ID || au.State.Index.Height != cur.Height+1) {
							fail("c04:race:path", "apply of %v does not extend %v", au.State.Index, cur)
							return
						}
						if cur == (types.ChainIndex{}) {
							shadow.GenTS = au.Block.Timestamp
						}
						shadow.ApplyDiffs(au.ApplyUpdate, au.State)
						cur = au.State.Index
					}
					idx = cur
					trace += fmt.Sprintf("%d-%d@%d ", len(rus), len(aus), idx.Height)
					if bad := shadowMatches(u, idx, shadow); idx != (types.ChainIndex{}) && bad != "" {
						fail("c04:race:shadow-ledger", "after poll %d: %s", i, bad)
						return
					}
				}
			})
			check := func(x *vsync.Execution) (string, string) {
				if x.Deadlock {
					return "c04:race:deadlock", fmt.Sprintf("race %s: deadlock %v", sc.name, x.Blocked)
				}
				if len(x.Panics) > 0 {
					return "c04:race:panic", fmt.Sprintf("race %s: %v", sc.name, x.Panics)
				}
				if o.sig != "" {
					return o.sig, o.what
				}
				// sequential epilogue: catch up to the tip and compare
				for steps := 0; idx != n.CM.Tip() && steps < 64; steps++ {
					var bad string
					var err error
					idx, _, err, bad = follow(n, idx, shadow, 1000)
					if bad != "" || err != nil {
						return "c04:race:path", fmt.Sprintf("race %s: epilogue catch-up: %s %v", sc.name, bad, err)
					}
				}
				if bad := shadowMatches(u, idx, shadow); bad != "" {
					return "c04:race:shadow-ledger", fmt.Sprintf("race %s: at the end: %s", sc.name, bad)
				}
				if err := n.Audit(); err != nil {
					return "c04:race:audit", fmt.Sprintf("race %s: %v", sc.name, err)
				}
				if n.CM.Tip() != lastTip {
					tipChanges = 1
					if sc.c != "" && u.Nodes[n.TipNode()].Label != sc.a && u.Nodes[n.TipNode()].Label != sc.c {
						return "c04:race:tip", fmt.Sprintf("race %s: unexpected tip %s", sc.name, u.Nodes[n.TipNode()].Label)
					}
				}
				if reorgs < tipChanges || reorgs > len(bodies)-1 {
					return "c04:race:reorg-notifications", fmt.Sprintf("race %s: %d OnReorg calls for >=%d tip changes by %d submissions", sc.name, reorgs, tipChanges, len(bodies)-1)
				}
				o.outcome = trace + fmt.Sprint("tip=", u.Nodes[n.TipNode()].Label, " reorgs=", reorgs)
				return "", ""
			}
			return bodies, check
		}
		for b := 0; b <= bound; b++ {
			e := &explore.Explorer{Bound: b, MaxExec: 60000, MaxSteps: 400, Stop: run.Expired, Observe: func() string { return last.outcome }}
			res := e.Run(scenario)
			run.Add(int64(res.Points), int64(res.Points), int64(res.Executions), int64(res.Executions))
			for o := range res.Outcomes {
				run.Distinct("race", sc.name, o)
			}
			if res.Capped {
				run.Cap(fmt.Sprintf("race %s bound %d capped at %d executions", sc.name, b, res.Executions))
			}
			if b == bound {
				races = append(races, map[string]any{"scenario": sc.name, "regime": sc.reg, "preemption_bound": b, "executions": res.Executions, "distinct_outcomes": len(res.Outcomes), "max_points": res.MaxPoints})
			}
			for _, v := range res.Violations {
				for i := 0; i < 3; i++ {
					if _, sig, _ := explore.Replay(scenario, v.Choices, 400); sig != v.Signature {
						panic(fmt.Sprintf("harness error: race violation %q does not replay deterministically", v.Signature))
					}
				}
				run.Violate(v.Signature, v.What, map[string]any{"race": sc.name, "choices": v.Choices, "schedule": v.Schedule})
			}
			if len(res.Violations) > 0 {
				break
			}
		}
	}
	run.Extra["races"] = races
}
