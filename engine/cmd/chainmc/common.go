package main

import (
	"fmt"
	"runtime"
	"sync"

	"go.sia.tech/core/types"
	"verif/internal/bfs"
	"verif/internal/node"
	"verif/internal/univ"
)

// chainWorld is a node plus harness-side observers.
type chainWorld struct {
	u    *univ.Universe
	n    *node.Node
	hist []bfs.Op // only maintained by checks that need it
}

type typesChainIndex = types.ChainIndex

func newChainWorld(u *univ.Universe) *chainWorld { return &chainWorld{u: u, n: node.New(u)} }

// Key leaves the transaction pool out: chain-only explorations never observe it, and a cloned world
// starts with an empty pool memory (last-reverted transactions live only inside the Manager).
func (w *chainWorld) Key() [32]byte { return w.n.Key(false) }

// Clone copies the database (session view included) and opens a fresh store+manager on it. This is
// equivalent to the original as long as the manager keeps no chain state outside the store; the BFS
// re-validates that by replaying every new state's history on a fresh instance (ValidateReplay).
func (w *chainWorld) Clone() bfs.World {
	c := &chainWorld{u: w.u, n: node.Open(w.u, w.n.DB.CloneDB())}
	c.hist = append([]bfs.Op(nil), w.hist...)
	c.n.Obs.First = w.n.Obs.First // a divergence of the expiration lists taints every later state
	c.n.Obs.CoreRevert = w.n.Obs.CoreRevert
	return c
}

// submitOp is a block submission.
type submitOp struct {
	Kind   string `json:"kind"` // single seg mixed validated
	Blocks []int  `json:"blocks"`
}

func (o submitOp) String() string { return fmt.Sprintf("%s%v", o.Kind, o.Blocks) }

// submissionOps enumerates the submission alphabet of a universe.
func submissionOps(u *univ.Universe, mixed, validated bool) []bfs.Op {
	var ops []bfs.Op
	for k := 1; k < len(u.Nodes); k++ {
		ops = append(ops, submitOp{"single", []int{k}})
	}
	for k := 1; k < len(u.Nodes); k++ {
		p := u.PathTo(k)
		for l := 2; l <= 3 && l <= len(p); l++ {
			ops = append(ops, submitOp{"seg", p[len(p)-l:]})
		}
	}
	if mixed {
		for a := 1; a < len(u.Nodes); a++ {
			for b := 1; b < len(u.Nodes); b++ {
				if a != b && !u.IsAncestor(a, b) && !u.IsAncestor(b, a) {
					ops = append(ops, submitOp{"mixed", []int{a, b}})
				}
			}
		}
	}
	if validated {
		for k := 1; k < len(u.Nodes); k++ {
			p := u.PathTo(k)
			for l := 1; l <= 2 && l <= len(p); l++ {
				seg := p[len(p)-l:]
				ok := true
				for _, i := range seg {
					if !u.Nodes[i].Valid || u.Nodes[i].Block.V2 == nil {
						ok = false
					}
				}
				if ok {
					ops = append(ops, submitOp{"validated", seg})
				}
			}
		}
	}
	return ops
}

// submit executes a submission op; panics are returned as errors with isPanic.
func submit(n *node.Node, op submitOp) (err error, panicked any) {
	defer func() {
		if r := recover(); r != nil {
			panicked = r
		}
	}()
	u := n.U
	if op.Kind == "validated" {
		blocks := u.Blocks(op.Blocks)
		states := make([]consensusState, len(blocks))
		for i, k := range op.Blocks {
			states[i] = u.Nodes[k].L.State
		}
		return n.CM.AddValidatedV2Blocks(blocks, states), nil
	}
	return n.CM.AddBlocks(u.Blocks(op.Blocks)), nil
}

// parallel runs fn(i) for i in [0,n) on all cores.
func parallel(n int, fn func(i int)) {
	var wg sync.WaitGroup
	sem := make(chan struct{}, runtime.NumCPU())
	for i := 0; i < n; i++ {
		wg.Add(1)
		sem <- struct{}{}
		go func() {
			defer wg.Done()
			defer func() { <-sem }()
			fn(i)
		}()
	}
	wg.Wait()
}

func histStrings(h []bfs.Op) []string {
	out := make([]string, len(h))
	for i, o := range h {
		out[i] = fmt.Sprint(o)
	}
	return out
}

var _ = types.BlockID{}
