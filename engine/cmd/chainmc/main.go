// chainmc decides the chain-manager properties (C01-C06, C13, C14, C19) by explicit-state
// exploration of the real chain.Manager/DBStore over pre-built fork-tree universes.
package main

import (
	"flag"
	"fmt"
	"os"
	"runtime"
	"runtime/pprof"
	"time"

	"verif/internal/ev"
)

var (
	run    *ev.Run
	replay = flag.String("replay", "", "replay file")
)

func main() {
	prop := flag.String("prop", "", "property id")
	tier := flag.String("tier", "", "quick|thorough")
	flag.Parse()
	checks := map[string]func(){"C01": c01, "C02": c02, "C03": c03, "C19": c19, "C04": c04, "C05": c05, "C14": c14, "C13": c13, "C06": c06, "C07": c07}
	fn, ok := checks[*prop]
	if !ok {
		fmt.Fprintln(os.Stderr, "unknown property", *prop)
		os.Exit(2)
	}
	level := map[string]string{"C03": "fault_enumeration"}[*prop]
	if level == "" {
		level = "model_checking"
	}
	run = ev.New(*prop, *tier, level)
	run.SetBudget(4 * time.Minute)
	if run.Thorough() {
		run.SetBudget(25 * time.Minute)
	}
	if *replay != "" {
		run.SetReplay(*replay)
	}
	fn()
	if f := os.Getenv("VERIF_HEAPPROF"); f != "" { // debugging aid
		runtime.GC()
		fmt.Fprintln(os.Stderr, "goroutines at end:", runtime.NumGoroutine())
		if gh, err := os.Create(f + ".goroutines"); err == nil {
			pprof.Lookup("goroutine").WriteTo(gh, 1)
			gh.Close()
		}
		if fh, err := os.Create(f); err == nil {
			pprof.WriteHeapProfile(fh)
			fh.Close()
		}
	}
	run.Finish()
}
