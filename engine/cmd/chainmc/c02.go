package main

import (
	"fmt"
	"sort"
	"strings"
	"sync"

	"verif/internal/bfs"
	"verif/internal/node"
	"verif/internal/univ"
)

// uptoOp submits the whole path from genesis to a node in one AddBlocks call.
type uptoOp struct {
	Upto int `json:"upto"`
}

func (o uptoOp) String() string { return fmt.Sprintf("upto(%d)", o.Upto) }

func applySubmission(n *node.Node, o bfs.Op) (err error, pan any) {
	switch op := o.(type) {
	case uptoOp:
		return submit(n, submitOp{"seg", n.U.PathTo(op.Upto)})
	case submitOp:
		return submit(n, op)
	}
	panic("unknown op")
}

// storyOps: every node reachable in one op (upto), plus single-block submissions.
func storyOps(u *univ.Universe, singles bool) []bfs.Op {
	var ops []bfs.Op
	for k := 1; k < len(u.Nodes); k++ {
		ops = append(ops, uptoOp{k})
	}
	if singles {
		for k := 1; k < len(u.Nodes); k++ {
			ops = append(ops, submitOp{"single", []int{k}})
		}
	}
	// pre-validated submission of v2 blocks that carry v1 transactions (between the allow and the require
	// height): their stored supplement is not empty
	for k := 1; k < len(u.Nodes); k++ {
		if nd := u.Nodes[k]; nd.Valid && nd.Block.V2 != nil && len(nd.Block.Transactions) > 0 {
			ops = append(ops, submitOp{"validated", []int{k}})
		}
	}
	return ops
}

// twins caches the canonical dump of a linear-replay node per tip.
type twins struct {
	u    *univ.Universe
	memo map[int]map[string]string
}

func (t *twins) dump(tip int) map[string]string {
	if d, ok := t.memo[tip]; ok {
		return d
	}
	n := node.New(t.u)
	for _, k := range t.u.PathTo(tip) {
		if err := n.CM.AddBlocks(t.u.Blocks([]int{k})); err != nil {
			panic(fmt.Sprintf("twin: linear submission of valid block %d failed: %v", k, err))
		}
	}
	if n.TipNode() != tip {
		panic("twin did not reach the tip")
	}
	d, err := n.CanonDump()
	if err != nil {
		panic(err)
	}
	t.memo[tip] = d
	return d
}

// classifyDiff turns the differing keys into a structural signature.
func classifyDiff(u *univ.Universe, got, want map[string]string, keys []string) (sig string, orderOnly bool) {
	orderOnly = true
	buckets := map[string]bool{}
	for _, k := range keys {
		b := k[:strings.Index(k, "/")]
		buckets[b] = true
		isList := b == "FileContracts" && len(k) == len("FileContracts/")+16
		if !isList {
			orderOnly = false
			continue
		}
		// same multiset of 32-byte ids?
		split := func(s string) []string {
			var ids []string
			for i := 0; i+64 <= len(s); i += 64 {
				ids = append(ids, s[i:i+64])
			}
			sort.Strings(ids)
			return ids
		}
		if strings.Join(split(got[k]), "") != strings.Join(split(want[k]), "") {
			orderOnly = false
		}
	}
	var bs []string
	for b := range buckets {
		bs = append(bs, b)
	}
	sort.Strings(bs)
	if orderOnly {
		return "c02:expiration-order", true
	}
	return "c02:dump-differs:" + strings.Join(bs, "+"), false
}

type c02World struct {
	chainWorld
}

func c02Universes() (jobs []*univ.Universe, shared map[string]bool, stats map[string]int) {
	shared = map[string]bool{}
	stats = map[string]int{}
	seen := map[string]bool{}
	for _, reg := range []univ.Regime{univ.RegimeV1, univ.RegimeX, univ.RegimeV2} {
		for _, s := range stories(reg) {
			lo, hi := int(s.start)-1, int(s.start)-1+len(s.steps)
			if hi > storyMainLen-1 {
				hi = storyMainLen - 1
			}
			for f := lo; f <= hi; f++ {
				for _, v := range []storyVariant{varEmpty, varShifted, varConflict} {
					for _, surplus := range []int{1, 2} {
						if !run.Thorough() && surplus == 2 {
							continue
						}
						u, st := storyUniverse(reg, s, f, v, surplus)
						// skip universes whose branch carries nothing new compared with the empty variant
						sigParts := []string{string(reg), s.name, fmt.Sprint(f, surplus)}
						for _, n := range u.Nodes[1:] {
							sigParts = append(sigParts, fmt.Sprint(n.Parent, len(n.Block.Transactions), len(n.Block.V2Transactions())), n.Block.ID().String())
						}
						sig := strings.Join(sigParts, "|")
						if seen[sig] {
							continue
						}
						seen[sig] = true
						for k, n := range st {
							stats[k] += n
						}
						stats["universes"]++
						if s.shared {
							shared[u.Name+string(reg)] = true
						}
						jobs = append(jobs, u)
					}
				}
			}
		}
	}
	return
}

func c02() {
	depth := 3
	if run.Thorough() {
		depth = 4
	}
	jobs, _, stats := c02Universes()
	var mu sync.Mutex
	fixpoints := 0
	parallel(len(jobs), func(i int) {
		if run.Expired() {
			run.Cap("time budget: not all universes explored")
			return
		}
		u := jobs[i]
		tw := &twins{u: u, memo: map[int]map[string]string{}}
		ops := storyOps(u, run.Thorough())
		res := bfs.Run(bfs.Config{
			New: func() bfs.World { return newChainWorld(u) },
			Ops: func(bfs.World, int) []bfs.Op { return ops },
			Apply: func(w bfs.World, o bfs.Op, check bool) *bfs.Violation {
				n := w.(*chainWorld).n
				err, pan := applySubmission(n, o)
				if pan != nil && check {
					return &bfs.Violation{Signature: "c02:panic", What: fmt.Sprintf("%s: %v panicked: %v", u.Describe(), o, pan)}
				}
				_ = err
				return nil
			},
			OnState: func(w bfs.World, hist []bfs.Op) (*bfs.Violation, bool) {
				n := w.(*chainWorld).n
				if m := n.Obs.First; m != nil {
					// block-granular root cause: the store's expiration list left the linear discipline
					return &bfs.Violation{Signature: m.Signature(), What: fmt.Sprintf("%s: after %v: expiration list at height %d differs from a linear node's at intermediate tip %s (%s)", u.Describe(), histStrings(hist), m.Height, m.Tip, m.Signature())}, true
				}
				if cr := n.Obs.CoreRevert; cr != "" {
					return &bfs.Violation{Signature: "c02:proofs-after-revert:block-revises-and-resolves-one-v1-contract", What: fmt.Sprintf("%s: after %v: %s", u.Describe(), histStrings(hist), cr)}, true
				}
				if err := n.Audit(); err != nil {
					return &bfs.Violation{Signature: "c02:audit", What: fmt.Sprintf("%s: after %v: %v", u.Describe(), histStrings(hist), err)}, true
				}
				got, err := n.CanonDump()
				if err != nil {
					return &bfs.Violation{Signature: "c02:dump", What: err.Error()}, true
				}
				want := tw.dump(n.TipNode())
				if d := node.DiffDumps(got, want); len(d) > 0 {
					sig, _ := classifyDiff(u, got, want, d)
					return &bfs.Violation{Signature: sig, What: fmt.Sprintf("%s: after %v the store differs from a linear node on the same best chain (tip %s) in %d keys, first %v", u.Describe(), histStrings(hist), u.Nodes[n.TipNode()].Label, len(d), head(d, 3))}, true
				}
				return nil, false
			},
			MaxDepth:       depth,
			MaxStates:      50000,
			Stop:           run.Expired,
			ValidateReplay: true,
		})
		run.Add(int64(res.States), int64(res.Transitions), int64(res.Replays), int64(res.Transitions))
		mu.Lock()
		if res.Complete {
			fixpoints++
		}
		mu.Unlock()
		if len(res.Samples) > 0 && i%41 == 0 {
			run.Sample(map[string]any{"universe": u.Describe(), "history": histStrings(res.Samples[len(res.Samples)-1]), "states": res.States, "transitions": res.Transitions})
		}
		for _, v := range res.Violations {
			run.Violate(v.Signature, v.What, map[string]any{"universe": u.Describe(), "history": histStrings(v.History)})
		}
	})
	run.DistinctN = run.States
	run.Extra["universes"] = len(jobs)
	run.Extra["universes_fully_explored"] = fixpoints
	run.Extra["storyline_steps_built"] = stats["steps"]
	run.Extra["storyline_steps_dropped_as_invalid_at_position"] = stats["dropped"]
	run.Rule = "storyline universes: every element-changing transaction kind (v1/v2 siacoin+siafund spends, ephemeral parent/child, v1 contract form/revise(same+new window)/proof(empty+leaf)/expire, shared window ends, v2 contract form/revise/renew/proof/expire, attestation, foundation update) x fork point x branch variant {empty, same transactions one block later, conflicting spend/revision/resolution} x branch surplus x 3 hardfork regimes; BFS over 'submit path up to node k' (+ single blocks in thorough) to the depth bound; in every distinct state the canonical store dump (index, states, blocks+supplements, element buckets, expiration lists in order, served proofs) is compared with a fresh node fed the same best chain linearly"
	run.Explanation = fmt.Sprintf("depth bound %d; %d universes, %d reached a fixpoint below the bound. Every new state is also re-derived by replaying its history on a fresh instance.", depth, len(jobs), fixpoints)
	run.Assumptions = []string{"Tree bucket compared through the proofs it serves for stored elements, not byte-wise (stale nodes are legitimate)", "checkpoint-initialised stores are covered by the C03/C12 checks, not here"}
}
