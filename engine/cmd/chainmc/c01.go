package main

import (
	"fmt"
	"sync"

	"go.sia.tech/core/types"
	"verif/internal/bfs"
	"verif/internal/node"
	"verif/internal/univ"
)

// c01Apply executes a submission and evaluates the C01 oracles.
func c01Apply(w bfs.World, o bfs.Op, check bool) *bfs.Violation {
	cw := w.(*chainWorld)
	op := o.(submitOp)
	u, n := cw.u, cw.n
	if !check {
		submit(n, op)
		return nil
	}
	tipBefore := n.TipNode()
	csBefore := n.CM.TipState()
	before, _ := n.CanonDump()
	// is the batch a single ancestor-closed branch whose first block attaches to something the node knows?
	single := op.Kind != "mixed"
	_, parentKnown := n.CM.State(u.Nodes[op.Blocks[0]].Block.ParentID)
	err, pan := submit(n, op)
	if pan != nil {
		return &bfs.Violation{Signature: "c01:panic:" + op.Kind, What: fmt.Sprintf("%s: %v panicked: %v", u.Describe(), op, pan)}
	}
	if aerr := n.Audit(); aerr != nil {
		return &bfs.Violation{Signature: "c01:audit", What: fmt.Sprintf("%s: after %v (err=%v): %v", u.Describe(), op, err, aerr)}
	}
	tipAfter := n.TipNode()
	csAfter := n.CM.TipState()
	if csAfter.TotalWork.Cmp(csBefore.TotalWork) < 0 {
		return &bfs.Violation{Signature: "c01:work-decreased", What: fmt.Sprintf("%s: %v lowered the tip's total work (%d -> %d)", u.Describe(), op, tipBefore, tipAfter)}
	}
	if tipAfter != tipBefore {
		if !u.Nodes[tipAfter].L.State.SufficientlyHeavierThan(u.Nodes[tipBefore].L.State) {
			return &bfs.Violation{Signature: "c01:reorg-without-sufficient-work", What: fmt.Sprintf("%s: %v moved the tip %d -> %d although the new chain is not sufficiently heavier", u.Describe(), op, tipBefore, tipAfter)}
		}
		inBatch := false
		for _, k := range op.Blocks {
			if u.IsAncestor(tipAfter, k) {
				inBatch = true
			}
		}
		if !inBatch {
			return &bfs.Violation{Signature: "c01:tip-not-submitted", What: fmt.Sprintf("%s: %v moved the tip to %d which is not on a submitted chain", u.Describe(), op, tipAfter)}
		}
	}
	if err != nil {
		after, _ := n.CanonDump()
		if d := node.DiffDumps(before, after); len(d) > 0 || tipAfter != tipBefore {
			return &bfs.Violation{Signature: "c01:error-not-rolled-back", What: fmt.Sprintf("%s: %v returned %v but the best chain changed: tip %d -> %d, first differing keys %v", u.Describe(), op, err, tipBefore, tipAfter, head(d, 4))}
		}
	}
	if op.Kind == "validated" {
		// pre-validated blocks are stored without a supplement, which blocks below the v2 require height need:
		// such a submission must be refused (and, like every refusal, change nothing - checked above)
		for _, k := range op.Blocks {
			if u.Nodes[k].Height < u.Net.HardforkV2.RequireHeight {
				if err == nil {
					return &bfs.Violation{Signature: "c01:prevalidated-below-require-height-accepted", What: fmt.Sprintf("%s: %v carries a block below the v2 require height (its supplement is not empty in general) but AddValidatedV2Blocks returned nil", u.Describe(), op)}
				}
				return nil
			}
		}
	}
	if single && parentKnown {
		last := op.Blocks[len(op.Blocks)-1]
		allHeaderOK := true
		for _, k := range op.Blocks {
			if !u.Nodes[k].HeaderOK {
				allHeaderOK = false
			}
		}
		if allHeaderOK {
			heavier := u.Nodes[last].HS.SufficientlyHeavierThan(csBefore)
			switch {
			case heavier && u.Nodes[last].Valid:
				if err != nil || tipAfter != last {
					return &bfs.Violation{Signature: "c01:valid-heavier-chain-not-adopted", What: fmt.Sprintf("%s: %v ends a fully valid, sufficiently heavier chain, but err=%v and tip=%d", u.Describe(), op, err, tipAfter)}
				}
			case heavier && !u.Nodes[last].Valid:
				if err == nil {
					return &bfs.Violation{Signature: "c01:invalid-chain-no-error", What: fmt.Sprintf("%s: adopting %v requires an invalid block but AddBlocks returned nil (tip %d)", u.Describe(), op, tipAfter)}
				}
			case !heavier:
				if tipAfter != tipBefore {
					return &bfs.Violation{Signature: "c01:reorg-without-sufficient-work", What: fmt.Sprintf("%s: %v moved the tip without sufficient work", u.Describe(), op)}
				}
			}
		}
	}
	return nil
}

func head(s []string, n int) []string {
	if len(s) > n {
		return s[:n]
	}
	return s
}

type exploreStats struct {
	mu                         sync.Mutex
	universes, capped          int
	incompleteDepth            int
	corruptHeader, corruptBody int
}

// c01RequireHeightContract: a v1 contract whose proof window ends exactly at the v2 require height (or one
// above/below it). Consensus demands an empty v1 supplement from that height on, so the contract is simply
// never expired; the blocks at and above the require height are valid (reference) and must be adopted.
func c01RequireHeightContract() {
	for _, delta := range []int{-1, 0, 1} {
		u := univ.NewUniverse(fmt.Sprintf("v1-contract-window-end-at-require%+d", delta), univ.RegimeX)
		req := u.Net.HardforkV2.RequireHeight
		L := u.Nodes[0].L
		own := univ.OwnedSC(L, u.As[1].Addr)
		end := uint64(int(req) + delta)
		txn, _ := univ.V1Contract(L.State, u.As[1], u.As[2], own[0], end-1, end, 0, types.Hash256{}, 0)
		k := u.Add(0, 0, []types.Transaction{txn}, nil, "form")
		for u.Nodes[k].Valid && u.Nodes[k].Height < req+2 {
			k = u.Add(k, 0, nil, nil, fmt.Sprintf("h%d", u.Nodes[k].Height+1))
		}
		if !u.Nodes[k].Valid {
			run.Violate("c01:require-height-setup", fmt.Sprintf("%s: the reference rejects the chain: %s", u.Name, u.Nodes[k].Err), nil)
			continue
		}
		n := node.New(u)
		run.Add(1, 1, 1, 1)
		path := u.PathTo(k)
		for _, b := range path {
			if err := n.CM.AddBlocks(u.Blocks([]int{b})); err != nil {
				run.Violate("c01:valid-block-rejected:v1-contract-expiring-at-require-height", fmt.Sprintf("%s: block %s at height %d is valid (reference replay with core/consensus) but AddBlocks fails: %v - every block at that height fails the same way, the chain cannot grow", u.Describe(), u.Nodes[b].Label, u.Nodes[b].Height, err), map[string]any{"universe": u.Describe()})
				break
			}
		}
		if n.TipNode() == k {
			if err := n.Audit(); err != nil {
				run.Violate("c01:audit", u.Describe()+": "+err.Error(), nil)
			}
		}
	}
}

// c01ParentCorruptions: the parent id of a block is a field like any other. A block whose parent id is replaced
// by the zero id (the "parent" of genesis), by the genesis id, by its own id or by an unknown id must be refused
// with an error - no panic - and leave the node as it was.
func c01ParentCorruptions() {
	for _, reg := range []univ.Regime{univ.RegimeV1, univ.RegimeX, univ.RegimeV2} {
		u := univ.NewUniverse("parent-corruptions", reg)
		k := 0
		for h := 1; h <= 6; h++ {
			k = u.Add(k, 0, nil, nil, fmt.Sprintf("m%d", h))
		}
		for _, at := range []int{1, 3, 6} {
			for _, kind := range []string{"zero", "genesis", "self", "unknown"} {
				n := node.New(u)
				n.CM.AddBlocks(u.Blocks(u.PathTo(at - 1)))
				before, _ := n.CanonDump()
				tipBefore := n.CM.Tip()
				b := u.Nodes[u.PathTo(at)[at-1]].Block
				if b.V2 != nil {
					v2 := *b.V2
					b.V2 = &v2
				}
				switch kind {
				case "zero":
					b.ParentID = types.BlockID{}
				case "genesis":
					b.ParentID = u.Genesis.ID()
				case "self":
					b.ParentID = b.ID()
				case "unknown":
					b.ParentID = types.BlockID{0xAA, 0xBB}
				}
				if at == 1 && kind == "genesis" {
					continue // unchanged
				}
				// re-mine against the state the node would look the parent up under, where there is one
				if cs, ok := n.CM.State(b.ParentID); ok {
					func() {
						defer func() { recover() }()
						univ.Mine(cs, &b)
					}()
				}
				run.Add(1, 1, 1, 1)
				var err error
				var pan any
				func() {
					defer func() { pan = recover() }()
					err = n.CM.AddBlocks([]types.Block{b})
				}()
				what := fmt.Sprintf("[%s] block for height %d with its parent id replaced by %s", reg, at, kind)
				switch {
				case pan != nil:
					run.Violate("c01:panic:parent-id-"+kind, fmt.Sprintf("%s: AddBlocks panicked: %v", what, pan), map[string]any{"regime": string(reg), "height": at})
				case n.CM.Tip() != tipBefore:
					run.Violate("c01:tip-moved:parent-id-"+kind, fmt.Sprintf("%s: the tip moved to %v (err=%v)", what, n.CM.Tip(), err), nil)
				case err == nil && kind != "genesis":
					run.Violate("c01:no-error:parent-id-"+kind, what+": AddBlocks returned nil", nil)
				default:
					if after, _ := n.CanonDump(); len(node.DiffDumps(before, after)) > 0 {
						run.Violate("c01:store-changed:parent-id-"+kind, what+": the refused block changed what the store serves for the best chain", nil)
					}
				}
				run.Distinct("parent-corruption", string(reg), at, kind, err != nil)
			}
		}
	}
}

func c01() {
	c01RequireHeightContract()
	c01ParentCorruptions()
	n, depth := 4, 5
	if run.Thorough() {
		n, depth = 5, 7
	}
	shapes := univ.Shapes(n)
	type job struct {
		u *univ.Universe
	}
	var jobs []job
	kinds := map[string]int{}
	for _, reg := range []univ.Regime{univ.RegimeV1, univ.RegimeX, univ.RegimeV2} {
		for si, sh := range shapes {
			base := shapeUniverse(reg, sh, trunkFor(reg), fmt.Sprintf("shape%d.%d", n, si))
			jobs = append(jobs, job{base})
			// corruptions: every kind x every position (quick: positions restricted to two per universe)
			for k := 1 + trunkFor(reg); k < len(base.Nodes); k++ {
				if !run.Thorough() && (k-trunkFor(reg))%2 == 0 && si%3 != 0 {
					continue
				}
				for _, kind := range univ.Corruptions {
					if cu, ok := univ.Corrupt(base, k, kind); ok {
						jobs = append(jobs, job{cu})
						if cu.Nodes[k].HeaderOK {
							kinds[kind+":body-invalid"]++
						} else {
							kinds[kind+":header-invalid"]++
						}
					}
				}
			}
		}
	}
	var st exploreStats
	parallel(len(jobs), func(i int) {
		if run.Expired() {
			run.Cap("time budget: not all universes explored")
			return
		}
		u := jobs[i].u
		ops := submissionOps(u, true, u.Regime != univ.RegimeV1)
		res := bfs.Run(bfs.Config{
			New:            func() bfs.World { return newChainWorld(u) },
			Ops:            func(bfs.World, int) []bfs.Op { return ops },
			Apply:          c01Apply,
			MaxDepth:       depth,
			MaxStates:      20000,
			Stop:           run.Expired,
			ValidateReplay: true,
		})
		run.Add(int64(res.States), int64(res.Transitions), int64(res.Replays), int64(res.Transitions))
		run.Distinct("universe", u.Describe())
		st.mu.Lock()
		st.universes++
		if res.Capped {
			st.capped++
		}
		st.mu.Unlock()
		if len(res.Samples) > 0 && i%97 == 0 {
			run.Sample(map[string]any{"universe": u.Describe(), "history": histStrings(res.Samples[0]), "states": res.States, "transitions": res.Transitions, "fixpoint": res.Complete})
		}
		for _, v := range res.Violations {
			run.Violate(v.Signature, v.What, map[string]any{"universe": u.Describe(), "history": histStrings(v.History)})
		}
	})
	run.DistinctN = run.States
	run.Extra["universes"] = st.universes
	run.Extra["universes_hit_depth_bound"] = st.capped
	run.Extra["corruptions_by_kind"] = kinds
	run.Rule = fmt.Sprintf("all unordered rooted fork trees with %d non-trunk blocks x 3 hardfork regimes x {no corruption, each of %d single-block corruption kinds at each block position, descendants rebuilt on the corrupted block}; from every reachable node state every submission op (single block incl. duplicates and orphans, ancestor-closed segments of 2-3, two-branch mixed batches in both orders, AddValidatedV2Blocks segments) is applied; BFS to depth %d with complete state keys; distinct = distinct node states (session store bytes + tip + pool internals)", n, len(univ.Corruptions), depth)
	run.Explanation = fmt.Sprintf("BFS over the real chain.Manager+DBStore per universe; successor = DB clone + reopened store/manager, and every newly found state is re-derived by replaying its history on a fresh instance (traces_validated_against_impl counts those replays). Tree size n=%d, depth bound %d. %d of %d universes still had unexplored states at the depth bound.", n, depth, st.capped, st.universes)
	run.Assumptions = []string{"go.sia.tech/core consensus code is the trusted reference", "mixed-branch batches are exempt from the 'heavier chain is adopted' clause (the statement only says where the tip may move)", "blocks' timestamps are far from the future-block limit except in the ts-future corruption"}
}
