package main

import (
	"bytes"
	"fmt"
	"sync"

	"go.sia.tech/core/types"
	"verif/internal/bfs"
	"verif/internal/node"
	"verif/internal/univ"
)

// pruneOp prunes below a height; Rel: "abs" (H is the height) or "tip" (H is added to the tip height).
type pruneOp struct {
	Prune int    `json:"prune"`
	Rel   string `json:"rel"`
}

func (o pruneOp) String() string {
	if o.Rel == "tip" {
		return fmt.Sprintf("prune(tip%+d)", o.Prune)
	}
	return fmt.Sprintf("prune(%d)", o.Prune)
}

// pruneWorld: the node under test and an unpruned twin that receives the same submissions.
type pruneWorld struct {
	u      *univ.Universe
	n, tw  *node.Node
	pruned uint64 // highest height passed to PruneBlocks so far (model of what must be gone)
	// diverged: a reorg with fork point below MinReorgIndex was (legitimately) refused, so the pruned node
	// and the unpruned twin are on different tips; from then on only the per-node invariants are checked.
	diverged bool
}

func (w *pruneWorld) Key() [32]byte {
	a, b := w.n.Key(false), w.tw.Key(false)
	for i := range a {
		a[i] ^= b[(i+7)%32] + byte(i)
	}
	a[0] ^= byte(w.pruned)
	if w.diverged {
		a[1] ^= 0x55
	}
	return a
}

func (w *pruneWorld) Clone() bfs.World {
	return &pruneWorld{u: w.u, n: node.Open(w.u, w.n.DB.CloneDB()), tw: node.Open(w.u, w.tw.DB.CloneDB()), pruned: w.pruned, diverged: w.diverged}
}

func combUniverse(reg univ.Regime) *univ.Universe {
	u := univ.NewUniverse("comb", reg)
	main := []int{0}
	for h := 1; h <= 6; h++ {
		p := u.Nodes[main[len(main)-1]]
		var v1 []types.Transaction
		var v2 []types.V2Transaction
		if own := univ.OwnedSC(p.L, u.As[1].Addr); len(own) > 0 && h%2 == 1 {
			if uint64(h) >= u.Net.HardforkV2.AllowHeight {
				v2 = append(v2, univ.V2Spend(p.L.State, u.As[1], own[0], u.As[2].Addr, univ.SC(1), univ.SC(1)))
			} else {
				v1 = append(v1, univ.V1Spend(p.L.State, u.As[1], own[0], u.As[2].Addr, univ.SC(1), univ.SC(1)))
			}
		}
		main = append(main, u.Add(main[len(main)-1], 0, v1, v2, fmt.Sprintf("m%d", h)))
	}
	for _, f := range []int{1, 3, 5} {
		cur := main[f]
		for i := 0; i < 6-f+1; i++ {
			cur = u.Add(cur, 1+f%3, nil, nil, fmt.Sprintf("f%d.%d", f, i+1))
		}
	}
	return u
}

func forkPoint(u *univ.Universe, a, b int) int {
	for !u.IsAncestor(a, b) {
		a = u.Nodes[a].Parent
	}
	return a
}

func c19Apply(w bfs.World, o bfs.Op, check bool) (v *bfs.Violation) {
	pw := w.(*pruneWorld)
	u, n, tw := pw.u, pw.n, pw.tw
	desc := func() string { return u.Describe() }
	defer func() {
		if r := recover(); r != nil {
			v = &bfs.Violation{Signature: "c19:panic:" + fmt.Sprintf("%T", o), What: fmt.Sprintf("%s: %v panicked: %v", desc(), o, r)}
		}
	}()
	switch op := o.(type) {
	case pruneOp:
		h := uint64(op.Prune)
		if op.Rel == "tip" {
			h = uint64(int(n.CM.Tip().Height) + op.Prune)
		}
		n.CM.PruneBlocks(h)
		if h > pw.pruned {
			pw.pruned = h
		}
	default:
		minReorg := n.CM.MinReorgIndex()
		tipBefore := n.TipNode()
		before, _ := n.CanonDump()
		err, pan := applySubmission(n, o)
		terr, _ := applySubmission(tw, o)
		if pan != nil {
			return &bfs.Violation{Signature: "c19:panic:submit", What: fmt.Sprintf("%s: %v on a node pruned below %d panicked: %v", desc(), o, pw.pruned, pan)}
		}
		if pw.diverged {
			break
		}
		// which reorg did the unpruned twin perform?
		twTip := tw.TipNode()
		fp := forkPoint(u, tipBefore, twTip)
		switch {
		case twTip == tipBefore || u.Nodes[fp].Height >= minReorg.Height:
			// no reorg needed, or fork point at/above the reported minimum: must behave like the twin
			if (err == nil) != (terr == nil) || n.TipNode() != twTip {
				return &bfs.Violation{Signature: "c19:differs-from-unpruned", What: fmt.Sprintf("%s: %v (fork point height %d, MinReorgIndex %d, pruned below %d): pruned node err=%v tip=%v, unpruned node err=%v tip=%v", desc(), o, u.Nodes[fp].Height, minReorg.Height, pw.pruned, err, n.CM.Tip(), terr, tw.CM.Tip())}
			}
		default:
			// fork point below the minimum reorg index: must fail cleanly or behave like the twin
			if n.TipNode() != twTip {
				if err == nil {
					return &bfs.Violation{Signature: "c19:reorg-below-min-no-error", What: fmt.Sprintf("%s: %v needs a reorg below MinReorgIndex %d; AddBlocks returned nil but tip is %v (unpruned: %v)", desc(), o, minReorg.Height, n.CM.Tip(), tw.CM.Tip())}
				}
				after, _ := n.CanonDump()
				if d := node.DiffDumps(before, after); len(d) > 0 {
					return &bfs.Violation{Signature: "c19:failed-reorg-changed-store", What: fmt.Sprintf("%s: %v failed (%v) but the store changed in %d keys, first %v", desc(), o, err, len(d), head(d, 3))}
				}
				pw.diverged = true
			}
		}
	}
	if !check {
		return nil
	}
	// --- invariants after every op ---
	if err := n.Audit(); err != nil {
		return &bfs.Violation{Signature: "c19:audit", What: fmt.Sprintf("%s: after %v (pruned below %d): %v", desc(), o, pw.pruned, err)}
	}
	best, _ := n.BestChain()
	tip := n.CM.Tip()
	if n.TipNode() == tw.TipNode() && !pw.diverged {
		if !bytes.Equal(node.StateBytes(n.CM.TipState()), node.StateBytes(tw.CM.TipState())) {
			return &bfs.Violation{Signature: "c19:tipstate-differs", What: fmt.Sprintf("%s: after %v TipState differs from the unpruned node", desc(), o)}
		}
		h1, _ := n.CM.History()
		h2, _ := tw.CM.History()
		if h1 != h2 {
			return &bfs.Violation{Signature: "c19:history-differs", What: fmt.Sprintf("%s: after %v History differs from the unpruned node", desc(), o)}
		}
	}
	// bodies: a best-chain body must be present iff the unpruned node has it and its height is not below a prune height
	// that was requested while it was on the best chain. We check the two definite directions:
	lowestBody := uint64(len(best))
	for i := len(best) - 1; i >= 0; i-- {
		if _, ok := n.CM.Block(best[i].ID); !ok {
			break
		}
		lowestBody = uint64(i)
	}
	if _, ok := o.(pruneOp); ok {
		op := o.(pruneOp)
		h := uint64(op.Prune)
		if op.Rel == "tip" {
			h = uint64(int(tip.Height) + op.Prune)
		}
		for i, idx := range best {
			_, has := n.CM.Block(idx.ID)
			if uint64(i) < h && has {
				return &bfs.Violation{Signature: "c19:body-below-prune-height-kept", What: fmt.Sprintf("%s: after %v (tip height %d) the best-chain body at height %d is still present", desc(), o, tip.Height, i)}
			}
		}
	}
	for i, idx := range best {
		_, has := n.CM.Block(idx.ID)
		if uint64(i) >= pw.pruned && !has {
			return &bfs.Violation{Signature: "c19:body-above-prune-height-gone", What: fmt.Sprintf("%s: after %v the best-chain body at height %d is gone although nothing was pruned at or above it (max prune height %d)", desc(), o, i, pw.pruned)}
		}
		if _, ok := n.CM.State(idx.ID); !ok {
			return &bfs.Violation{Signature: "c19:state-gone", What: fmt.Sprintf("%s: after %v State(%v) is gone", desc(), o, idx)}
		}
	}
	// off-chain bodies known to the twin must still be known to the pruned node
	for k := 1; k < len(u.Nodes); k++ {
		id := u.Nodes[k].Block.ID()
		_, t := tw.CM.Block(id)
		_, p := n.CM.Block(id)
		onBest := u.Nodes[k].Height < uint64(len(best)) && best[u.Nodes[k].Height].ID == id
		if t && !p && !onBest && !u.IsAncestor(k, n.TipNode()) {
			// a block that left the best chain after having been pruned may legitimately stay pruned; only flag blocks never on a pruned prefix
			if u.Nodes[k].Height >= pw.pruned {
				return &bfs.Violation{Signature: "c19:offchain-body-gone", What: fmt.Sprintf("%s: after %v the body of off-chain block %d (%s) is gone", desc(), o, k, u.Nodes[k].Label)}
			}
		}
	}
	// MinReorgIndex semantics
	mr := n.CM.MinReorgIndex()
	if lowestBody > tip.Height {
		lowestBody = tip.Height // the tip's own body is gone: nothing can be reverted, the minimum is the tip itself
	}
	if mr.Height != lowestBody || (int(mr.Height) < len(best) && best[mr.Height] != mr) {
		return &bfs.Violation{Signature: "c19:minreorgindex", What: fmt.Sprintf("%s: after %v MinReorgIndex=%v but the lowest height from which all best-chain bodies up to the tip are present is %d", desc(), o, mr, lowestBody)}
	}
	// header serving from genesis is checked by Audit; serving blocks/updates that need pruned bodies must error, not panic
	if lowestBody > 1 {
		if _, _, err := n.CM.UpdatesSince(best[0], 100); err == nil {
			return &bfs.Violation{Signature: "c19:updates-from-pruned-no-error", What: fmt.Sprintf("%s: after %v UpdatesSince(genesis) succeeded although bodies below %d are pruned", desc(), o, lowestBody)}
		}
		if _, _, err := n.CM.BlocksForHistory([]types.BlockID{best[0].ID}, 100); err == nil {
			return &bfs.Violation{Signature: "c19:blocks-from-pruned-no-error", What: fmt.Sprintf("%s: after %v BlocksForHistory(genesis) succeeded although bodies are pruned", desc(), o)}
		}
	}
	// updates from the minimum reorg index work and end at the tip
	if rus, aus, err := n.CM.UpdatesSince(mr, 100); err != nil || len(rus) != 0 || len(aus) != len(best)-1-int(mr.Height) {
		return &bfs.Violation{Signature: "c19:updates-from-minreorg", What: fmt.Sprintf("%s: after %v UpdatesSince(MinReorgIndex=%v): err=%v reverts=%d applies=%d", desc(), o, mr, err, len(rus), len(aus))}
	}
	return nil
}

func c19() {
	depth := 4
	if run.Thorough() {
		depth = 5
	}
	var jobs []*univ.Universe
	for _, reg := range []univ.Regime{univ.RegimeV1, univ.RegimeX, univ.RegimeV2} {
		jobs = append(jobs, combUniverse(reg))
		n := 3
		if run.Thorough() {
			n = 4
		}
		for si, sh := range univ.Shapes(n) {
			jobs = append(jobs, shapeUniverse(reg, sh, 2, fmt.Sprintf("shape%d.%d+trunk2", n, si)))
		}
	}
	var mu sync.Mutex
	fix := 0
	parallel(len(jobs), func(i int) {
		if run.Expired() {
			run.Cap("time budget: not all universes explored")
			return
		}
		u := jobs[i]
		sub := storyOps(u, true)
		// pre-validated submission (the checkpoint-sync path) of single v2 blocks, duplicates of pruned ones included
		for k := 1; k < len(u.Nodes); k++ {
			if u.Nodes[k].Valid && u.Nodes[k].Block.V2 != nil {
				sub = append(sub, submitOp{"validated", []int{k}})
			}
		}
		res := bfs.Run(bfs.Config{
			New: func() bfs.World { return &pruneWorld{u: u, n: node.New(u), tw: node.New(u)} },
			Ops: func(w bfs.World, _ int) []bfs.Op {
				ops := append([]bfs.Op(nil), sub...)
				for _, h := range []int{0, 1, 2, 3} {
					ops = append(ops, pruneOp{h, "abs"})
				}
				for _, d := range []int{-1, 0, 1, 5} {
					ops = append(ops, pruneOp{d, "tip"})
				}
				return ops
			},
			Apply:          c19Apply,
			MaxDepth:       map[bool]int{true: depth - 1, false: depth}[u.Name == "comb"],
			MaxStates:      30000,
			Stop:           run.Expired,
			ValidateReplay: true,
		})
		run.Add(int64(res.States), int64(res.Transitions), int64(res.Replays), int64(res.Transitions))
		mu.Lock()
		if res.Complete {
			fix++
		}
		mu.Unlock()
		if len(res.Samples) > 0 && i%7 == 0 {
			run.Sample(map[string]any{"universe": u.Describe(), "history": histStrings(res.Samples[len(res.Samples)-1]), "states": res.States})
		}
		for _, v := range res.Violations {
			run.Violate(v.Signature, v.What, map[string]any{"universe": u.Describe(), "history": histStrings(v.History)})
		}
	})
	run.DistinctN = run.States
	run.Extra["universes"] = len(jobs)
	run.Extra["universes_fully_explored"] = fix
	run.Rule = "comb universes (6-block main path with heavier forks at heights 1,3,5) and all 3/4-block fork shapes on a 2-block trunk x 3 regimes; ops: submit path up to any node, single blocks through AddBlocks and (v2 blocks) through AddValidatedV2Blocks (incl. duplicates of pruned blocks), PruneBlocks(h) for h in {0,1,2,3,tip-1,tip,tip+1,tip+5}; BFS to the depth bound; an unpruned twin receives the same submissions; distinct = distinct (pruned node, twin) state pairs"
	run.Explanation = fmt.Sprintf("depth bound %d (comb: one less); after every op: best-chain audit against the reference replay, bodies below the prune height gone and all others kept, State/Header/BestIndex intact, tip state and History equal to the twin, MinReorgIndex equals the lowest height with all bodies up to the tip, reorgs with fork point at/above it behave like the twin, below it fail without panic and without changing the store, requests needing pruned bodies return errors.", depth)
	run.Assumptions = []string{"reference = go.sia.tech/core replay and an unpruned twin of the same implementation"}
}
