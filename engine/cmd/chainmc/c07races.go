package main

import (
	"fmt"

	"go.sia.tech/core/types"
	"go.sia.tech/coreutils/vsync"
	"verif/internal/explore"
	"verif/internal/univ"
)

// c07Races explores schedules of concurrent wallet calls (wallet/wallet.go and chain/manager.go are
// compiled against the scheduler-aware sync shim).
func c07Races(u *univ.Universe) {
	type result struct {
		ok     bool
		inputs []types.SiacoinOutputID
		sum    types.Currency
		change types.Currency
		amount types.Currency
	}
	type scen struct {
		name  string
		build func(w *c07World, res *[]result) []func()
	}
	fundThread := func(w *c07World, res *[]result, slot int, amount types.Currency) func() {
		return func() {
			t := types.V2Transaction{SiacoinOutputs: []types.SiacoinOutput{{Address: w.u.As[1].Addr, Value: amount}}}
			_, _, err := w.w.FundV2Transaction(&t, amount, false)
			r := result{ok: err == nil, amount: amount}
			if err == nil {
				for _, in := range t.SiacoinInputs {
					r.inputs = append(r.inputs, in.Parent.ID)
					r.sum = r.sum.Add(in.Parent.SiacoinOutput.Value)
				}
				for _, o := range t.SiacoinOutputs[1:] {
					r.change = r.change.Add(o.Value)
				}
			}
			(*res)[slot] = r
		}
	}
	scens := []scen{
		{"fund6||fund6", func(w *c07World, res *[]result) []func() {
			return []func(){fundThread(w, res, 0, univ.SC(6)), fundThread(w, res, 1, univ.SC(6))}
		}},
		{"fund3||fund3||fund3", func(w *c07World, res *[]result) []func() {
			return []func(){fundThread(w, res, 0, univ.SC(3)), fundThread(w, res, 1, univ.SC(3)), fundThread(w, res, 2, univ.SC(3))}
		}},
		{"fund5||release-of-earlier-5", func(w *c07World, res *[]result) []func() {
			pre := types.V2Transaction{SiacoinOutputs: []types.SiacoinOutput{{Address: w.u.As[1].Addr, Value: univ.SC(5)}}}
			if _, _, err := w.w.FundV2Transaction(&pre, univ.SC(5), false); err != nil {
				panic(err)
			}
			return []func(){fundThread(w, res, 0, univ.SC(5)), func() {
				w.w.ReleaseInputs(nil, []types.V2Transaction{pre})
				(*res)[1] = result{}
			}}
		}},
		{"fund6||redistribute", func(w *c07World, res *[]result) []func() {
			return []func(){fundThread(w, res, 0, univ.SC(6)), func() {
				_, txns, _, err := w.w.Redistribute(2, univ.SC(1), types.NewCurrency64(1))
				r := result{ok: err == nil && len(txns) > 0}
				for _, t := range txns {
					for _, in := range t.SiacoinInputs {
						r.inputs = append(r.inputs, in.Parent.ID)
						r.sum = r.sum.Add(in.Parent.SiacoinOutput.Value)
					}
					for _, o := range t.SiacoinOutputs {
						r.change = r.change.Add(o.Value)
					}
					r.change = r.change.Add(t.MinerFee)
				}
				(*res)[1] = r
			}}
		}},
		{"fund6||block+sync", func(w *c07World, res *[]result) []func() {
			L := w.u.Nodes[w.n.TipNode()].L
			b := univ.BuildBlock(L, univ.TS(w.u.Net, L.State.Index.Height+1, 3), w.u.As[1].Addr, nil, nil)
			c07mu.Lock()
			w.u.AddRaw(w.n.TipNode(), b, "race-block")
			c07mu.Unlock()
			return []func(){fundThread(w, res, 0, univ.SC(6)), func() {
				w.n.CM.AddBlocks([]types.Block{b})
				w.sync()
				(*res)[1] = result{}
			}}
		}},
	}
	bound := 2
	if run.Thorough() {
		bound = 3
	}
	var races []map[string]any
	for _, sc := range scens {
		var outcome string
		scenario := func() ([]func(), func(*vsync.Execution) (string, string)) {
			w := newC07World(u, walletOpts{30, 30, 10})
			res := make([]result, 3)
			bodies := sc.build(w, &res)
			check := func(x *vsync.Execution) (string, string) {
				defer w.w.Close()
				if x.Deadlock {
					return "c07:race:deadlock", fmt.Sprintf("race %s: deadlock %v", sc.name, x.Blocked)
				}
				if len(x.Panics) > 0 {
					return "c07:race:panic", fmt.Sprintf("race %s: %v", sc.name, x.Panics)
				}
				seen := map[types.SiacoinOutputID]int{}
				var total types.Currency
				outcome = ""
				for i, r := range res {
					outcome += fmt.Sprint(r.ok, len(r.inputs), " ")
					if !r.ok {
						continue
					}
					for _, id := range r.inputs {
						if j, dup := seen[id]; dup {
							return "c07:race:shared-input", fmt.Sprintf("race %s: calls %d and %d both selected input %v", sc.name, j, i, id)
						}
						seen[id] = i
						e, ok := w.st.UTXOs[id]
						if !ok || e.MaturityHeight > w.st.TipIdx.Height {
							return "c07:race:unjustified-input", fmt.Sprintf("race %s: call %d selected %v which is not a mature output of the wallet", sc.name, i, id)
						}
					}
					if !r.sum.Equals(r.amount.Add(r.change)) {
						return "c07:race:conservation", fmt.Sprintf("race %s: call %d: inputs %v != amount %v + change %v", sc.name, i, r.sum, r.amount, r.change)
					}
					total = total.Add(r.sum)
				}
				if total.Cmp(univ.SC(11)) > 0 {
					return "c07:race:over-allocation", fmt.Sprintf("race %s: %v allocated from a balance of 11 SC", sc.name, total)
				}
				locked := w.w.VerifLocked()
				for id := range seen {
					if _, ok := locked[id]; !ok {
						return "c07:race:input-not-reserved", fmt.Sprintf("race %s: selected input %v is not reserved at the end", sc.name, id)
					}
				}
				return "", ""
			}
			return bodies, check
		}
		for b := 0; b <= bound; b++ {
			e := &explore.Explorer{Bound: b, MaxExec: 40000, MaxSteps: 600, Stop: run.Expired, Observe: func() string { return outcome }}
			r := e.Run(scenario)
			run.Add(int64(r.Points), int64(r.Points), int64(r.Executions), int64(r.Executions))
			for o := range r.Outcomes {
				run.Distinct("race", sc.name, o)
			}
			if r.Capped {
				run.Cap(fmt.Sprintf("race %s bound %d capped at %d executions", sc.name, b, r.Executions))
			}
			if b == bound {
				races = append(races, map[string]any{"scenario": sc.name, "preemption_bound": b, "executions": r.Executions, "distinct_outcomes": len(r.Outcomes), "max_points": r.MaxPoints})
			}
			for _, v := range r.Violations {
				for i := 0; i < 3; i++ {
					if _, sig, _ := explore.Replay(scenario, v.Choices, 600); sig != v.Signature {
						panic(fmt.Sprintf("harness error: race violation %q does not replay deterministically", v.Signature))
					}
				}
				run.Violate(v.Signature, v.What, map[string]any{"race": sc.name, "choices": v.Choices, "schedule": v.Schedule})
			}
			if len(r.Violations) > 0 {
				break
			}
		}
	}
	run.Extra["races"] = races
}
