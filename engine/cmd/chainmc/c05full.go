package main

import (
	"fmt"
	"time"

	"go.sia.tech/core/types"
	"go.sia.tech/coreutils"
	"verif/internal/node"
	"verif/internal/univ"
)

// c05NearFullBlock: "a block assembled from the reported pool contents on top of the tip is always accepted"
// at the block weight limit. The pool holds one accepted v2 transaction whose weight is the maximum block
// weight minus d, for every d in 0..24 (the block template carries a small transaction of its own); in the
// v1/v2 overlap additionally a v1 transaction next to it. The block MineBlock returns must be valid per the
// reference and accepted by the node.
func c05NearFullBlock() {
	for _, reg := range []univ.Regime{univ.RegimeX, univ.RegimeV2} {
		u := univ.NewUniverse("near-full", reg)
		k := 0
		for u.Nodes[k].Height+1 < u.Net.HardforkV2.AllowHeight+1 || u.Nodes[k].Height < 1 {
			k = u.Add(k, 0, nil, nil, fmt.Sprintf("m%d", u.Nodes[k].Height+1))
		}
		cs := u.Nodes[k].L.State
		max := cs.MaxBlockWeight()
		base := types.V2Transaction{ArbitraryData: make([]byte, 1000000)}
		w0 := cs.V2TransactionWeight(base)
		for d := uint64(0); d <= 24; d++ {
			n := node.New(u)
			if err := n.CM.AddBlocks(u.Blocks(u.PathTo(k))); err != nil {
				run.Violate("c05:near-full-setup", err.Error(), nil)
				return
			}
			txn := types.V2Transaction{ArbitraryData: make([]byte, 1000000+int(max-d-w0))}
			txn.ArbitraryData[0] = byte(d)
			if got := cs.V2TransactionWeight(txn); got != max-d {
				run.Violate("c05:near-full-setup", fmt.Sprintf("weight %d, wanted %d", got, max-d), nil)
				return
			}
			run.Add(1, 1, 1, 1)
			if _, err := n.CM.AddV2PoolTransactions(n.CM.Tip(), []types.V2Transaction{txn}); err != nil {
				run.Distinct("near-full", string(reg), d, "refused")
				continue // a pool that refuses it is fine; the block must be acceptable either way
			}
			b, ok := coreutils.MineBlock(n.CM, u.As[0].Addr, 10*time.Second)
			if !ok {
				run.Violate("c05:mine-failed", "MineBlock found no nonce", nil)
				continue
			}
			included := len(b.V2Transactions()) > 1
			run.Distinct("near-full", string(reg), d, included)
			what := fmt.Sprintf("[%s] pool = one v2 transaction of weight %d (maximum block weight %d minus %d)", reg, max-d, max, d)
			if err := n.CM.AddBlocks([]types.Block{b}); err != nil || n.CM.Tip().ID != b.ID() {
				run.Violate("c05:mined-block-rejected:weight", fmt.Sprintf("%s: the block assembled by MineBlock from the reported pool was not accepted: %v", what, err), map[string]any{"regime": string(reg), "below_max": d})
			}
		}
	}
}
