package main

import (
	"bytes"
	"fmt"
	"os"
	"sync"

	"go.sia.tech/core/consensus"
	"go.sia.tech/core/types"
	"verif/internal/bfs"
	"verif/internal/ledger"
	"verif/internal/node"
	"verif/internal/univ"
)

// rebaseSet is a transaction set valid at a universe node.
type rebaseSet struct {
	name string
	from int
	txns []types.V2Transaction
}

func idxOf(u *univ.Universe, k int) types.ChainIndex {
	return types.ChainIndex{Height: u.Nodes[k].Height, ID: u.Nodes[k].Block.ID()}
}

// rebaseSets builds the menu of sets valid at node f from the reference ledger there.
func rebaseSets(u *univ.Universe, f int) []rebaseSet {
	L := u.Nodes[f].L
	if L == nil || L.State.Index.Height+1 < u.Net.HardforkV2.AllowHeight {
		return nil
	}
	as, cs := u.As, L.State
	var out []rebaseSet
	a2 := univ.OwnedSC(L, as[2].Addr)
	a1 := univ.OwnedSC(L, as[1].Addr)
	if len(a2) > 0 && a2[0].SiacoinOutput.Value.Cmp(univ.SC(12)) >= 0 {
		t := univ.V2Spend(cs, as[2], a2[0], as[0].Addr, univ.SC(2), univ.SC(1))
		out = append(out, rebaseSet{"spend", f, []types.V2Transaction{t}})
		p := univ.V2Spend(cs, as[2], a2[0], as[2].Addr, univ.SC(8), univ.SC(1))
		c := univ.V2Spend(cs, as[2], univ.Ephemeral(p, 0), as[0].Addr, univ.SC(2), univ.SC(1))
		out = append(out, rebaseSet{"parent+child", f, []types.V2Transaction{p, c}})
		if len(a1) > 0 && a1[len(a1)-1].SiacoinOutput.Value.Cmp(univ.SC(3)) >= 0 {
			o := univ.V2Spend(cs, as[1], a1[len(a1)-1], as[0].Addr, univ.SC(1), univ.SC(1))
			out = append(out, rebaseSet{"mixed", f, []types.V2Transaction{o, p, c}})
		}
	}
	if sf := univ.OwnedSF(L, as[0].Addr); len(sf) > 0 {
		out = append(out, rebaseSet{"siafund", f, []types.V2Transaction{univ.V2SiafundSpend(cs, as[0], sf[0], as[1].Addr, as[0].Addr)}})
	}
	// transactions that some block of the universe confirms, re-based to f when their inputs exist there
	for k := 1; k < len(u.Nodes); k++ {
		for ti, t := range u.Nodes[k].Block.V2Transactions() {
			c := t.DeepCopy()
			ok := len(c.SiacoinInputs)+len(c.SiafundInputs)+len(c.FileContractRevisions)+len(c.FileContractResolutions) > 0
			for i := range c.SiacoinInputs {
				e, found := L.SCEs[c.SiacoinInputs[i].Parent.ID]
				ok = ok && found
				c.SiacoinInputs[i].Parent.StateElement = e.StateElement.Copy()
			}
			for i := range c.SiafundInputs {
				e, found := L.SFEs[c.SiafundInputs[i].Parent.ID]
				ok = ok && found
				c.SiafundInputs[i].Parent.StateElement = e.StateElement.Copy()
			}
			for i := range c.FileContractRevisions {
				e, found := L.V2FCEs[c.FileContractRevisions[i].Parent.ID]
				ok = ok && found && bytes.Equal(node.Enc(e.V2FileContract), node.Enc(c.FileContractRevisions[i].Parent.V2FileContract))
				c.FileContractRevisions[i].Parent.StateElement = e.StateElement.Copy()
			}
			for i := range c.FileContractResolutions {
				e, found := L.V2FCEs[c.FileContractResolutions[i].Parent.ID]
				ok = ok && found && bytes.Equal(node.Enc(e.V2FileContract), node.Enc(c.FileContractResolutions[i].Parent.V2FileContract))
				c.FileContractResolutions[i].Parent.StateElement = e.StateElement.Copy()
				if sp, isSP := c.FileContractResolutions[i].Resolution.(*types.V2StorageProof); isSP {
					cie, found := L.CIEs[sp.ProofIndex.ChainIndex]
					ok = ok && found
					nsp := *sp
					nsp.ProofIndex = cie.Copy()
					c.FileContractResolutions[i].Resolution = &nsp
				}
			}
			if ok && L.State.Elements.ValidateTransactionElements(c) == nil {
				out = append(out, rebaseSet{fmt.Sprintf("block%d.tx%d", k, ti), f, []types.V2Transaction{c}})
				// the same transaction followed by a two-input child whose SECOND input is the transaction's
				// (ephemeral) change output: when a block confirms the parent on the way, that input must
				// come back as the confirmed element
				if len(c.SiacoinInputs) == 1 && len(c.SiacoinOutputs) == 2 {
					for _, a := range as {
						if a.Addr != c.SiacoinOutputs[1].Address || a.Addr != c.SiacoinInputs[0].Parent.SiacoinOutput.Address {
							continue
						}
						for _, other := range univ.OwnedSC(L, a.Addr) {
							if other.ID == c.SiacoinInputs[0].Parent.ID || other.SiacoinOutput.Value.Cmp(univ.SC(2)) < 0 {
								continue
							}
							child := types.V2Transaction{
								SiacoinInputs:  []types.V2SiacoinInput{{Parent: other.Copy()}, {Parent: univ.Ephemeral(c, 1)}},
								SiacoinOutputs: []types.SiacoinOutput{{Address: as[0].Addr, Value: other.SiacoinOutput.Value.Add(c.SiacoinOutputs[1].Value).Sub(univ.SC(1))}},
								MinerFee:       univ.SC(1),
							}
							univ.SignV2(cs, &child, a)
							out = append(out, rebaseSet{fmt.Sprintf("block%d.tx%d+2in-child", k, ti), f, []types.V2Transaction{c, child}})
							break
						}
					}
				}
			}
		}
	}
	return out
}

// c13Diamond: V2TransactionSet on dependency shapes that are not chains. T spends outputs of A and of B, and B
// itself spends an output of A (a diamond); both input orders of T; the set must come back parents-first.
// Also a basis that is not the tip: T carries one confirmed input with a proof as of an older index while
// its pooled parent's proofs are as of the tip.
func c13Diamond() {
	for _, reg := range []univ.Regime{univ.RegimeX, univ.RegimeV2} {
		u := univ.NewUniverse("diamond", reg)
		k := 0
		for u.Nodes[k].Height+1 < u.Net.HardforkV2.AllowHeight+1 || u.Nodes[k].Height < 2 {
			k = u.Add(k, 0, nil, nil, fmt.Sprintf("m%d", u.Nodes[k].Height+1))
		}
		old := k
		k = u.Add(k, 0, nil, nil, "tip")
		n := node.New(u)
		if err := n.CM.AddBlocks(u.Blocks(u.PathTo(k))); err != nil {
			run.Violate("c13:diamond-setup", err.Error(), nil)
			return
		}
		Lold, Ltip := u.Nodes[old].L, u.Nodes[k].L
		a := u.As[1]
		own := univ.OwnedSC(Ltip, a.Addr)
		tipIdx := n.CM.Tip()
		A := univ.V2Spend(Ltip.State, a, own[0], a.Addr, univ.SC(8), univ.SC(1)) // outputs: 8 SC to a, change to a
		B := univ.V2Spend(Ltip.State, a, univ.Ephemeral(A, 0), a.Addr, univ.SC(5), univ.SC(1))
		mk := func(ins ...types.SiacoinElement) types.V2Transaction {
			var sum types.Currency
			t := types.V2Transaction{MinerFee: univ.SC(1)}
			for _, e := range ins {
				t.SiacoinInputs = append(t.SiacoinInputs, types.V2SiacoinInput{Parent: e})
				sum = sum.Add(e.SiacoinOutput.Value)
			}
			t.SiacoinOutputs = []types.SiacoinOutput{{Address: u.As[0].Addr, Value: sum.Sub(univ.SC(1))}}
			univ.SignV2(Ltip.State, &t, a)
			return t
		}
		for _, order := range []string{"A-output-first", "B-output-first", "three-generations"} {
			nn := node.New(u)
			nn.CM.AddBlocks(u.Blocks(u.PathTo(k)))
			var T types.V2Transaction
			pooled := []types.V2Transaction{A, B}
			switch order {
			case "A-output-first":
				T = mk(univ.Ephemeral(A, 1), univ.Ephemeral(B, 0))
			case "B-output-first":
				T = mk(univ.Ephemeral(B, 0), univ.Ephemeral(A, 1))
			default:
				// three pooled ancestors: A <- B <- C3, T spends an output of C3 and one of A
				C3 := univ.V2Spend(Ltip.State, a, univ.Ephemeral(B, 0), a.Addr, univ.SC(3), univ.SC(1))
				pooled = append(pooled, C3)
				T = mk(univ.Ephemeral(C3, 0), univ.Ephemeral(A, 1))
			}
			pooled = append(pooled, T)
			if _, err := nn.CM.AddV2PoolTransactions(tipIdx, pooled); err != nil {
				run.Violate("c13:diamond-setup", fmt.Sprintf("[%s] the diamond set is refused by the pool: %v", reg, err), nil)
				continue
			}
			run.Add(1, 1, 1, 1)
			_, set, err := nn.CM.V2TransactionSet(tipIdx, T.DeepCopy())
			where := fmt.Sprintf("[%s] V2TransactionSet(tip, T) with T spending an output of A and an output of B, B spending an output of A, T's inputs %s", reg, order)
			if err != nil {
				run.Violate("c13:txset-error:diamond", where+": "+err.Error(), nil)
				continue
			}
			ms := consensus.NewMidState(Ltip.State)
			for i, x := range set {
				if verr := consensus.ValidateV2Transaction(ms, x); verr != nil {
					var ids []string
					for _, y := range set {
						ids = append(ids, map[types.TransactionID]string{A.ID(): "A", B.ID(): "B", T.ID(): "T"}[y.ID()]+"")
					}
					run.Violate("c13:txset-order:diamond", fmt.Sprintf("%s: returned order %v, transaction %d is not valid after the ones before it: %v", where, ids, i, verr), map[string]any{"regime": string(reg), "order": order})
					break
				}
				ms.ApplyV2Transaction(x)
			}
			if len(set) != len(pooled) {
				run.Violate("c13:txset-incomplete:diamond", fmt.Sprintf("%s: %d transactions returned, the transaction has %d pooled ancestors", where, len(set), len(pooled)-1), map[string]any{"regime": string(reg), "order": order})
			}
		}
		// basis older than the tip
		nn := node.New(u)
		nn.CM.AddBlocks(u.Blocks(u.PathTo(k)))
		ownOld := univ.OwnedSC(Lold, a.Addr)
		P := univ.V2Spend(Ltip.State, a, own[1], a.Addr, univ.SC(6), univ.SC(1))
		if _, err := nn.CM.AddV2PoolTransactions(tipIdx, []types.V2Transaction{P}); err != nil {
			run.Violate("c13:diamond-setup", err.Error(), nil)
			continue
		}
		var confirmedOld types.SiacoinElement
		for _, e := range ownOld {
			if e.ID == own[2].ID {
				confirmedOld = e
			}
		}
		C := types.V2Transaction{MinerFee: univ.SC(1), SiacoinInputs: []types.V2SiacoinInput{{Parent: confirmedOld}, {Parent: univ.Ephemeral(P, 0)}}}
		C.SiacoinOutputs = []types.SiacoinOutput{{Address: u.As[0].Addr, Value: confirmedOld.SiacoinOutput.Value.Add(univ.SC(6)).Sub(univ.SC(1))}}
		univ.SignV2(Lold.State, &C, a)
		oldIdx := types.ChainIndex{ID: u.Nodes[old].Block.ID(), Height: u.Nodes[old].Height}
		run.Add(1, 1, 1, 1)
		basis, set, err := nn.CM.V2TransactionSet(oldIdx, C.DeepCopy())
		where := fmt.Sprintf("[%s] V2TransactionSet(tip-1, C) with C carrying a confirmed input proven as of tip-1 and an output of the pooled P", reg)
		switch {
		case err != nil:
			run.Violate("c13:txset-error:old-basis", where+": "+err.Error(), map[string]any{"regime": string(reg)})
		case basis != tipIdx:
			run.Violate("c13:txset-basis", fmt.Sprintf("%s returned basis %v, tip is %v", where, basis, tipIdx), nil)
		default:
			ms := consensus.NewMidState(Ltip.State)
			for i, x := range set {
				if verr := consensus.ValidateV2Transaction(ms, x); verr != nil {
					run.Violate("c13:txset-invalid:old-basis", fmt.Sprintf("%s: transaction %d of the returned set is not valid at the tip: %v", where, i, verr), map[string]any{"regime": string(reg)})
					break
				}
				ms.ApplyV2Transaction(x)
			}
		}
	}
}

// c13CrossVersion: in the window where v1 and v2 transactions coexist, the pool holds one of each. Asking for
// the parents of a transaction that names an output of the *other* version's pooled transaction must neither
// panic nor return unrelated transactions. And c13StaleBasis: a basis several non-empty blocks behind the tip.
func c13CrossVersion() {
	u := univ.NewUniverse("cross-version", univ.RegimeX)
	k := 0
	for u.Nodes[k].Height+1 < u.Net.HardforkV2.AllowHeight {
		k = u.Add(k, 0, nil, nil, fmt.Sprintf("m%d", u.Nodes[k].Height+1))
	}
	n := node.New(u)
	if err := n.CM.AddBlocks(u.Blocks(u.PathTo(k))); err != nil {
		run.Violate("c13:cross-version-setup", err.Error(), nil)
		return
	}
	L := u.Nodes[k].L
	tip := n.CM.Tip()
	a, b := u.As[1], u.As[2]
	oa, ob := univ.OwnedSC(L, a.Addr), univ.OwnedSC(L, b.Addr)
	p1 := univ.V1Spend(L.State, a, oa[0], a.Addr, univ.SC(5), univ.SC(1))
	p2 := univ.V2Spend(L.State, b, ob[0], b.Addr, univ.SC(5), univ.SC(1))
	if _, err := n.CM.AddPoolTransactions([]types.Transaction{p1}); err != nil {
		run.Violate("c13:cross-version-setup", "v1 pool txn refused: "+err.Error(), nil)
		return
	}
	if _, err := n.CM.AddV2PoolTransactions(tip, []types.V2Transaction{p2}); err != nil {
		run.Violate("c13:cross-version-setup", "v2 pool txn refused: "+err.Error(), nil)
		return
	}
	// a v2 transaction naming the v1 transaction's output as an (ephemeral) parent
	t2 := types.V2Transaction{MinerFee: univ.SC(1), SiacoinInputs: []types.V2SiacoinInput{{Parent: types.SiacoinElement{
		ID: p1.SiacoinOutputID(0), SiacoinOutput: p1.SiacoinOutputs[0], StateElement: types.StateElement{LeafIndex: types.UnassignedLeafIndex}}}},
		SiacoinOutputs: []types.SiacoinOutput{{Address: u.As[0].Addr, Value: univ.SC(4)}}}
	univ.SignV2(L.State, &t2, a)
	func() {
		defer func() {
			if r := recover(); r != nil {
				run.Violate("c13:panic:txset-cross-version", fmt.Sprintf("V2TransactionSet(tip, v2 txn naming an output of a pooled v1 transaction) panicked: %v", r), nil)
			}
		}()
		run.Add(1, 1, 1, 1)
		_, set, err := n.CM.V2TransactionSet(tip, t2.DeepCopy())
		if err == nil {
			for _, x := range set {
				if x.ID() == p2.ID() {
					run.Violate("c13:txset-unrelated-parent", "V2TransactionSet(tip, v2 txn naming an output of a pooled v1 transaction) returned an unrelated pooled v2 transaction as its parent", nil)
				}
			}
		}
	}()
	// a v1 transaction naming the v2 transaction's output
	t1 := univ.V1SpendID(L.State, b, p2.SiacoinOutputID(p2.ID(), 0), p2.SiacoinOutputs[0].Value, u.As[0].Addr, univ.SC(2), univ.SC(1))
	func() {
		defer func() {
			if r := recover(); r != nil {
				run.Violate("c13:panic:unconfirmed-parents-cross-version", fmt.Sprintf("UnconfirmedParents(v1 txn naming an output of a pooled v2 transaction) panicked: %v", r), nil)
			}
		}()
		run.Add(1, 1, 1, 1)
		for _, x := range n.CM.UnconfirmedParents(t1) {
			if x.ID() == p1.ID() {
				run.Violate("c13:txset-unrelated-parent", "UnconfirmedParents(v1 txn naming an output of a pooled v2 transaction) returned an unrelated pooled v1 transaction", nil)
			}
		}
	}()
}

// c13CrossVersionReorg: in the v1/v2 window a v1 transaction A (with a fee) is confirmed and a pooled v2
// transaction T spends its output. A reorg reverts A's block: A returns to the v1 pool, T's input is no longer
// confirmed. A v2 set cannot carry a v1 parent, so whatever V2TransactionSet assembles for a child of T must
// still be valid at the tip on its own - or T must be gone from the pool.
func c13CrossVersionReorg() {
	u := univ.NewUniverse("cross-version-reorg", univ.RegimeS) // v2 allowed from 2, required from 8
	k := 0
	// base at the allow height (the v1 signature replay prefix changes there): everything below happens
	// between allow and require height, where v1 and v2 transactions are both valid
	for u.Nodes[k].Height < u.Net.HardforkV2.AllowHeight {
		k = u.Add(k, 0, nil, nil, fmt.Sprintf("m%d", u.Nodes[k].Height+1))
	}
	base := k
	a := u.As[1]
	Lb := u.Nodes[base].L
	p1 := univ.V1Spend(Lb.State, a, univ.OwnedSC(Lb, a.Addr)[0], a.Addr, univ.SC(9), univ.SC(1))
	a3 := u.Add(base, 0, []types.Transaction{p1}, nil, "A")
	b := base
	for i := 0; i < 2; i++ {
		b = u.Add(b, 1, nil, nil, fmt.Sprintf("B%d", i+1))
	}
	if !u.Nodes[a3].Valid || !u.Nodes[b].Valid {
		run.Violate("c13:cross-version-setup", "universe invalid: "+u.Nodes[a3].Err+u.Nodes[b].Err, nil)
		return
	}
	n := node.New(u)
	if err := n.CM.AddBlocks(u.Blocks(u.PathTo(a3))); err != nil {
		run.Violate("c13:cross-version-setup", err.Error(), nil)
		return
	}
	La := u.Nodes[a3].L
	out, ok := La.SCEs[p1.SiacoinOutputID(0)]
	if !ok {
		run.Violate("c13:cross-version-setup", "output of the confirmed v1 transaction not found", nil)
		return
	}
	T := univ.V2Spend(La.State, a, out, a.Addr, univ.SC(6), univ.SC(1))
	if _, err := n.CM.AddV2PoolTransactions(n.CM.Tip(), []types.V2Transaction{T}); err != nil {
		run.Violate("c13:cross-version-setup", "v2 spend of the confirmed v1 output refused: "+err.Error(), nil)
		return
	}
	if err := n.CM.AddBlocks(u.Blocks(u.PathTo(b))); err != nil || n.TipNode() != b {
		run.Violate("c13:cross-version-setup", fmt.Sprintf("reorg failed: %v", err), nil)
		return
	}
	run.Add(1, 1, 1, 1)
	stillPooled := false
	for _, x := range n.CM.V2PoolTransactions() {
		stillPooled = stillPooled || x.ID() == T.ID()
	}
	run.Distinct("cross-version-reorg", stillPooled)
	if os.Getenv("VERIF_DEBUG") != "" {
		fmt.Println("DBG cross-version-reorg: T still pooled:", stillPooled, "v1 pool:", len(n.CM.PoolTransactions()), "v2 pool:", len(n.CM.V2PoolTransactions()))
	}
	if !stillPooled {
		return
	}
	X := univ.V2Spend(u.Nodes[b].L.State, a, univ.Ephemeral(T, 0), u.As[0].Addr, univ.SC(3), univ.SC(1))
	_, set, err := n.CM.V2TransactionSet(n.CM.Tip(), X.DeepCopy())
	if os.Getenv("VERIF_DEBUG") != "" {
		fmt.Println("DBG cross-version-reorg: V2TransactionSet:", len(set), err)
	}
	if err != nil {
		return // refusing to assemble a set is fine
	}
	ms := consensus.NewMidState(u.Nodes[b].L.State)
	for i, x := range set {
		if verr := consensus.ValidateV2Transaction(ms, x); verr != nil {
			run.Violate("c13:txset-not-broadcastable:v1-parent", fmt.Sprintf("[s] a pooled v2 transaction T spends the output of a v1 transaction whose block was reverted (the v1 transaction is back in the v1 pool); V2TransactionSet for a child of T returns %d transactions of which number %d is not valid at the tip: %v - a v2 set cannot carry the v1 parent, so nobody who lacks it accepts the set", len(set), i, verr), nil)
			return
		}
		ms.ApplyV2Transaction(x)
	}
}

func c13StaleBasis() {
	for _, reg := range []univ.Regime{univ.RegimeX, univ.RegimeV2} {
		u := univ.NewUniverse("stale-basis", reg)
		k := 0
		for u.Nodes[k].Height+1 < u.Net.HardforkV2.AllowHeight+1 || u.Nodes[k].Height < 2 {
			k = u.Add(k, 0, nil, nil, fmt.Sprintf("m%d", u.Nodes[k].Height+1))
		}
		old := k
		a := u.As[1]
		// three blocks with transactions of other actors: every proof moves
		for i := 0; i < 3; i++ {
			L := u.Nodes[k].L
			own := univ.OwnedSC(L, u.As[2].Addr)
			k = u.Add(k, 0, nil, []types.V2Transaction{univ.V2Spend(L.State, u.As[2], own[0], u.As[3].Addr, univ.SC(1), univ.SC(1))}, fmt.Sprintf("busy%d", i))
			if !u.Nodes[k].Valid {
				run.Violate("c13:stale-basis-setup", u.Nodes[k].Err, nil)
				return
			}
		}
		n := node.New(u)
		if err := n.CM.AddBlocks(u.Blocks(u.PathTo(k))); err != nil {
			run.Violate("c13:stale-basis-setup", err.Error(), nil)
			return
		}
		Lold, Ltip := u.Nodes[old].L, u.Nodes[k].L
		tip := n.CM.Tip()
		own := univ.OwnedSC(Ltip, a.Addr)
		P := univ.V2Spend(Ltip.State, a, own[0], a.Addr, univ.SC(6), univ.SC(1))
		if _, err := n.CM.AddV2PoolTransactions(tip, []types.V2Transaction{P}); err != nil {
			run.Violate("c13:stale-basis-setup", err.Error(), nil)
			return
		}
		var confirmedOld types.SiacoinElement
		for _, e := range univ.OwnedSC(Lold, a.Addr) {
			if e.ID == own[1].ID {
				confirmedOld = e
			}
		}
		C := types.V2Transaction{MinerFee: univ.SC(1), SiacoinInputs: []types.V2SiacoinInput{{Parent: confirmedOld}, {Parent: univ.Ephemeral(P, 0)}}}
		C.SiacoinOutputs = []types.SiacoinOutput{{Address: u.As[0].Addr, Value: confirmedOld.SiacoinOutput.Value.Add(univ.SC(6)).Sub(univ.SC(1))}}
		univ.SignV2(Lold.State, &C, a)
		oldIdx := types.ChainIndex{ID: u.Nodes[old].Block.ID(), Height: u.Nodes[old].Height}
		run.Add(1, 1, 1, 1)
		where := fmt.Sprintf("[%s] V2TransactionSet(tip-3, C): C carries a confirmed input proven as of tip-3 and an output of the pooled P (whose proofs are as of the tip)", reg)
		basis, set, err := n.CM.V2TransactionSet(oldIdx, C.DeepCopy())
		switch {
		case err != nil:
			run.Violate("c13:txset-error:stale-basis", where+": "+err.Error(), map[string]any{"regime": string(reg)})
		case basis != tip:
			run.Violate("c13:txset-basis", fmt.Sprintf("%s returned basis %v, tip is %v", where, basis, tip), nil)
		default:
			ms := consensus.NewMidState(Ltip.State)
			for i, x := range set {
				if verr := consensus.ValidateV2Transaction(ms, x); verr != nil {
					run.Violate("c13:txset-invalid:stale-basis", fmt.Sprintf("%s: transaction %d of the returned set is not valid at the tip: %v", where, i, verr), map[string]any{"regime": string(reg)})
					break
				}
				ms.ApplyV2Transaction(x)
			}
		}
	}
}

// c13ExtraSets: hand-built sets per universe name and basis node.
var c13ExtraSets = map[string]map[int][]rebaseSet{}

// c13TwoParents: a child with two ephemeral inputs whose parents are confirmed by *different* blocks of the
// branches (in both orders), with the inputs listed in both orders.
func c13TwoParents(reg univ.Regime) *univ.Universe {
	u := univ.NewUniverse("two-parents", reg)
	k := 0
	for u.Nodes[k].Height+1 < u.Net.HardforkV2.AllowHeight+1 || u.Nodes[k].Height < 2 {
		k = u.Add(k, 0, nil, nil, fmt.Sprintf("m%d", u.Nodes[k].Height+1))
	}
	base := k
	L := u.Nodes[base].L
	a := u.As[1]
	own := univ.OwnedSC(L, a.Addr)
	if len(own) < 2 {
		panic("c13 two-parents: actor needs two outputs")
	}
	p1 := univ.V2Spend(L.State, a, own[0], a.Addr, univ.SC(8), univ.SC(1))
	p2 := univ.V2Spend(L.State, a, own[1], a.Addr, univ.SC(7), univ.SC(1))
	mkChild := func(first, second types.V2Transaction) types.V2Transaction {
		e1, e2 := univ.Ephemeral(first, 0), univ.Ephemeral(second, 0)
		c := types.V2Transaction{
			SiacoinInputs:  []types.V2SiacoinInput{{Parent: e1}, {Parent: e2}},
			SiacoinOutputs: []types.SiacoinOutput{{Address: u.As[0].Addr, Value: e1.SiacoinOutput.Value.Add(e2.SiacoinOutput.Value).Sub(univ.SC(1))}},
			MinerFee:       univ.SC(1),
		}
		univ.SignV2(L.State, &c, a)
		return c
	}
	c12, c21 := mkChild(p1, p2), mkChild(p2, p1)
	u.Name = "two-parents-" + string(reg)
	c13ExtraSets[u.Name] = map[int][]rebaseSet{base: {
		{"p1,p2,child(p1 first)", base, []types.V2Transaction{p1, p2, c12}},
		{"p1,p2,child(p2 first)", base, []types.V2Transaction{p1, p2, c21}},
		{"p2,p1,child(p2 first)", base, []types.V2Transaction{p2, p1, c21}},
	}}
	// main path continues empty; branch B confirms p2 then p1; branch C confirms p1 then p2; branch D both at once
	k = u.Add(base, 0, nil, nil, "main+1")
	u.Add(k, 0, nil, nil, "main+2")
	rebuild := func(parent int, t types.V2Transaction) types.V2Transaction {
		// the same transaction with proofs valid at parent (it stays the same transaction id)
		c := t.DeepCopy()
		for i := range c.SiacoinInputs {
			if e, ok := u.Nodes[parent].L.SCEs[c.SiacoinInputs[i].Parent.ID]; ok {
				c.SiacoinInputs[i].Parent.StateElement = e.StateElement.Copy()
			}
		}
		return c
	}
	b1 := u.Add(base, 1, nil, []types.V2Transaction{rebuild(base, p2)}, "B:p2")
	b2 := u.Add(b1, 1, nil, []types.V2Transaction{rebuild(b1, p1)}, "B:p1")
	u.Add(b2, 1, nil, nil, "B+3")
	c1 := u.Add(base, 2, nil, []types.V2Transaction{rebuild(base, p1)}, "C:p1")
	c2 := u.Add(c1, 2, nil, []types.V2Transaction{rebuild(c1, p2)}, "C:p2")
	c3 := u.Add(c2, 2, nil, nil, "C+3")
	u.Add(c3, 2, nil, nil, "C+4")
	for _, nd := range u.Nodes {
		if !nd.Valid {
			panic("c13 two-parents: invalid block " + nd.Label + ": " + nd.Err)
		}
	}
	return u
}

// expectRebase computes what the reference says about rebasing set s from its basis to node t.
// verdict: "ok" (want holds the expected result), "error" (must be rejected), "unjudged".
func expectRebase(u *univ.Universe, s rebaseSet, t int) (verdict string, want []types.V2Transaction, why string) {
	fp := forkPoint(u, s.from, t)
	Lt := u.Nodes[t].L
	confirmed := map[types.TransactionID]bool{}
	for k := t; k != fp; k = u.Nodes[k].Parent {
		for _, tx := range u.Nodes[k].Block.V2Transactions() {
			confirmed[tx.ID()] = true
		}
	}
	created := map[types.SiacoinOutputID]bool{}
	for _, tx := range s.txns {
		Lf := u.Nodes[fp].L
		if confirmed[tx.ID()] {
			// removed from the result, provided the rebase can walk back to the fork point at all
			for _, in := range tx.SiacoinInputs {
				if _, ok := Lf.SCEs[in.Parent.ID]; !ok && in.Parent.StateElement.LeafIndex != types.UnassignedLeafIndex {
					return "unjudged", nil, "input of a confirmed transaction was created after the fork point"
				}
			}
			// the same holds for every other kind of parent element (the walk back to the fork point cannot
			// carry a proof for an element created above it)
			for _, in := range tx.SiafundInputs {
				if _, ok := Lf.SFEs[in.Parent.ID]; !ok {
					return "unjudged", nil, "siafund input of a confirmed transaction was created after the fork point"
				}
			}
			for _, r := range tx.FileContractRevisions {
				if _, ok := Lf.V2FCEs[r.Parent.ID]; !ok {
					return "unjudged", nil, "contract revised by a confirmed transaction was created after the fork point"
				}
			}
			for _, r := range tx.FileContractResolutions {
				if _, ok := Lf.V2FCEs[r.Parent.ID]; !ok {
					return "unjudged", nil, "contract resolved by a confirmed transaction was created after the fork point"
				}
			}
			continue
		}
		c := tx.DeepCopy()
		// judge(existsAtFork, existsAtTarget): element present at both -> must be rebased to the target's
		// element; present at the fork point only -> spent/resolved on the way (not judged); present at the
		// target only -> re-created on the other branch: judged for siacoin outputs of transactions (the update
		// follows them like the pool does), not judged for delayed outputs, siafund outputs and contracts; present at neither -> must be rejected.
		judge := func(atFork, atTarget bool, what string) (string, string) {
			switch {
			case atFork && atTarget:
				return "", ""
			case atFork || atTarget:
				return "unjudged", what + " changed on the way"
			default:
				return "error", what + " does not exist at the target"
			}
		}
		for i := range c.SiacoinInputs {
			in := &c.SiacoinInputs[i]
			if in.Parent.StateElement.LeafIndex == types.UnassignedLeafIndex {
				if created[in.Parent.ID] {
					continue // parent still unconfirmed: stays ephemeral
				}
				e, ok := Lt.SCEs[in.Parent.ID]
				if !ok {
					return "unjudged", nil, "ephemeral parent confirmed and spent"
				}
				in.Parent.StateElement = e.StateElement.Copy()
				continue
			}
			_, af := Lf.SCEs[in.Parent.ID]
			e, at := Lt.SCEs[in.Parent.ID]
			// an output of a transaction that is confirmed on both branches (created above the fork point,
			// existing at the target as well, same content) must come back with the target's proof. Delayed
			// outputs (payouts) are in general different elements on the two branches - the maturity height is
			// part of the element - and stay unjudged
			sameElement := at && e.MaturityHeight == 0 && in.Parent.MaturityHeight == 0
			if v, w := judge(af || sameElement, at, "siacoin input"); v != "" {
				return v, nil, w
			}
			in.Parent.StateElement = e.StateElement.Copy()
		}
		for i := range c.SiafundInputs {
			in := &c.SiafundInputs[i]
			_, af := Lf.SFEs[in.Parent.ID]
			e, at := Lt.SFEs[in.Parent.ID]
			if v, w := judge(af, at, "siafund input"); v != "" {
				return v, nil, w
			}
			in.Parent.StateElement = e.StateElement.Copy()
		}
		sameBody := func(a, b types.V2FileContract) bool { return bytes.Equal(node.Enc(a), node.Enc(b)) }
		for i := range c.FileContractRevisions {
			p := &c.FileContractRevisions[i].Parent
			ef, af := Lf.V2FCEs[p.ID]
			e, at := Lt.V2FCEs[p.ID]
			if (af || at) && !(af && at && sameBody(ef.V2FileContract, p.V2FileContract) && sameBody(e.V2FileContract, p.V2FileContract)) {
				return "unjudged", nil, "contract revised or resolved on the way"
			}
			if v, w := judge(af, at, "contract"); v != "" {
				return v, nil, w
			}
			p.StateElement = e.StateElement.Copy()
		}
		for i := range c.FileContractResolutions {
			p := &c.FileContractResolutions[i].Parent
			ef, af := Lf.V2FCEs[p.ID]
			e, at := Lt.V2FCEs[p.ID]
			if (af || at) && !(af && at && sameBody(ef.V2FileContract, p.V2FileContract) && sameBody(e.V2FileContract, p.V2FileContract)) {
				return "unjudged", nil, "contract revised or resolved on the way"
			}
			if v, w := judge(af, at, "contract"); v != "" {
				return v, nil, w
			}
			p.StateElement = e.StateElement.Copy()
			if sp, isSP := c.FileContractResolutions[i].Resolution.(*types.V2StorageProof); isSP {
				_, af := Lf.CIEs[sp.ProofIndex.ChainIndex]
				cie, at := Lt.CIEs[sp.ProofIndex.ChainIndex]
				if v, w := judge(af, at, "proof index"); v != "" {
					return v, nil, w
				}
				nsp := *sp
				nsp.ProofIndex = cie.Copy()
				c.FileContractResolutions[i].Resolution = &nsp
			}
		}
		id := c.ID()
		for i := range c.SiacoinOutputs {
			created[c.SiacoinOutputID(id, i)] = true
		}
		want = append(want, c)
	}
	return "ok", want, ""
}

func existedAtFork(u *univ.Universe, fp int, id types.SiacoinOutputID) bool {
	_, ok := u.Nodes[fp].L.SCEs[id]
	return ok
}

func deepCopySet(s []types.V2Transaction) []types.V2Transaction {
	out := make([]types.V2Transaction, len(s))
	for i := range s {
		out[i] = s[i].DeepCopy()
	}
	return out
}

func callRebase(n *node.Node, txns []types.V2Transaction, from, to types.ChainIndex) (res []types.V2Transaction, err error, pan any) {
	defer func() {
		if r := recover(); r != nil {
			pan = r
		}
	}()
	res, err = n.CM.UpdateV2TransactionSet(txns, from, to)
	return
}

type c13World struct {
	chainWorld
	applied map[int]bool
}

func (w *c13World) Clone() bfs.World {
	c := &c13World{applied: map[int]bool{}}
	c.u = w.u
	c.n = node.Open(w.u, w.n.DB.CloneDB())
	for k, v := range w.applied {
		c.applied[k] = v
	}
	c.hook()
	return c
}

func (w *c13World) hook() {
	w.n.Obs.Hook = func(applied bool, tip types.ChainIndex) {
		if k, ok := w.u.ByID[tip.ID]; ok && applied {
			w.applied[k] = true
		}
	}
}

var c13Stats struct {
	sync.Mutex
	calls, ok, errs, unjudged, corrupt int
}

func c13OnState(sets map[int][]rebaseSet) func(w bfs.World, hist []bfs.Op) (*bfs.Violation, bool) {
	return func(w0 bfs.World, hist []bfs.Op) (*bfs.Violation, bool) {
		w := w0.(*c13World)
		u, n := w.u, w.n
		var applied []int
		for k := range u.Nodes {
			if w.applied[k] {
				applied = append(applied, k)
			}
		}
		viol := func(sig, f string, a ...any) (*bfs.Violation, bool) {
			return &bfs.Violation{Signature: sig, What: fmt.Sprintf("%s: after %v: ", u.Describe(), histStrings(hist)) + fmt.Sprintf(f, a...)}, false
		}
		calls, oks, errs, unj, cor := 0, 0, 0, 0, 0
		for _, f := range applied {
			for _, s := range sets[f] {
				for _, t := range applied {
					calls++
					verdict, want, why := expectRebase(u, s, t)
					in := deepCopySet(s.txns)
					got, err, pan := callRebase(n, in, idxOf(u, f), idxOf(u, t))
					where := fmt.Sprintf("set %q from %s to %s", s.name, u.Nodes[f].Label+fmt.Sprint(f), u.Nodes[t].Label+fmt.Sprint(t))
					if pan != nil {
						return viol("c13:panic", "%s panicked: %v", where, pan)
					}
					switch verdict {
					case "unjudged":
						unj++
					case "error":
						errs++
						if err == nil {
							return viol("c13:missing-element-accepted", "%s: %s, but no error was returned", where, why)
						}
					case "ok":
						oks++
						if err != nil {
							return viol("c13:valid-rebase-rejected", "%s failed: %v", where, err)
						}
						if len(got) != len(want) {
							return viol("c13:result-length", "%s returned %d transactions, expected %d (confirmed ones removed)", where, len(got), len(want))
						}
						for i := range got {
							if got[i].ID() != want[i].ID() {
								return viol("c13:result-order", "%s: transaction %d is %v, expected %v", where, i, got[i].ID(), want[i].ID())
							}
							if !bytes.Equal(node.Enc(got[i]), node.Enc(want[i])) {
								return viol("c13:proof-differs-from-ledger", "%s: transaction %d (%v) carries state elements that differ from the ledger's at the target", where, i, got[i].ID())
							}
						}
						// the result must be a valid set at the target
						ms := consensus.NewMidState(u.Nodes[t].L.State)
						for i := range got {
							if verr := consensus.ValidateV2Transaction(ms, got[i]); verr != nil {
								// height-dependent rules (contract windows) can make a transaction invalid at another height; elements must verify though
								if eerr := u.Nodes[t].L.State.Elements.ValidateTransactionElements(got[i]); eerr != nil {
									return viol("c13:result-elements-invalid", "%s: transaction %d does not verify against the target accumulator: %v", where, i, eerr)
								}
								break
							}
							ms.ApplyV2Transaction(got[i])
						}
					}
					// corruptions of the proof / leaf index / basis: error, never panic
					if t != f && t == n.TipNode() && verdict == "ok" && len(s.txns[0].SiacoinInputs) > 0 && len(s.txns[0].SiacoinInputs[0].Parent.StateElement.MerkleProof) > 0 {
						for ci, corrupt := range []func([]types.V2Transaction){
							func(x []types.V2Transaction) { x[0].SiacoinInputs[0].Parent.StateElement.MerkleProof[0][3] ^= 0x20 },
							func(x []types.V2Transaction) { x[0].SiacoinInputs[0].Parent.StateElement.LeafIndex++ },
							func(x []types.V2Transaction) { x[0].SiacoinInputs[0].Parent.StateElement.LeafIndex = 1 << 40 },
							func(x []types.V2Transaction) {
								p := x[0].SiacoinInputs[0].Parent.StateElement.MerkleProof
								x[0].SiacoinInputs[0].Parent.StateElement.MerkleProof = p[:len(p)-1]
							},
						} {
							cor++
							bad := deepCopySet(s.txns)
							corrupt(bad)
							_, err, pan := callRebase(n, bad, idxOf(u, f), idxOf(u, t))
							if pan != nil {
								return viol("c13:panic:corrupt-proof", "%s with corruption %d panicked: %v", where, ci, pan)
							}
							if err == nil {
								return viol("c13:corrupt-proof-accepted", "%s with corruption %d of the first input's proof returned no error", where, ci)
							}
						}
					}
				}
				// unknown / never-applied basis
				for _, ghost := range []types.ChainIndex{{Height: 2, ID: types.BlockID{9, 9}}, {}} {
					_, err, pan := callRebase(n, deepCopySet(s.txns), ghost, n.CM.Tip())
					if pan != nil {
						return viol("c13:panic:unknown-basis", "set %q with unknown basis %v panicked: %v", s.name, ghost, pan)
					}
					if err == nil && ghost != n.CM.Tip() {
						return viol("c13:unknown-basis-accepted", "set %q with unknown basis %v returned no error", s.name, ghost)
					}
				}
			}
		}
		// a basis that is known but was never applied (header only)
		for k := 1; k < len(u.Nodes); k++ {
			if _, known := n.CM.State(u.Nodes[k].Block.ID()); known && !w.applied[k] && len(applied) > 0 {
				for _, s := range sets[applied[len(applied)-1]] {
					_, err, pan := callRebase(n, deepCopySet(s.txns), idxOf(u, s.from), idxOf(u, k))
					if pan != nil {
						return viol("c13:panic:unapplied-target", "set %q to never-applied block %d panicked: %v", s.name, k, pan)
					}
					if err == nil {
						return viol("c13:unapplied-target-accepted", "set %q rebased to a block that was never applied (%d) without error", s.name, k)
					}
					break
				}
			}
		}
		c13Stats.Lock()
		c13Stats.calls += calls
		c13Stats.ok += oks
		c13Stats.errs += errs
		c13Stats.unjudged += unj
		c13Stats.corrupt += cor
		c13Stats.Unlock()
		return nil, false
	}
}

// c13Line: a 150-block line for the supported-distance limit.
func c13Line() *bfs.Violation {
	u := univ.NewUniverse("line150", univ.RegimeV2)
	cur := 0
	for i := 0; i < 150; i++ {
		cur = u.Add(cur, 0, nil, nil, "")
	}
	n := node.New(u)
	if err := n.CM.AddBlocks(u.Blocks(u.PathTo(cur))); err != nil {
		return &bfs.Violation{Signature: "c13:line-setup", What: err.Error()}
	}
	for _, from := range []int{1, 5, 6, 7, 100} {
		sets := rebaseSets(u, from)
		for _, s := range sets[:1] {
			_, err, pan := callRebase(n, deepCopySet(s.txns), idxOf(u, from), idxOf(u, cur))
			dist := 150 - from
			if pan != nil {
				return &bfs.Violation{Signature: "c13:panic:long-path", What: fmt.Sprintf("rebasing over %d blocks panicked: %v", dist, pan)}
			}
			if dist > 145 && err == nil {
				return &bfs.Violation{Signature: "c13:long-path-accepted", What: fmt.Sprintf("rebasing over %d blocks (> supported distance) returned no error", dist)}
			}
			if dist <= 144 && err != nil {
				return &bfs.Violation{Signature: "c13:supported-distance-rejected", What: fmt.Sprintf("rebasing over %d blocks failed: %v", dist, err)}
			}
			// and back again (reverts)
			back := rebaseSets(u, cur)
			_, err, pan = callRebase(n, deepCopySet(back[0].txns), idxOf(u, cur), idxOf(u, from))
			if pan != nil {
				return &bfs.Violation{Signature: "c13:panic:long-path", What: fmt.Sprintf("rebasing back over %d blocks panicked: %v", dist, pan)}
			}
			if dist > 145 && err == nil {
				return &bfs.Violation{Signature: "c13:long-path-accepted", What: fmt.Sprintf("rebasing back over %d blocks returned no error", dist)}
			}
		}
	}
	return nil
}

func c13() {
	if os.Getenv("VERIF_C13_ONLY") == "extras" { // debugging aid
		c13Diamond()
		c13CrossVersion()
		c13CrossVersionReorg()
		c13StaleBasis()
		return
	}
	depth := 3
	if run.Thorough() {
		depth = 4
	}
	var jobs []*univ.Universe
	for _, reg := range []univ.Regime{univ.RegimeX, univ.RegimeV2} {
		jobs = append(jobs, buildPoolUniverse(reg).u)
		for _, s := range stories(reg) {
			if len(s.name) < 2 || s.name[:2] != "v2" && s.name[:2] != "x-" {
				continue
			}
			fs := []int{int(s.start), int(s.start) + 1}
			if run.Thorough() {
				fs = append(fs, int(s.start)-1, int(s.start)+2)
			}
			for _, f := range fs {
				for _, v := range []storyVariant{varShifted, varConflict} {
					u, _ := storyUniverse(reg, s, f, v, 1)
					jobs = append(jobs, u)
				}
			}
		}
	}
	for _, reg := range []univ.Regime{univ.RegimeX, univ.RegimeV2} {
		jobs = append(jobs, c13TwoParents(reg))
	}
	c13Diamond()
	c13CrossVersion()
	c13CrossVersionReorg()
	c13StaleBasis()
	if v := c13Line(); v != nil {
		run.Violate(v.Signature, v.What, map[string]any{"universe": "line150"})
	}
	parallel(len(jobs), func(i int) {
		if run.Expired() {
			run.Cap("time budget: not all universes explored")
			return
		}
		u := jobs[i]
		sets := map[int][]rebaseSet{}
		for k := range u.Nodes {
			sets[k] = append(rebaseSets(u, k), c13ExtraSets[u.Name][k]...)
		}
		ops := storyOps(u, false)
		res := bfs.Run(bfs.Config{
			New: func() bfs.World {
				w := &c13World{applied: map[int]bool{0: true}}
				w.u, w.n = u, node.New(u)
				w.hook()
				return w
			},
			Ops: func(bfs.World, int) []bfs.Op { return ops },
			Apply: func(w bfs.World, o bfs.Op, check bool) *bfs.Violation {
				_, pan := applySubmission(w.(*c13World).n, o)
				if pan != nil {
					return &bfs.Violation{Signature: "c13:panic:submit", What: fmt.Sprint(pan)}
				}
				return nil
			},
			OnState:   c13OnState(sets),
			MaxDepth:  depth,
			MaxStates: 400,
			Stop:      run.Expired,
		})
		run.Add(int64(res.States), int64(res.Transitions), int64(res.Transitions), 0)
		if len(res.Samples) > 0 && i%9 == 0 {
			run.Sample(map[string]any{"universe": u.Describe(), "history": histStrings(res.Samples[len(res.Samples)-1]), "sets_at_first_v2_node": len(sets[len(u.Nodes)/2])})
		}
		for _, v := range res.Violations {
			run.Violate(v.Signature, v.What, map[string]any{"universe": u.Describe(), "history": histStrings(v.History)})
		}
	})
	// V2TransactionSet on pooled children (needs the pool: replay-based exploration)
	poolExplore("C13", depth, false, func(w *poolWorld, hist []bfs.Op) *bfs.Violation {
		u, n := w.pu.u, w.n
		tip := n.CM.Tip()
		tipK := n.TipNode()
		for _, t := range n.CM.V2PoolTransactions() {
			arg := t.DeepCopy()
			snap := node.Enc(arg)
			basis, set, err := n.CM.V2TransactionSet(tip, arg)
			where := fmt.Sprintf("%s: after %v: V2TransactionSet(tip, %v)", u.Describe(), histStrings(hist), t.ID())
			if err != nil {
				return &bfs.Violation{Signature: "c13:txset-error", What: where + ": " + err.Error()}
			}
			if basis != tip {
				return &bfs.Violation{Signature: "c13:txset-basis", What: fmt.Sprintf("%s returned basis %v, tip is %v", where, basis, tip)}
			}
			if len(set) == 0 || set[len(set)-1].ID() != t.ID() {
				return &bfs.Violation{Signature: "c13:txset-last", What: where + ": the set does not end with the transaction itself"}
			}
			if !bytes.Equal(snap, node.Enc(arg)) {
				return &bfs.Violation{Signature: "c13:txset-modified-argument", What: where + " modified the caller's transaction"}
			}
			ms := consensus.NewMidState(u.Nodes[tipK].L.State)
			for i, x := range set {
				if verr := consensus.ValidateV2Transaction(ms, x); verr != nil {
					return &bfs.Violation{Signature: "c13:txset-order", What: fmt.Sprintf("%s: transaction %d of the returned set is not valid after the ones before it (parents must precede children): %v", where, i, verr)}
				}
				ms.ApplyV2Transaction(x)
			}
			c13Stats.Lock()
			c13Stats.calls++
			c13Stats.ok++
			c13Stats.Unlock()
		}
		return nil
	})
	run.Evaluations = int64(c13Stats.calls + c13Stats.corrupt)
	run.Extra["rebase_calls"] = c13Stats.calls
	run.Extra["expected_ok"] = c13Stats.ok
	run.Extra["expected_error"] = c13Stats.errs
	run.Extra["unjudged_input_spent_on_the_way"] = c13Stats.unjudged
	run.Extra["corrupted_calls"] = c13Stats.corrupt
	run.Extra["universes"] = len(jobs)
	run.Rule = "pool universes and v2 contract storylines (regimes x and v2): in every distinct node state reached by BFS over submissions, UpdateV2TransactionSet is called for every ordered pair (from,to) of indices the store holds supplements for and every set of the menu valid at 'from' (confirmed input, parent+ephemeral child, mixed, siafund, and every transaction some block of the universe confirms incl. contract formation/revision/renewal/storage proof/expiration); plus 4 proof/leaf-index corruptions per call, unknown and never-applied bases, a 150-block line for the distance limit, and V2TransactionSet for every pooled transaction in the replay-based pool exploration"
	run.Explanation = fmt.Sprintf("depth bound %d. Expected result from the reference ledger: the input set minus transactions confirmed on the apply side, same order, every state element byte-equal to the ledger's at the target (ephemeral inputs confirmed on the way included) and valid as a set at the target; elements that do not exist at the target must yield an error; inputs spent on the way are not judged.", depth)
	run.Assumptions = []string{"UpdateV2TransactionSet is documented to possibly modify its argument; argument preservation is only checked for AddV2PoolTransactions (C14) and V2TransactionSet"}
	_ = ledger.Ledger{}
}
