package main

import (
	"fmt"
	"os"
	"strings"
	"sync"
	"time"

	"go.sia.tech/coreutils/vtime"
	"verif/internal/bfs"
	"verif/internal/node"
	"verif/internal/recdb"
	"verif/internal/univ"
)

// c03: every durable commit point reopens to a consistent chain and catches up.
//
// chain/db.go is compiled against vtime, whose Since() is answered by the harness: ">= 5 s" on every
// call, so the store's own size/time flush fires after every individual block apply/revert (and at any
// other place a change might have added a shouldFlush-guarded commit). The recording DB snapshots the
// committed image at every Flush it receives. Because an image is the cumulative write set up to that
// boundary, the all-indices run yields every image any flush pattern can produce.
type image struct {
	img recdb.Image
	seq int
}

func c03() {
	vtime.SetSince(func(time.Time) time.Duration { return time.Hour })
	defer vtime.SetSince(nil)
	depth := 2
	if run.Thorough() {
		depth = 3
	}
	all, shared, _ := c02Universes()
	var jobs []*univ.Universe
	for _, u := range all {
		if shared[u.Name+string(u.Regime)] {
			continue // the known expiration-order finding (C02) lives there; a mismatch here must not be excusable by it
		}
		jobs = append(jobs, u)
	}
	// invalid-tail forks: the branch (one block longer than the main path) ends in a block that is
	// invalid on a valid parent - at the branch tip, or (thorough) one below it with a header-only block on top.
	// Adopting the branch applies the valid prefix, fails, and is rolled back by a second reorg; every
	// apply/revert of both reorgs is a commit boundary.
	invalidTail := map[*univ.Universe]bool{}
	nValidJobs := len(jobs)
	for _, u := range jobs[:nValidJobs] {
		if !strings.Contains(u.Name, "/empty/+1") && !(run.Thorough() && strings.Contains(u.Name, "/conflict/+1")) {
			continue
		}
		last := len(u.Nodes) - 1 // branch nodes are added last
		for _, k := range []int{last, u.Nodes[last].Parent} {
			if k != last && !run.Thorough() {
				continue
			}
			if k == 0 || u.Nodes[k].Label[0] != 'b' {
				continue
			}
			// a corruption that passes the header/orphan checks, so that the block is stored and the reorg
			// is attempted: an extra transaction with a bad signature (v1 or v2, whichever the height allows)
			for _, kind := range []string{"bad-v2-signature", "bad-signature"} {
				if cu, ok := univ.Corrupt(u, k, kind); ok && cu.Nodes[k].HeaderOK {
					invalidTail[cu] = true
					jobs = append(jobs, cu)
					break
				}
			}
		}
	}
	if os.Getenv("VERIF_C03_ONLY") == "invalidtail" { // debugging aid
		jobs = jobs[nValidJobs:]
	}
	var mu sync.Mutex
	images, distinctImages := 0, 0
	failedReorgHits, failedReorgFirst := 0, ""
	parallel(len(jobs), func(i int) {
		if run.Expired() {
			run.Cap("time budget: not all universes explored")
			return
		}
		u := jobs[i]
		tw := &twins{u: u, memo: map[int]map[string]string{}}
		ops := storyOps(u, false)
		seenImg := map[[32]byte]bool{}
		// tips the node passed through, per world, are tracked through the store observer
		res := bfs.Run(bfs.Config{
			New: func() bfs.World { return newChainWorld(u) },
			Ops: func(bfs.World, int) []bfs.Op { return ops },
			Apply: func(w bfs.World, o bfs.Op, check bool) *bfs.Violation {
				cw := w.(*chainWorld)
				n := cw.n
				if !check {
					applySubmission(n, o)
					cw.hist = append(cw.hist, o)
					return nil
				}
				var imgs []recdb.Image
				var tipsAt []int
				passed := map[int]bool{n.TipNode(): true}
				n.Obs.Hook = func(applied bool, tip typesChainIndex) {
					if k, ok := u.ByID[tip.ID]; ok {
						passed[k] = true
					}
				}
				n.DB.OnFlush = func(img recdb.Image) {
					imgs = append(imgs, img)
					tipsAt = append(tipsAt, -1)
				}
				opErr, pan := applySubmission(n, o)
				n.DB.OnFlush, n.Obs.Hook = nil, nil
				cw.hist = append(cw.hist, o)
				if pan != nil {
					return &bfs.Violation{Signature: "c03:panic", What: fmt.Sprintf("%s: %v panicked: %v", u.Describe(), o, pan)}
				}
				finalTip := n.TipNode()
				finalDump, err := n.CanonDump()
				if err != nil {
					return &bfs.Violation{Signature: "c03:final-dump", What: err.Error()}
				}
				mu.Lock()
				images += len(imgs)
				mu.Unlock()
				for j, img := range imgs {
					db := recdb.FromImage(img)
					key := db.Hash()
					dedup := [32]byte{}
					copy(dedup[:], key[:])
					dedup[0] ^= byte(finalTip)
					dedup[1] ^= byte(len(cw.hist))
					if seenImg[dedup] {
						continue
					}
					seenImg[dedup] = true
					mu.Lock()
					distinctImages++
					mu.Unlock()
					where := fmt.Sprintf("%s: history %v, commit %d of %d during the last op", u.Describe(), histStrings(cw.hist), j+1, len(imgs))
					rn, v := reopen(u, db, where)
					if v != nil {
						return v
					}
					rt := rn.TipNode()
					if rt >= 0 && !u.Nodes[rt].Valid {
						return &bfs.Violation{Signature: "c03:reopened-at-invalid-block", What: fmt.Sprintf("%s: reopened tip %s is an invalid block", where, u.Nodes[rt].Label)}
					}
					if rt < 0 || !passed[rt] {
						return &bfs.Violation{Signature: "c03:reopened-tip-never-held", What: fmt.Sprintf("%s: reopened tip %v is not a tip the node had passed through (%v)", where, rn.CM.Tip(), passed)}
					}
					if err := rn.Audit(); err != nil {
						return &bfs.Violation{Signature: "c03:reopened-audit", What: fmt.Sprintf("%s: reopened at %s: %v", where, u.Nodes[rt].Label, err)}
					}
					got, err := rn.CanonDump()
					if err != nil {
						return &bfs.Violation{Signature: "c03:reopened-inconsistent", What: fmt.Sprintf("%s: reopened at %s: %v", where, u.Nodes[rt].Label, err)}
					}
					if d := node.DiffDumps(got, tw.dump(rt)); len(d) > 0 {
						return &bfs.Violation{Signature: "c03:reopened-differs-from-linear:" + bucketOf(d[0]), What: fmt.Sprintf("%s: reopened at %s: store differs from a linear node in %d keys, first %v", where, u.Nodes[rt].Label, len(d), head(d, 3))}
					}
					// catch-up: resubmit the whole submission history
					for _, h := range cw.hist {
						if _, pan := applySubmission(rn, h); pan != nil {
							return &bfs.Violation{Signature: "c03:catchup-panic", What: fmt.Sprintf("%s: resubmitting %v after reopening at %s panicked: %v", where, h, u.Nodes[rt].Label, pan)}
						}
					}
					if os.Getenv("VERIF_DEBUG") != "" && invalidTail[u] && rt != finalTip {
						fmt.Printf("DBG %s hist=%v image %d/%d reopened=%s final=%s catchup=%s\n", u.Name, histStrings(cw.hist), j+1, len(imgs), u.Nodes[rt].Label, u.Nodes[finalTip].Label, u.Nodes[rn.TipNode()].Label)
					}
					if ct := rn.TipNode(); ct != finalTip && invalidTail[u] && opErr != nil && ct >= 0 && u.Nodes[ct].Valid && passed[ct] && !u.IsAncestor(ct, finalTip) &&
						!u.Nodes[finalTip].L.State.SufficientlyHeavierThan(u.Nodes[ct].L.State) {
						// recorded finding: the commit was taken inside a reorg that later failed (the submission
						// returned an error) and was rolled back. The reopened node keeps a valid prefix of the
						// failed branch; the tip the uninterrupted node rolled back to is not sufficiently heavier
						// than that prefix, so resubmitting the history cannot move the reopened node there
						// (collected and reported once; the remaining images of this transition are still checked)
						mu.Lock()
						failedReorgHits++
						if failedReorgFirst == "" {
							failedReorgFirst = fmt.Sprintf("%s: after reopening at %s and resubmitting the history the tip is %s, uninterrupted run ended at %s", where, u.Nodes[rt].Label, u.Nodes[ct].Label, u.Nodes[finalTip].Label)
						}
						mu.Unlock()
						if err := rn.Audit(); err != nil {
							return &bfs.Violation{Signature: "c03:catchup-audit", What: fmt.Sprintf("%s: after catching up at %s: %v", where, u.Nodes[ct].Label, err)}
						}
						if got, err := rn.CanonDump(); err != nil {
							return &bfs.Violation{Signature: "c03:catchup-inconsistent", What: fmt.Sprintf("%s: %v", where, err)}
						} else if d := node.DiffDumps(got, tw.dump(ct)); len(d) > 0 {
							return &bfs.Violation{Signature: "c03:catchup-differs:" + bucketOf(d[0]), What: fmt.Sprintf("%s: after reopening at %s and catching up to %s, store differs from a linear node in %d keys, first %v", where, u.Nodes[rt].Label, u.Nodes[ct].Label, len(d), head(d, 3))}
						}
						continue
					}
					if rn.TipNode() != finalTip {
						return &bfs.Violation{Signature: "c03:catchup-tip", What: fmt.Sprintf("%s: after reopening at %s and resubmitting the history the tip is %v, uninterrupted run ended at %s", where, u.Nodes[rt].Label, rn.CM.Tip(), u.Nodes[finalTip].Label)}
					}
					got, err = rn.CanonDump()
					if err != nil {
						return &bfs.Violation{Signature: "c03:catchup-inconsistent", What: fmt.Sprintf("%s: %v", where, err)}
					}
					if d := node.DiffDumps(got, finalDump); len(d) > 0 {
						return &bfs.Violation{Signature: "c03:catchup-differs:" + bucketOf(d[0]), What: fmt.Sprintf("%s: after reopening at %s and catching up, store differs from the uninterrupted run in %d keys, first %v", where, u.Nodes[rt].Label, len(d), head(d, 3))}
					}
				}
				return nil
			},
			MaxDepth:  depth,
			MaxStates: 20000,
			Stop:      run.Expired,
		})
		run.Add(int64(res.States), int64(res.Transitions), int64(res.Transitions), int64(res.Transitions))
		if len(res.Samples) > 0 && i%37 == 0 {
			run.Sample(map[string]any{"universe": u.Describe(), "history": histStrings(res.Samples[len(res.Samples)-1]), "states": res.States})
		}
		for _, v := range res.Violations {
			run.Violate(v.Signature, v.What, map[string]any{"universe": u.Describe(), "history": histStrings(v.History)})
		}
	})
	if failedReorgHits > 0 {
		run.Violate("c03:catchup-tip:commit-inside-failed-reorg-keeps-valid-prefix", fmt.Sprintf("%d commit images; first: %s", failedReorgHits, failedReorgFirst), map[string]any{"images": failedReorgHits})
	}
	run.Extra["images_inside_failed_reorg_keeping_valid_prefix"] = failedReorgHits
	run.Evaluations = int64(images)
	run.DistinctN = int64(distinctImages)
	run.Extra["commit_images"] = images
	run.Extra["distinct_images_reopened"] = distinctImages
	run.Extra["universes"] = len(jobs)
	run.Extra["universes_with_invalid_tail"] = len(invalidTail)
	run.Rule = "for every transition of the C02 exploration (storyline universes without shared window ends, submission ops 'upto(k)', depth bound below) the store's time-based flush is forced after every single block apply/revert; every committed image is reopened (NewDBStore+NewManager), must reopen to a tip the node held, pass the best-chain audit, equal a linear node's store for that tip, and after resubmitting the whole history reach the uninterrupted run's tip and store; distinct = distinct (image, history length, final tip) triples"
	run.Explanation = fmt.Sprintf("depth bound %d. Commit boundaries = every shouldFlush() call site reached (forced true through the vtime seam in chain/db.go) plus the end-of-reorg flush.", depth)
	run.Assumptions = []string{"torn writes below the chain.DB abstraction are out of scope (bbolt's atomic commit is trusted)", "shared-window-end storylines are excluded here because of the recorded C02 finding"}
}

func bucketOf(k string) string {
	for i := range k {
		if k[i] == '/' {
			return k[:i]
		}
	}
	return k
}

func reopen(u *univ.Universe, db *recdb.DB, where string) (n *node.Node, v *bfs.Violation) {
	defer func() {
		if r := recover(); r != nil {
			v = &bfs.Violation{Signature: "c03:reopen-panic", What: fmt.Sprintf("%s: reopening panicked: %v", where, r)}
		}
	}()
	n, err := node.TryOpen(u, db)
	if err != nil {
		return nil, &bfs.Violation{Signature: "c03:reopen-error", What: fmt.Sprintf("%s: reopening failed: %v", where, err)}
	}
	return n, nil
}
