package main

import (
	"fmt"
	"sync"

	"go.sia.tech/core/types"
	"go.sia.tech/coreutils/chain"
	"verif/internal/bfs"
	"verif/internal/ledger"
	"verif/internal/node"
	"verif/internal/univ"
)

type pollOp struct {
	Poll int `json:"poll"` // chunk size
}

func (o pollOp) String() string { return fmt.Sprintf("poll(%d)", o.Poll) }

// subWorld: node + one persistent subscriber that folds a shadow ledger from nothing but the updates.
type subWorld struct {
	u       *univ.Universe
	n       *node.Node
	idx     types.ChainIndex
	shadow  *ledger.Ledger
	applied map[int]bool // universe nodes that have been applied at some point (the store holds their supplement)
	reorgs  *int         // OnReorg invocations observed on this node instance
}

func newSubWorld(u *univ.Universe) *subWorld {
	w := &subWorld{u: u, n: node.New(u), shadow: ledger.New(u.Net), applied: map[int]bool{0: true}}
	w.hook()
	return w
}

func (w *subWorld) hook() {
	c := 0
	w.reorgs = &c
	w.n.CM.OnReorg(func(types.ChainIndex) { c++ })
	w.n.Obs.Hook = func(applied bool, tip types.ChainIndex) {
		if k, ok := w.u.ByID[tip.ID]; ok && applied {
			w.applied[k] = true
		}
	}
}

func (w *subWorld) Key() [32]byte {
	k := w.n.Key(false)
	for i, b := range w.idx.ID {
		k[i] ^= b
	}
	k[0] ^= byte(w.idx.Height + 1)
	return k
}

func (w *subWorld) Clone() bfs.World {
	c := &subWorld{u: w.u, n: node.Open(w.u, w.n.DB.CloneDB()), idx: w.idx, shadow: w.shadow.Clone(), applied: map[int]bool{}}
	for k, v := range w.applied {
		c.applied[k] = v
	}
	c.hook()
	return c
}

// follow applies one UpdatesSince chunk to (idx, shadow) and checks path contiguity.
func follow(n *node.Node, idx types.ChainIndex, shadow *ledger.Ledger, max int) (types.ChainIndex, int, error, string) {
	rus, aus, err := n.CM.UpdatesSince(idx, max)
	if err != nil {
		return idx, 0, err, ""
	}
	if len(rus)+len(aus) > max {
		return idx, 0, nil, fmt.Sprintf("UpdatesSince(%v,%d) returned %d updates", idx, max, len(rus)+len(aus))
	}
	cur := idx
	for i, ru := range rus {
		if ru.Block.ID() != cur.ID {
			return idx, 0, nil, fmt.Sprintf("revert %d is block %v but the subscriber is at %v", i, ru.Block.ID(), cur)
		}
		if ru.State.Index.ID != ru.Block.ParentID || ru.State.Index.Height+1 != cur.Height {
			return idx, 0, nil, fmt.Sprintf("revert %d carries state %v, not the parent of %v", i, ru.State.Index, cur)
		}
		shadow.RevertDiffs(ru.RevertUpdate, ru.State)
		cur = ru.State.Index
	}
	for i, au := range aus {
		first := cur == (types.ChainIndex{})
		if !first && (au.Block.ParentID != cur.ID || au.State.Index.Height != cur.Height+1) {
			return idx, 0, nil, fmt.Sprintf("apply %d (%v) does not extend %v", i, au.State.Index, cur)
		}
		if first && au.State.Index.Height != 0 {
			return idx, 0, nil, fmt.Sprintf("first apply from nothing is %v, not genesis", au.State.Index)
		}
		if au.State.Index.ID != au.Block.ID() {
			return idx, 0, nil, fmt.Sprintf("apply %d: state index %v is not the block's id", i, au.State.Index)
		}
		if bi, ok := n.CM.BestIndex(au.State.Index.Height); !ok || bi != au.State.Index {
			return idx, 0, nil, fmt.Sprintf("apply %d (%v) is not on the best chain", i, au.State.Index)
		}
		if first {
			shadow.GenTS = au.Block.Timestamp
		}
		shadow.ApplyDiffs(au.ApplyUpdate, au.State)
		cur = au.State.Index
	}
	if len(rus) > 0 && len(aus) > 0 {
		// reverts must end at the fork point: the first apply extends it (checked above)
	}
	return cur, len(rus) + len(aus), nil, ""
}

func shadowMatches(u *univ.Universe, idx types.ChainIndex, shadow *ledger.Ledger) string {
	k, ok := u.ByID[idx.ID]
	if !ok {
		return fmt.Sprintf("subscriber ended at unknown index %v", idx)
	}
	ref := u.Nodes[k].L
	if ref == nil {
		return fmt.Sprintf("subscriber ended at invalid block %v", idx)
	}
	if got, want := shadow.Canon(true), ref.CanonCached(); got != want {
		return fmt.Sprintf("ledger folded from the updates differs from the replayed ledger at %s (%v):\n got %s\nwant %s", u.Nodes[k].Label, idx, firstDiffLine(got, want), firstDiffLine(want, got))
	}
	if err := shadow.VerifyProofs(); err != nil {
		return fmt.Sprintf("proof folded from the updates does not verify at %v: %v", idx, err)
	}
	return ""
}

func firstDiffLine(a, b string) string {
	la, lb := splitLines(a), map[string]bool{}
	for _, l := range splitLines(b) {
		lb[l] = true
	}
	for _, l := range la {
		if !lb[l] {
			if len(l) > 160 {
				l = l[:160]
			}
			return l
		}
	}
	return "(subset)"
}

func splitLines(s string) []string {
	var out []string
	st := 0
	for i := range s {
		if s[i] == '\n' {
			out = append(out, s[st:i])
			st = i + 1
		}
	}
	return out
}

func c04Apply(w bfs.World, o bfs.Op, check bool) (v *bfs.Violation) {
	sw := w.(*subWorld)
	u, n := sw.u, sw.n
	defer func() {
		if r := recover(); r != nil {
			v = &bfs.Violation{Signature: "c04:panic", What: fmt.Sprintf("%s: %v panicked: %v", u.Describe(), o, r)}
		}
	}()
	switch op := o.(type) {
	case pollOp:
		tip := n.CM.Tip()
		idx, cnt, err, bad := follow(n, sw.idx, sw.shadow, op.Poll)
		if bad != "" {
			return &bfs.Violation{Signature: "c04:path", What: fmt.Sprintf("%s: subscriber at %v, %v: %s", u.Describe(), sw.idx, o, bad)}
		}
		if err != nil {
			return &bfs.Violation{Signature: "c04:updates-error", What: fmt.Sprintf("%s: subscriber at %v (an index it reached through the stream): %v failed: %v", u.Describe(), sw.idx, o, err)}
		}
		if cnt < op.Poll && idx != tip {
			return &bfs.Violation{Signature: "c04:short-chunk", What: fmt.Sprintf("%s: %v from %v returned %d updates and stopped at %v, tip is %v", u.Describe(), o, sw.idx, cnt, idx, tip)}
		}
		sw.idx = idx
		if check {
			if bad := shadowMatches(u, sw.idx, sw.shadow); bad != "" {
				return &bfs.Violation{Signature: "c04:shadow-ledger", What: fmt.Sprintf("%s: after %v: %s", u.Describe(), o, bad)}
			}
		}
	default:
		before := n.CM.Tip()
		c0 := *sw.reorgs
		_, pan := applySubmission(n, o)
		if pan != nil {
			return &bfs.Violation{Signature: "c04:panic", What: fmt.Sprintf("%s: %v panicked: %v", u.Describe(), o, pan)}
		}
		if !check {
			return nil
		}
		delta := *sw.reorgs - c0
		changed := n.CM.Tip() != before
		if changed && delta != 1 || !changed && delta != 0 {
			return &bfs.Violation{Signature: fmt.Sprintf("c04:reorg-notifications:changed=%v:n=%d", changed, delta), What: fmt.Sprintf("%s: %v: tip changed=%v but OnReorg fired %d times", u.Describe(), o, changed, delta)}
		}
	}
	return nil
}

// c04OnState: one-shot catch-up from every index of the universe and from nothing.
func c04OnState(w bfs.World, hist []bfs.Op) (*bfs.Violation, bool) {
	sw := w.(*subWorld)
	u, n := sw.u, sw.n
	tip := n.CM.Tip()
	starts := []int{-1}
	for k := range u.Nodes {
		starts = append(starts, k)
	}
	for _, k := range starts {
		var idx types.ChainIndex
		shadow := ledger.New(u.Net)
		if k >= 0 {
			idx = types.ChainIndex{Height: u.Nodes[k].Height, ID: u.Nodes[k].Block.ID()}
			if u.Nodes[k].L == nil {
				continue
			}
			shadow = u.Nodes[k].L.Clone()
		}
		for _, chunk := range []int{1000, 2} {
			if chunk == 2 && k >= 0 && idx != sw.idx {
				continue // small chunks only from nothing and from the persistent subscriber's index
			}
			var v *bfs.Violation
			func() {
				defer func() {
					if r := recover(); r != nil {
						v = &bfs.Violation{Signature: "c04:panic:catchup", What: fmt.Sprintf("%s: after %v: UpdatesSince(%v) panicked: %v", u.Describe(), histStrings(hist), idx, r)}
					}
				}()
				cur, sh := idx, shadow.Clone()
				for steps := 0; steps < 64; steps++ {
					next, cnt, err, bad := follow(n, cur, sh, chunk)
					if bad != "" {
						v = &bfs.Violation{Signature: "c04:path", What: fmt.Sprintf("%s: after %v: catch-up from %v chunk %d: %s", u.Describe(), histStrings(hist), idx, chunk, bad)}
						return
					}
					if err != nil {
						if k < 0 || sw.applied[k] {
							v = &bfs.Violation{Signature: "c04:updates-error", What: fmt.Sprintf("%s: after %v: catch-up from %v (held with supplement) failed: %v", u.Describe(), histStrings(hist), idx, err)}
						}
						return
					}
					if k >= 0 && !sw.applied[k] {
						v = &bfs.Violation{Signature: "c04:updates-from-unapplied-index", What: fmt.Sprintf("%s: after %v: UpdatesSince(%v) succeeded although that block was never applied (no supplement)", u.Describe(), histStrings(hist), idx)}
						return
					}
					cur = next
					if cnt < chunk || cur == tip {
						break
					}
				}
				if cur != tip {
					v = &bfs.Violation{Signature: "c04:does-not-reach-tip", What: fmt.Sprintf("%s: after %v: catch-up from %v chunk %d ended at %v, tip %v", u.Describe(), histStrings(hist), idx, chunk, cur, tip)}
					return
				}
				if bad := shadowMatches(u, cur, sh); bad != "" {
					v = &bfs.Violation{Signature: "c04:shadow-ledger", What: fmt.Sprintf("%s: after %v: catch-up from %v chunk %d: %s", u.Describe(), histStrings(hist), idx, chunk, bad)}
				}
			}()
			if v != nil {
				return v, false
			}
		}
	}
	// an index the store has never seen must yield an error
	ghost := types.ChainIndex{Height: 1, ID: types.BlockID{0xde, 0xad}}
	if _, _, err := n.CM.UpdatesSince(ghost, 10); err == nil {
		return &bfs.Violation{Signature: "c04:updates-from-unknown-index", What: fmt.Sprintf("%s: UpdatesSince(unknown index) returned no error", u.Describe())}, false
	}
	return nil, false
}

func c04() {
	depth := 3
	if run.Thorough() {
		depth = 4
	}
	all, shared, _ := c02Universes()
	var jobs []*univ.Universe
	for _, u := range all {
		if !shared[u.Name+string(u.Regime)] {
			jobs = append(jobs, u)
		}
	}
	if !run.Thorough() {
		var sub []*univ.Universe
		for i, u := range jobs {
			if i%3 == 0 {
				sub = append(sub, u)
			}
		}
		jobs = sub
	}
	// universes with one body-invalid block in the middle of a heavier fork: failed reorgs must not notify
	for _, reg := range []univ.Regime{univ.RegimeV1, univ.RegimeX, univ.RegimeV2} {
		for si, sh := range univ.Shapes(3) {
			base := shapeUniverse(reg, sh, trunkFor(reg), fmt.Sprintf("shape3.%d", si))
			for k := 1 + trunkFor(reg); k < len(base.Nodes); k++ {
				for _, kind := range []string{"bad-signature", "double-spend", "v2-wrong-commitment", "v2-double-spend"} {
					if cu, ok := univ.Corrupt(base, k, kind); ok && cu.Nodes[k].HeaderOK {
						jobs = append(jobs, cu)
					}
				}
			}
		}
	}
	c04Races()
	var mu sync.Mutex
	fix := 0
	parallel(len(jobs), func(i int) {
		if run.Expired() {
			run.Cap("time budget: not all universes explored")
			return
		}
		u := jobs[i]
		ops := storyOps(u, len(u.Nodes) < 8)
		for _, c := range []int{1, 2, 3, 1000} {
			ops = append(ops, pollOp{c})
		}
		res := bfs.Run(bfs.Config{
			New:       func() bfs.World { return newSubWorld(u) },
			Ops:       func(bfs.World, int) []bfs.Op { return ops },
			Apply:     c04Apply,
			OnState:   c04OnState,
			MaxDepth:  depth,
			MaxStates: 3000,
			Stop:      run.Expired,
		})
		run.Add(int64(res.States), int64(res.Transitions), int64(res.Transitions), int64(res.Transitions))
		mu.Lock()
		if res.Complete {
			fix++
		}
		mu.Unlock()
		if len(res.Samples) > 0 && i%29 == 0 {
			run.Sample(map[string]any{"universe": u.Describe(), "history": histStrings(res.Samples[len(res.Samples)-1]), "states": res.States})
		}
		for _, v := range res.Violations {
			run.Violate(v.Signature, v.What, map[string]any{"universe": u.Describe(), "history": histStrings(v.History)})
		}
	})
	run.DistinctN = run.States
	run.Extra["universes"] = len(jobs)
	run.Rule = "storyline universes (C02 set without shared window ends) x BFS over {submit path up to node k} and {poll(chunk) for chunk in 1,2,3,1000} of one persistent subscriber that starts from nothing and continues from wherever earlier polls left it (stale branches after reorgs included); in every distinct state additionally a one-shot catch-up from every block index of the universe (applied ones must succeed, never-applied/unknown ones must error) with chunk 2 and 1000; distinct = distinct (node state, subscriber index) pairs"
	run.Explanation = fmt.Sprintf("depth bound %d, state cap 3000 per universe; oracles: path contiguity, count <= max, short only at the tip, applies on the best chain, ledger folded from the updates (diffs + UpdateElementProof) equals the independently replayed ledger at the subscriber's index incl. leaf indices and Merkle proofs, every proof verifies against that index's accumulator, OnReorg fires exactly once per tip change. Concurrent part: see extra.races.", depth)
	run.Assumptions = []string{"go.sia.tech/core trusted", "AddValidatedV2Blocks is not part of this alphabet (it stores blocks with an empty supplement before they are applied)"}
	_ = chain.ErrMissingBlock
}
