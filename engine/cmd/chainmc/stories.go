package main

import (
	"fmt"

	"go.sia.tech/core/types"
	"verif/internal/ledger"
	"verif/internal/univ"
)

// stepCtx is what a storyline step sees: the ledger of the parent block and the child height.
type stepCtx struct {
	l   *ledger.Ledger
	h   uint64 // height of the block being built
	as  [4]univ.Actor
	alt bool // build the conflicting variant of this step
	mem map[string]any
}

func (c *stepCtx) v2() bool { return c.h >= c.l.State.Network.HardforkV2.AllowHeight }

type step func(c *stepCtx) ([]types.Transaction, []types.V2Transaction)

// story is a named list of steps; step i goes into the block at height start+i.
type story struct {
	name   string
	start  uint64
	steps  []step
	// shared: a recorded C02 finding lives here (several v1 contracts sharing a window end: expiration order;
	// one block revising and resolving the same v1 contract: proofs after its revert). C02 explores these
	// storylines and reports the findings; C03, C04 and C06 leave them out so that nothing there can be
	// excused by them.
	shared bool
}

func dst(c *stepCtx, normal, alt int) types.Address {
	if c.alt {
		return c.as[alt].Addr
	}
	return c.as[normal].Addr
}

// --- siacoin / siafund stories (v1 or v2 depending on the height) ---

func scSpend(from, to, altTo int, pick int) step {
	return func(c *stepCtx) ([]types.Transaction, []types.V2Transaction) {
		own := univ.OwnedSC(c.l, c.as[from].Addr)
		if len(own) <= pick {
			return nil, nil
		}
		if c.v2() {
			return nil, []types.V2Transaction{univ.V2Spend(c.l.State, c.as[from], own[pick], dst(c, to, altTo), univ.SC(3), univ.SC(1))}
		}
		return []types.Transaction{univ.V1Spend(c.l.State, c.as[from], own[pick], dst(c, to, altTo), univ.SC(3), univ.SC(1))}, nil
	}
}

// scEphemeral: parent and child in the same block (child spends an output created by the parent).
func scEphemeral(from, to, altTo int) step {
	return func(c *stepCtx) ([]types.Transaction, []types.V2Transaction) {
		own := univ.OwnedSC(c.l, c.as[from].Addr)
		if len(own) == 0 {
			return nil, nil
		}
		a := c.as[from]
		if c.v2() {
			p := univ.V2Spend(c.l.State, a, own[0], a.Addr, univ.SC(7), univ.SC(1))
			ch := univ.V2Spend(c.l.State, a, univ.Ephemeral(p, 0), dst(c, to, altTo), univ.SC(2), univ.SC(1))
			return nil, []types.V2Transaction{p, ch}
		}
		p := univ.V1Spend(c.l.State, a, own[0], a.Addr, univ.SC(7), univ.SC(1))
		ch := univ.V1SpendID(c.l.State, a, p.SiacoinOutputID(0), univ.SC(7), dst(c, to, altTo), univ.SC(2), univ.SC(1))
		return []types.Transaction{p, ch}, nil
	}
}

func sfSpend(from, to, altTo int) step { return sfSpendClaim(from, to, altTo, from) }

// sfSpendClaim moves a siafund output; the accumulated claim is paid to role claim.
func sfSpendClaim(from, to, altTo, claim int) step {
	return func(c *stepCtx) ([]types.Transaction, []types.V2Transaction) {
		own := univ.OwnedSF(c.l, c.as[from].Addr)
		if len(own) == 0 {
			return nil, nil
		}
		if c.v2() {
			return nil, []types.V2Transaction{univ.V2SiafundSpend(c.l.State, c.as[from], own[0], dst(c, to, altTo), c.as[claim].Addr)}
		}
		return []types.Transaction{univ.V1SiafundSpend(c.l.State, c.as[from], own[0], dst(c, to, altTo), c.as[claim].Addr)}, nil
	}
}

// --- v1 contract stories ---

func v1Form(n int, ws, we uint64, leaf bool) step {
	return func(c *stepCtx) ([]types.Transaction, []types.V2Transaction) {
		own := univ.OwnedSC(c.l, c.as[1].Addr)
		var txns []types.Transaction
		for i := 0; i < n && i < len(own); i++ {
			var root types.Hash256
			var size uint64
			if leaf {
				root, size = univ.V1LeafRoot(), 64
			}
			salt := uint64(i)
			if c.alt {
				salt += 10
			}
			t, _ := univ.V1Contract(c.l.State, c.as[1], c.as[2], own[i], ws, we, size, root, salt)
			txns = append(txns, t)
			c.mem[fmt.Sprintf("fc%d", i)] = t.FileContractID(0)
		}
		return txns, nil
	}
}

func v1Revise(i int, ws, we uint64) step {
	return func(c *stepCtx) ([]types.Transaction, []types.V2Transaction) {
		id, ok := c.mem[fmt.Sprintf("fc%d", i)].(types.FileContractID)
		fce, ok2 := c.l.FCEs[id]
		if !ok || !ok2 {
			return nil, nil
		}
		rev := fce.FileContract.RevisionNumber + 1
		if c.alt {
			rev += 5
		}
		return []types.Transaction{univ.V1Revision(c.l.State, c.as[1], fce, ws, we, rev)}, nil
	}
}

func v1Proof(i, altI int) step {
	return func(c *stepCtx) ([]types.Transaction, []types.V2Transaction) {
		k := i
		if c.alt {
			k = altI
		}
		if k < 0 {
			return nil, nil
		}
		id, ok := c.mem[fmt.Sprintf("fc%d", k)].(types.FileContractID)
		if _, ok2 := c.l.FCEs[id]; !ok || !ok2 {
			return nil, nil
		}
		return []types.Transaction{univ.V1StorageProof(id)}, nil
	}
}

// --- v2 contract stories ---

func v2Form(dp, de uint64) step {
	return func(c *stepCtx) ([]types.Transaction, []types.V2Transaction) {
		own := univ.OwnedSC(c.l, c.as[1].Addr)
		if len(own) == 0 || !c.v2() {
			return nil, nil
		}
		salt := uint64(0)
		if c.alt {
			salt = 9
		}
		t, _ := univ.V2Contract(c.l.State, c.as[1], c.as[2], own[0], c.h+dp, c.h+de, salt)
		c.mem["v2fc"] = t.V2FileContractID(t.ID(), 0)
		return nil, []types.V2Transaction{t}
	}
}

func v2fce(c *stepCtx) (types.V2FileContractElement, bool) {
	id, ok := c.mem["v2fc"].(types.FileContractID)
	e, ok2 := c.l.V2FCEs[id]
	return e, ok && ok2
}

func v2Revise() step {
	return func(c *stepCtx) ([]types.Transaction, []types.V2Transaction) {
		e, ok := v2fce(c)
		if !ok {
			return nil, nil
		}
		rev := e.V2FileContract.RevisionNumber + 1
		if c.alt {
			rev += 7
		}
		return nil, []types.V2Transaction{univ.V2Revision(c.l.State, c.as[1], c.as[2], e, rev)}
	}
}

func v2Renew() step {
	return func(c *stepCtx) ([]types.Transaction, []types.V2Transaction) {
		e, ok := v2fce(c)
		own := univ.OwnedSC(c.l, c.as[1].Addr)
		if !ok || len(own) == 0 {
			return nil, nil
		}
		if c.alt {
			return nil, []types.V2Transaction{univ.V2Revision(c.l.State, c.as[1], c.as[2], e, e.V2FileContract.RevisionNumber+3)}
		}
		return nil, []types.V2Transaction{univ.V2Renewal(c.l.State, c.as[1], c.as[2], e, own[0], c.h+3, c.h+5)}
	}
}

// v2RenewRedirect renews the contract but pays the final outputs to other parties than the ones named in the
// contract (consensus does not tie the final outputs' addresses to the contract's): roles 0 and 3.
func v2RenewRedirect() step {
	return func(c *stepCtx) ([]types.Transaction, []types.V2Transaction) {
		e, ok := v2fce(c)
		own := univ.OwnedSC(c.l, c.as[1].Addr)
		if !ok || len(own) == 0 || c.alt {
			return nil, nil
		}
		t := univ.V2Renewal(c.l.State, c.as[1], c.as[2], e, own[0], c.h+3, c.h+5)
		ren := t.FileContractResolutions[0].Resolution.(*types.V2FileContractRenewal)
		ren.FinalRenterOutput.Address = c.as[0].Addr
		ren.FinalHostOutput.Address = c.as[3].Addr
		ren.RenterSignature, ren.HostSignature = types.Signature{}, types.Signature{}
		rh := c.l.State.RenewalSigHash(*ren)
		ren.RenterSignature, ren.HostSignature = c.as[1].Key.SignHash(rh), c.as[2].Key.SignHash(rh)
		univ.SignV2(c.l.State, &t, c.as[1])
		return nil, []types.V2Transaction{t}
	}
}

func v2Proof() step {
	return func(c *stepCtx) ([]types.Transaction, []types.V2Transaction) {
		e, ok := v2fce(c)
		if !ok || c.alt {
			return nil, nil
		}
		ph := e.V2FileContract.ProofHeight
		if ph >= uint64(len(c.l.Path)) {
			return nil, nil
		}
		cie, ok := c.l.CIEs[c.l.Path[ph]]
		if !ok {
			return nil, nil
		}
		return nil, []types.V2Transaction{univ.V2StorageProof(e, cie)}
	}
}

func v2Expire() step {
	return func(c *stepCtx) ([]types.Transaction, []types.V2Transaction) {
		e, ok := v2fce(c)
		if !ok || c.alt {
			return nil, nil
		}
		return nil, []types.V2Transaction{univ.V2Expiration(e)}
	}
}

func v2Attest() step {
	return func(c *stepCtx) ([]types.Transaction, []types.V2Transaction) {
		if !c.v2() {
			return nil, nil
		}
		key := "k"
		if c.alt {
			key = "alt"
		}
		return nil, []types.V2Transaction{univ.V2Attestation(c.l.State, c.as[0], key)}
	}
}

func v2Foundation() step {
	return func(c *stepCtx) ([]types.Transaction, []types.V2Transaction) {
		own := univ.OwnedSC(c.l, c.as[3].Addr)
		if len(own) == 0 || !c.v2() {
			return nil, nil
		}
		t := univ.V2Spend(c.l.State, c.as[3], own[0], c.as[3].Addr, univ.SC(1), univ.SC(1))
		na := dst(c, 0, 2)
		t.NewFoundationAddress = &na
		univ.SignV2(c.l.State, &t, c.as[3])
		return nil, []types.V2Transaction{t}
	}
}

func empty() step {
	return func(*stepCtx) ([]types.Transaction, []types.V2Transaction) { return nil, nil }
}

// both merges two steps into one block.
func both(a, b step) step {
	return func(c *stepCtx) ([]types.Transaction, []types.V2Transaction) {
		v1a, v2a := a(c)
		v1b, v2b := b(c)
		return append(v1a, v1b...), append(v2a, v2b...)
	}
}

// stories returns the storylines applicable to a regime.
func stories(reg univ.Regime) []story {
	var out []story
	v1 := []story{
		{name: "sc", start: 1, steps: []step{scSpend(1, 2, 3, 0), scEphemeral(1, 2, 3), scSpend(2, 0, 3, 0)}},
		{name: "sf", start: 1, steps: []step{sfSpend(0, 1, 3), sfSpend(1, 2, 3), scSpend(0, 1, 2, 0)}},
		{name: "tax-sf", start: 1, steps: []step{v1Form(1, 3, 4, false), sfSpend(0, 1, 3), sfSpendClaim(1, 2, 3, 0), empty()}},
		{name: "fc-revise-proof", start: 1, steps: []step{v1Form(1, 3, 4, false), v1Revise(0, 3, 4), v1Proof(0, -1)}},
		{name: "fc-leaf-proof", start: 1, steps: []step{v1Form(1, 2, 4, true), v1Proof(0, -1), empty()}},
		{name: "fc-newwindow-expire", start: 1, steps: []step{v1Form(1, 2, 3, false), v1Revise(0, 3, 4), empty(), empty()}},
		{name: "fc-expire", start: 1, steps: []step{v1Form(1, 2, 3, false), empty(), empty()}},
		// a revision (same window / window end moved) and the storage proof of the same contract in one block
		{name: "fc-revise+proof-one-block", start: 1, shared: true, steps: []step{v1Form(1, 3, 4, false), empty(), both(v1Revise(0, 3, 4), v1Proof(0, -1)), empty()}},
		{name: "fc-revise-window+proof-one-block", start: 1, shared: true, steps: []step{v1Form(1, 3, 4, false), empty(), both(v1Revise(0, 3, 5), v1Proof(0, -1)), empty()}},
		{name: "fc-shared2", start: 1, shared: true, steps: []step{v1Form(2, 2, 4, false), v1Proof(1, 0), empty(), empty()}},
		{name: "fc-shared3", start: 1, shared: true, steps: []step{v1Form(3, 2, 4, false), v1Proof(1, 2), v1Proof(0, 1), empty()}},
		{name: "fc-shared2-window", start: 1, shared: true, steps: []step{both(v1Form(1, 3, 4, false), empty()), v1Form(1, 3, 4, true), v1Revise(0, 4, 5), empty(), empty()}},
	}
	v2start := uint64(1)
	if reg == univ.RegimeX {
		v2start = 3
	}
	v2 := []story{
		{name: "v2sc", start: v2start, steps: []step{scSpend(1, 2, 3, 0), scEphemeral(1, 2, 3), scSpend(2, 0, 3, 0)}},
		{name: "v2sf", start: v2start, steps: []step{sfSpend(0, 1, 3), sfSpend(1, 2, 3)}},
		{name: "v2tax-sf", start: v2start, steps: []step{v2Form(3, 5), sfSpend(0, 1, 3), sfSpendClaim(1, 2, 3, 0)}},
		{name: "v2fc-revise-renew", start: v2start, steps: []step{v2Form(3, 5), v2Revise(), v2Renew()}},
		{name: "v2fc-renew-redirect", start: v2start, steps: []step{v2Form(3, 5), v2RenewRedirect()}},
		{name: "v2fc-proof", start: v2start, steps: []step{v2Form(1, 4), empty(), v2Proof()}},
		{name: "v2fc-expire", start: v2start, steps: []step{v2Form(1, 2), empty(), empty(), v2Expire()}},
		{name: "v2-attest-foundation", start: v2start, steps: []step{v2Attest(), v2Foundation(), scSpend(3, 1, 2, 0)}},
	}
	switch reg {
	case univ.RegimeV1:
		out = v1
	case univ.RegimeV2:
		out = v2
	case univ.RegimeX:
		// v1 stories must be over before the require height (5): they occupy heights 1..4
		for _, s := range v1 {
			out = append(out, s)
		}
		out = append(out, v2...)
		// overlap: a v1 story on heights 1.. together with a v2 story from height 3
		out = append(out, story{name: "x-sc+v2fc", start: 1, steps: []step{scSpend(1, 2, 3, 0), sfSpend(0, 1, 3), v2Form(3, 5), both(v2Revise(), scSpend(2, 0, 3, 0)), v2Renew()}})
		out = append(out, story{name: "x-fc+v2sc", start: 1, steps: []step{v1Form(1, 3, 4, false), v1Revise(0, 3, 4), both(v1Proof(0, -1), scSpend(2, 0, 3, 0)), scEphemeral(1, 2, 3)}})
	}
	return out
}

// storyVariant names how the branch differs from the main path.
type storyVariant string

const (
	varEmpty    storyVariant = "empty"
	varShifted  storyVariant = "shifted"
	varConflict storyVariant = "conflict"
)

const storyMainLen = 7

// storyUniverse builds main path (storyMainLen blocks + 2 extension blocks) and one branch forking
// after main block f (f=0: at genesis) that is surplus blocks longer than the main path without extension.
// A step whose transactions are not valid at that position (checked by the reference) is left out.
func storyUniverse(reg univ.Regime, s story, f int, v storyVariant, surplus int) (*univ.Universe, map[string]int) {
	u := univ.NewUniverse(fmt.Sprintf("%s/f%d/%s/+%d", s.name, f, v, surplus), reg)
	stats := map[string]int{}
	mem := map[string]any{}
	addStep := func(parent int, salt int, st step, alt bool, label string, m map[string]any) int {
		p := u.Nodes[parent]
		var v1 []types.Transaction
		var v2 []types.V2Transaction
		if st != nil {
			var roles [4]univ.Actor
			for r := range roles {
				roles[r] = u.As[rolePerm[r]]
			}
			c := &stepCtx{l: p.L, h: p.Height + 1, as: roles, alt: alt, mem: m}
			v1, v2 = st(c)
			if len(v1)+len(v2) > 0 {
				b := univ.BuildBlock(p.L, univ.TS(u.Net, p.Height+1, salt), u.As[salt%4].Addr, v1, v2)
				if _, _, err := p.L.ApplyBlock(b); err != nil {
					stats["dropped:"+label] = 1
					stats["dropped"]++
					v1, v2 = nil, nil
				} else {
					stats["steps"]++
				}
			}
		}
		return u.Add(parent, salt, v1, v2, label)
	}
	stepAt := func(h uint64) step {
		if h >= s.start && int(h-s.start) < len(s.steps) {
			return s.steps[h-s.start]
		}
		return nil
	}
	main := []int{0}
	for h := uint64(1); h <= storyMainLen+2; h++ {
		label := fmt.Sprintf("m%d", h)
		if h > storyMainLen {
			label = fmt.Sprintf("ext%d", h)
		}
		main = append(main, addStep(main[len(main)-1], 0, stepAt(h), false, label, mem))
	}
	// branch: forks after main[f]
	bmem := map[string]any{}
	for k, val := range mem {
		bmem[k] = val
	}
	cur := main[f]
	blen := storyMainLen - f + surplus
	for i := 0; i < blen; i++ {
		h := uint64(f + i + 1)
		var st step
		alt := false
		switch v {
		case varShifted:
			if i > 0 {
				st = stepAt(h - 1)
			}
		case varConflict:
			if i == 0 {
				st, alt = stepAt(h), true
			}
		}
		cur = addStep(cur, 1, st, alt, fmt.Sprintf("b%d", h), bmem)
	}
	return u, stats
}
