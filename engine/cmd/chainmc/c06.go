package main

import (
	"bytes"
	"fmt"
	"os"
	"sort"
	"strings"
	"sync"

	"go.sia.tech/core/consensus"
	"go.sia.tech/core/types"
	"go.sia.tech/coreutils/chain"
	"go.sia.tech/coreutils/testutil"
	"go.sia.tech/coreutils/wallet"
	"verif/internal/bfs"
	"verif/internal/node"
	"verif/internal/univ"
	"verif/internal/wstore"
)

// proxies let one SingleAddressWallet object serve all worlds of a (single-threaded) exploration.
type cmProxy struct{ cur *chain.Manager }

func (p *cmProxy) AddV2PoolTransactions(b types.ChainIndex, t []types.V2Transaction) (bool, error) {
	return p.cur.AddV2PoolTransactions(b, t)
}
func (p *cmProxy) TipState() consensus.State                   { return p.cur.TipState() }
func (p *cmProxy) BestIndex(h uint64) (types.ChainIndex, bool) { return p.cur.BestIndex(h) }
func (p *cmProxy) PoolTransactions() []types.Transaction       { return p.cur.PoolTransactions() }
func (p *cmProxy) RecommendedFee() types.Currency              { return p.cur.RecommendedFee() }
func (p *cmProxy) V2PoolTransactions() []types.V2Transaction   { return p.cur.V2PoolTransactions() }
func (p *cmProxy) OnReorg(fn func(types.ChainIndex)) func()    { return func() {} }
func (p *cmProxy) UpdateV2TransactionSet(t []types.V2Transaction, from, to types.ChainIndex) ([]types.V2Transaction, error) {
	return p.cur.UpdateV2TransactionSet(t, from, to)
}
func (p *cmProxy) V2TransactionSet(b types.ChainIndex, t types.V2Transaction) (types.ChainIndex, []types.V2Transaction, error) {
	return p.cur.V2TransactionSet(b, t)
}

type storeProxy struct{ cur *wstore.Store }

func (p *storeProxy) Tip() (types.ChainIndex, error) { return p.cur.Tip() }
func (p *storeProxy) UnspentSiacoinElements() (types.ChainIndex, []types.SiacoinElement, error) {
	return p.cur.UnspentSiacoinElements()
}
func (p *storeProxy) WalletEvent(id types.Hash256) (wallet.Event, error) {
	return p.cur.WalletEvent(id)
}
func (p *storeProxy) WalletEvents(o, l int) ([]wallet.Event, error) { return p.cur.WalletEvents(o, l) }
func (p *storeProxy) WalletEventCount() (uint64, error)             { return p.cur.WalletEventCount() }
func (p *storeProxy) AddBroadcastedSet(s wallet.BroadcastedSet) error {
	return p.cur.AddBroadcastedSet(s)
}
func (p *storeProxy) BroadcastedSets() ([]wallet.BroadcastedSet, error) {
	return p.cur.BroadcastedSets()
}
func (p *storeProxy) RemoveBroadcastedSet(s wallet.BroadcastedSet) error {
	return p.cur.RemoveBroadcastedSet(s)
}

type nopSyncer struct{}

func (nopSyncer) BroadcastV2TransactionSet(types.ChainIndex, []types.V2Transaction) error { return nil }

type walletRig struct {
	w   *wallet.SingleAddressWallet
	cm  *cmProxy
	st  *storeProxy
	key types.PrivateKey
}

func newWalletRig(key types.PrivateKey, opts ...wallet.Option) *walletRig {
	r := &walletRig{cm: &cmProxy{}, st: &storeProxy{cur: wstore.New()}, key: key}
	w, err := wallet.NewSingleAddressWallet(key, r.cm, r.st, nopSyncer{}, opts...)
	if err != nil {
		panic(err)
	}
	r.w = w
	return r
}

type walletSyncOp struct {
	Sync int `json:"walletSync"`
}

func (o walletSyncOp) String() string { return fmt.Sprintf("walletSync(%d)", o.Sync) }

type uptoSyncOp struct {
	UptoSync int `json:"uptoSync"`
}

func (o uptoSyncOp) String() string { return fmt.Sprintf("upto+sync(%d)", o.UptoSync) }

type walletWorld struct {
	u   *univ.Universe
	n   *node.Node
	st  *wstore.Store
	rig *walletRig
}

func (w *walletWorld) Key() [32]byte {
	k := w.n.Key(false)
	for i, b := range w.st.TipIdx.ID {
		k[i] ^= b
	}
	k[0] ^= byte(w.st.TipIdx.Height + 1)
	k[1] ^= byte(len(w.st.Events))
	k[2] ^= byte(len(w.st.UTXOs))
	return k
}

func (w *walletWorld) Clone() bfs.World {
	return &walletWorld{u: w.u, n: node.Open(w.u, w.n.DB.CloneDB()), st: w.st.Clone(), rig: w.rig}
}

func (w *walletWorld) bind() {
	w.rig.cm.cur = w.n.CM
	w.rig.st.cur = w.st
}

// syncChunk feeds one UpdatesSince chunk through SingleAddressWallet.UpdateChainState into the store and
// records as the store's tip the index the stream left it at.
func (w *walletWorld) syncChunk(max int) (int, error) {
	w.bind()
	rus, aus, err := w.n.CM.UpdatesSince(w.st.TipIdx, max)
	if err != nil {
		return 0, err
	}
	if err := w.rig.w.UpdateChainState(w.st, rus, aus); err != nil {
		return 0, err
	}
	if len(aus) > 0 {
		w.st.TipIdx = aus[len(aus)-1].State.Index
	} else if len(rus) > 0 {
		w.st.TipIdx = rus[len(rus)-1].State.Index
	}
	return len(rus) + len(aus), nil
}

func eventKey(e wallet.Event) string {
	var buf bytes.Buffer
	enc := types.NewEncoder(&buf)
	e.EncodeTo(enc)
	enc.Flush()
	return fmt.Sprintf("%d|%v|%s|%x", e.Index.Height, e.ID, e.Type, buf.Bytes())
}

func eventList(ev []wallet.Event) []string {
	out := make([]string, len(ev))
	for i, e := range ev {
		out[i] = eventKey(e)
	}
	sort.Strings(out)
	return out
}

// walletOracle compares the store with the reference ledger at the wallet's index.
func walletOracle(w *walletWorld, linearEvents func(tip int) []string) (sig, what string) {
	u := w.u
	if len(w.st.Faults) > 0 {
		return "c06:update-stream-inconsistent", fmt.Sprintf("the update path reported: %v", w.st.Faults)
	}
	k, ok := u.ByID[w.st.TipIdx.ID]
	if !ok {
		if w.st.TipIdx == (types.ChainIndex{}) {
			return "", ""
		}
		return "c06:tip-unknown", fmt.Sprintf("wallet tip %v is not a block of the universe", w.st.TipIdx)
	}
	L := u.Nodes[k].L
	addr := u.As[0].Addr
	want := map[types.SiacoinOutputID]types.SiacoinElement{}
	var wantSum types.Currency
	for id, e := range L.SCEs {
		if e.SiacoinOutput.Address == addr {
			want[id] = e
			wantSum = wantSum.Add(e.SiacoinOutput.Value)
		}
	}
	label := u.Nodes[k].Label
	for id, g := range w.st.UTXOs {
		r, ok := want[id]
		if !ok {
			return "c06:extra-utxo", fmt.Sprintf("wallet at %s holds output %v (%v) that is not an unspent output of its address on that chain", label, id, g.SiacoinOutput.Value)
		}
		if g.SiacoinOutput != r.SiacoinOutput || g.MaturityHeight != r.MaturityHeight {
			return "c06:utxo-body", fmt.Sprintf("wallet at %s: output %v has value/maturity %v/%d, ledger says %v/%d", label, id, g.SiacoinOutput.Value, g.MaturityHeight, r.SiacoinOutput.Value, r.MaturityHeight)
		}
		if g.StateElement.LeafIndex != r.StateElement.LeafIndex || fmt.Sprint(g.StateElement.MerkleProof) != fmt.Sprint(r.StateElement.MerkleProof) {
			return "c06:utxo-proof", fmt.Sprintf("wallet at %s: output %v has leaf %d / a proof that differs from the ledger's (leaf %d)", label, id, g.StateElement.LeafIndex, r.StateElement.LeafIndex)
		}
		txn := types.V2Transaction{SiacoinInputs: []types.V2SiacoinInput{{Parent: g.Copy()}}}
		if err := L.State.Elements.ValidateTransactionElements(txn); err != nil {
			return "c06:utxo-proof", fmt.Sprintf("wallet at %s: proof of %v does not verify: %v", label, id, err)
		}
	}
	for id := range want {
		if _, ok := w.st.UTXOs[id]; !ok {
			return "c06:missing-utxo", fmt.Sprintf("wallet at %s lacks unspent output %v (%v) of its address", label, id, want[id].SiacoinOutput.Value)
		}
	}
	// events: exactly those of a wallet that followed this chain linearly; none off the chain
	got := eventList(w.st.Events)
	for _, e := range w.st.Events {
		ek, ok := u.ByID[e.Index.ID]
		if !ok || !u.IsAncestor(ek, k) {
			return "c06:stale-event", fmt.Sprintf("wallet at %s holds event %v of type %s at index %v which is not on its chain", label, e.ID, e.Type, e.Index)
		}
	}
	if lin := linearEvents(k); strings.Join(got, "\n") != strings.Join(lin, "\n") {
		return "c06:events-differ-from-linear", fmt.Sprintf("wallet at %s has %d events, a wallet that followed the same chain linearly has %d; first difference: %s", label, len(got), len(lin), firstDiff(got, lin))
	}
	// accounting identity
	var in, out types.Currency
	for _, e := range w.st.Events {
		e := e
		in = in.Add(e.SiacoinInflow())
		out = out.Add(e.SiacoinOutflow())
	}
	if in.Cmp(out) < 0 || !in.Sub(out).Equals(wantSum) {
		return "c06:accounting-identity", fmt.Sprintf("wallet at %s: sum(inflow) %v - sum(outflow) %v != sum of unspent outputs %v", label, in, out, wantSum)
	}
	return "", ""
}

func firstDiff(a, b []string) string {
	set := map[string]bool{}
	for _, s := range b {
		set[s] = true
	}
	for _, s := range a {
		if !set[s] {
			return "only in explored wallet: " + trunc(s, 120)
		}
	}
	set = map[string]bool{}
	for _, s := range a {
		set[s] = true
	}
	for _, s := range b {
		if !set[s] {
			return "only in linear wallet: " + trunc(s, 120)
		}
	}
	return "order"
}

func trunc(s string, n int) string {
	if len(s) > n {
		return s[:n]
	}
	return s
}

// c06RepoStore: the same wallet fed chunk by chunk (chunk size 1 and 2) through a reorg, but into the
// repository's own in-memory store (testutil.EphemeralWalletStore) instead of the harness store: the store's
// notion of "how far am I" has to survive a chunk that ends on a reverted block.
func c06RepoStore() {
	for _, reg := range []univ.Regime{univ.RegimeV1, univ.RegimeX, univ.RegimeV2} {
		for _, s := range stories(reg) {
			if s.name != "sc" && s.name != "v2sc" {
				continue
			}
			for _, f := range []int{int(s.start), int(s.start) + 1} {
				for _, chunk := range []int{1, 2} {
					u, _ := storyUniverse(reg, s, f, varShifted, 1)
					n := node.New(u)
					rig := newWalletRig(u.As[0].Key)
					rig.cm.cur = n.CM
					store := testutil.NewEphemeralWalletStore()
					var mainTip, branchTip int
					for k, nd := range u.Nodes {
						if strings.HasPrefix(nd.Label, "m") {
							mainTip = k
						}
						if strings.HasPrefix(nd.Label, "b") {
							branchTip = k
						}
					}
					sync := func(limit int) (bool, error) {
						for i := 0; i < limit; i++ {
							tip, _ := store.Tip()
							rus, aus, err := n.CM.UpdatesSince(tip, chunk)
							if err != nil {
								return false, err
							}
							if len(rus)+len(aus) == 0 {
								return true, nil
							}
							if err := store.UpdateChainState(func(ux wallet.UpdateTx) error { return rig.w.UpdateChainState(ux, rus, aus) }); err != nil {
								return false, err
							}
						}
						return false, nil
					}
					where := fmt.Sprintf("%s, chunk size %d, repository EphemeralWalletStore", u.Describe(), chunk)
					n.CM.AddBlocks(u.Blocks(u.PathTo(mainTip)))
					if ok, err := sync(60); err != nil || !ok {
						run.Violate("c06:repo-store-cannot-follow", fmt.Sprintf("%s: the wallet does not reach the tip of the linear chain (err %v)", where, err), nil)
						rig.w.Close()
						continue
					}
					n.CM.AddBlocks(u.Blocks(u.PathTo(branchTip)))
					ok, err := sync(80)
					run.Add(1, 1, 1, 1)
					tip, _ := store.Tip()
					if err != nil || !ok || tip != n.CM.Tip() {
						run.Violate("c06:repo-store-cannot-follow", fmt.Sprintf("%s: after the reorg the wallet store is at %v, the manager at %v, after 80 chunks (err %v): a chunk ending on a reverted block leaves the store on the reverted index", where, tip, n.CM.Tip(), err), map[string]any{"universe": u.Describe(), "chunk": chunk})
					}
					rig.w.Close()
				}
			}
		}
	}
}

var rolePerm = [4]int{0, 1, 2, 3}

func rolesOf(p [4]int, actor int) (out []int) {
	for r, a := range p {
		if a == actor {
			out = append(out, r)
		}
	}
	return
}

func c06() {
	c06RepoStore()
	if os.Getenv("VERIF_C06_ONLY") == "repostore" { // debugging aid
		return
	}
	depth := 3
	if run.Thorough() {
		depth = 4
	}
	var jobs []*univ.Universe
	// the last two maps are not permutations: the wallet's address plays two roles at once (renter and host of
	// the same contract, sender and recipient of the same transfer)
	perms := [][4]int{{0, 1, 2, 3}, {1, 0, 2, 3}, {2, 1, 0, 3}, {3, 1, 2, 0}, {1, 0, 0, 3}, {0, 0, 2, 3}}
	for pi, p := range perms {
		rolePerm = p
		all, shared, _ := c02Universes()
		for i, u := range all {
			if shared[u.Name+string(u.Regime)] {
				continue
			}
			// quick tier: every sixth universe per role map, but the storylines in which the recipient of a payout
			// is not the party the wallet would guess from ownership are always kept
			always := strings.Contains(u.Name, "tax-sf") || strings.Contains(u.Name, "renew-redirect")
			if !run.Thorough() && i%6 != pi && !(always && strings.Contains(u.Name, "/f"+fmt.Sprint(3)+"/shifted")) {
				continue
			}
			u.Name = fmt.Sprintf("%s/wallet-as-roles%v", u.Name, rolesOf(p, 0))
			jobs = append(jobs, u)
		}
	}
	rolePerm = [4]int{0, 1, 2, 3}
	var mu sync.Mutex
	kinds := map[string]int{}
	parallel(len(jobs), func(i int) {
		if run.Expired() {
			run.Cap("time budget: not all universes explored")
			return
		}
		u := jobs[i]
		rig := newWalletRig(u.As[0].Key)
		defer rig.w.Close()
		linMemo := map[int][]string{}
		linear := func(tip int) []string {
			if v, ok := linMemo[tip]; ok {
				return v
			}
			lw := &walletWorld{u: u, n: node.New(u), st: wstore.New(), rig: rig}
			lw.n.CM.AddBlocks(u.Blocks(u.PathTo(tip)))
			for lw.st.TipIdx != lw.n.CM.Tip() {
				if _, err := lw.syncChunk(1); err != nil {
					panic(err)
				}
			}
			linMemo[tip] = eventList(lw.st.Events)
			return linMemo[tip]
		}
		ops := storyOps(u, false)
		if !run.Thorough() {
			// quick tier: plain submissions (followed by explicit chunked syncs) only for every second node
			var sub []bfs.Op
			for i, o := range ops {
				if i%2 == 0 {
					sub = append(sub, o)
				}
			}
			ops = sub
		}
		for _, c := range []int{1, 2, 1000} {
			ops = append(ops, walletSyncOp{c})
		}
		// combined "submit then sync to the tip" steps, so that reorg-there-and-back histories with a synced
		// wallet at every stop fit into the depth bound
		for k := 1; k < len(u.Nodes); k++ {
			ops = append(ops, uptoSyncOp{k})
		}
		res := bfs.Run(bfs.Config{
			New: func() bfs.World { return &walletWorld{u: u, n: node.New(u), st: wstore.New(), rig: rig} },
			Ops: func(bfs.World, int) []bfs.Op { return ops },
			Apply: func(w0 bfs.World, o bfs.Op, check bool) (v *bfs.Violation) {
				w := w0.(*walletWorld)
				defer func() {
					if r := recover(); r != nil {
						v = &bfs.Violation{Signature: "c06:panic", What: fmt.Sprintf("%s: %v panicked: %v", u.Describe(), o, r)}
					}
				}()
				switch op := o.(type) {
				case walletSyncOp:
					if _, err := w.syncChunk(op.Sync); err != nil {
						return &bfs.Violation{Signature: "c06:sync-error", What: fmt.Sprintf("%s: %v from %v failed: %v", u.Describe(), o, w.st.TipIdx, err)}
					}
					if check {
						if sig, what := walletOracle(w, linear); sig != "" {
							return &bfs.Violation{Signature: sig, What: fmt.Sprintf("%s: after %v: %s", u.Describe(), o, what)}
						}
						if w.st.TipIdx == w.n.CM.Tip() {
							w.bind()
							bal, err := w.rig.w.Balance()
							var sum, mature types.Currency
							for _, e := range w.st.UTXOs {
								sum = sum.Add(e.SiacoinOutput.Value)
								if e.MaturityHeight <= w.st.TipIdx.Height {
									mature = mature.Add(e.SiacoinOutput.Value)
								}
							}
							if err != nil || !bal.Confirmed.Add(bal.Immature).Equals(sum) || !bal.Spendable.Equals(mature) {
								return &bfs.Violation{Signature: "c06:balance", What: fmt.Sprintf("%s: synced to the tip: Balance()=%+v err=%v but unspent outputs sum to %v (mature %v)", u.Describe(), bal, err, sum, mature)}
							}
						}
					}
				case uptoSyncOp:
					if _, pan := applySubmission(w.n, uptoOp{op.UptoSync}); pan != nil {
						return &bfs.Violation{Signature: "c06:panic:submit", What: fmt.Sprint(pan)}
					}
					for w.st.TipIdx != w.n.CM.Tip() {
						if _, err := w.syncChunk(1000); err != nil {
							return &bfs.Violation{Signature: "c06:sync-error", What: fmt.Sprintf("%s: %v from %v failed: %v", u.Describe(), o, w.st.TipIdx, err)}
						}
					}
					if check {
						if sig, what := walletOracle(w, linear); sig != "" {
							return &bfs.Violation{Signature: sig, What: fmt.Sprintf("%s: after %v: %s", u.Describe(), o, what)}
						}
					}
				default:
					if _, pan := applySubmission(w.n, o); pan != nil {
						return &bfs.Violation{Signature: "c06:panic:submit", What: fmt.Sprint(pan)}
					}
				}
				return nil
			},
			MaxDepth:  depth,
			MaxStates: map[bool]int{true: 3000, false: 1200}[run.Thorough()],
			Stop:      run.Expired,
		})
		run.Add(int64(res.States), int64(res.Transitions), int64(res.Transitions), int64(res.Transitions))
		mu.Lock()
		for _, l := range linMemo {
			for _, e := range l {
				kinds[strings.Split(e, "|")[2]]++
			}
		}
		mu.Unlock()
		if len(res.Samples) > 0 && i%31 == 0 {
			run.Sample(map[string]any{"universe": u.Describe(), "history": histStrings(res.Samples[len(res.Samples)-1]), "states": res.States})
		}
		for _, v := range res.Violations {
			run.Violate(v.Signature, v.What, map[string]any{"universe": u.Describe(), "history": histStrings(v.History)})
		}
	})
	run.DistinctN = run.States
	run.Extra["universes"] = len(jobs)
	run.Extra["event_kinds_seen_in_linear_wallets"] = kinds
	run.Rule = "storyline universes (C02 set without shared window ends) with the wallet's address playing each of 4 roles (main-chain miner + siafund owner/claimant + attester; spender/renter; payee/host; foundation address); ops: submit path up to node k, walletSync(chunk) for chunk in {1,2,1000} through SingleAddressWallet.UpdateChainState into a harness store that records the index the stream left it at (chunks that end on a revert included); BFS with clone-able worlds; distinct = distinct (node state, wallet index, #events, #utxos)"
	run.Explanation = fmt.Sprintf("depth bound %d, state cap 3000 per universe. After every wallet sync: stored UTXOs == the reference ledger's unspent outputs of the address at the wallet's index (id, value, maturity height, leaf index, proof byte-equal and verifying), events == those of a wallet that followed the same chain linearly, no event off the chain, sum(inflow)-sum(outflow) == sum(UTXOs); at the tip Balance() agrees.", depth)
	run.Assumptions = []string{"the in-repo EphemeralWalletStore is not the store under test here (it records the reverted index as its tip); the property's quantifier stipulates a store that records the index the stream left it at"}
}

func indexOf(p [4]int, v int) int {
	for i, x := range p {
		if x == v {
			return i
		}
	}
	return -1
}
