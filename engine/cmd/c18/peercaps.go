package main

import (
	"context"
	"errors"
	"fmt"
	"net"
	"strings"
	"sync"
	"sync/atomic"
	"time"

	"go.sia.tech/core/gateway"
	"go.sia.tech/core/types"
	"go.sia.tech/coreutils/syncer"

	"verif/internal/ev"
	"verif/internal/memnet"
	"verif/internal/node"
	"verif/internal/univ"
)

// Peer-cap and shutdown exploration at connection granularity.
//
// The environment decides, per inbound connection, when it is opened (the syncer then runs its admission
// check and waits for the remote header), when the remote completes the handshake, and when it goes away;
// and it decides how long the listener's Close takes, i.e. what happens between the two steps of
// Syncer.Close (close the listener; stop the thread group). Every sequence of those events up to a bound is
// run against a real Syncer; after every event the harness waits for the syncer to go quiescent (observed
// at the in-memory connections, not by sleeping) and evaluates:
//
//	safety   the number of inbound peers never exceeds MaxInboundPeers
//	progress a connection is admitted when, from the moment it is opened until its handshake completes,
//	         admitted + other pending connections < cap (no contention: refusing would be a leaked slot)
//	         and a dropped peer's slot is returned
//	shutdown Close returns (within 30 s, with every connection released by the remote or not), Run
//	         returns, no peer is left and every connection has been closed by the syncer

type pcEvent struct {
	Kind string // connect, handshake, drop, closeBegin, closeEnd
	Peer int
}

func (e pcEvent) String() string {
	if strings.HasPrefix(e.Kind, "close") {
		return e.Kind
	}
	return fmt.Sprintf("%s(%d)", e.Kind, e.Peer)
}

type pcCfg struct {
	Cap   int
	Peers int
}

func (c pcCfg) String() string { return fmt.Sprintf("maxInbound=%d conns=%d", c.Cap, c.Peers) }

// stallListener lets the environment decide how long the first Close of the listener takes.
type stallListener struct {
	*memnet.Listener
	armed   atomic.Bool
	closes  atomic.Int32
	stalled chan struct{} // closed when the first Close call is parked
	second  chan struct{} // closed at the second Close call (Run's teardown)
	resume  chan struct{}
}

func (l *stallListener) Close() error {
	err := l.Listener.Close()
	switch l.closes.Add(1) {
	case 1:
		if l.armed.Load() {
			close(l.stalled)
			<-l.resume
		}
	case 2:
		close(l.second)
	}
	return err
}

const pcConnectTimeout = 2 * time.Second

func pollUntil(d time.Duration, f func() bool) bool {
	deadline := time.Now().Add(d)
	for i := 0; ; i++ {
		if f() {
			return true
		}
		if time.Now().After(deadline) {
			return false
		}
		if i < 200 {
			time.Sleep(20 * time.Microsecond)
		} else {
			time.Sleep(time.Millisecond)
		}
	}
}

func runPeerCaps(cfg pcCfg, events []pcEvent) (sig, what string) {
	u := univ.NewUniverse("caps", univ.RegimeV2)
	n := node.New(u)
	mn := memnet.New()
	sl := &stallListener{Listener: mn.Listen("10.9.9.9:9000"), stalled: make(chan struct{}), second: make(chan struct{}), resume: make(chan struct{})}
	genesisID := u.Genesis.ID()
	s := syncer.New(sl, n.CM, newPeerStore(), gateway.Header{GenesisID: genesisID, UniqueID: gateway.GenerateUniqueID(), NetAddress: "10.9.9.9:9000"},
		syncer.WithMaxInboundPeers(cfg.Cap), syncer.WithSyncInterval(time.Hour), syncer.WithPeerDiscoveryInterval(time.Hour),
		syncer.WithConnectTimeout(pcConnectTimeout), syncer.WithDialer(&memnet.Dialer{N: mn, FromIP: "10.9.9.9"}))
	runDone := make(chan error, 1)
	go func() { runDone <- s.Run() }()

	type connState struct {
		conn      net.Conn
		t         *gateway.Transport
		opened    time.Time
		connected bool
		refused   bool // closed by the syncer
		shaken    bool
		admitted  bool
		dropped   bool
		contended bool // at some point between connect and handshake admitted+otherPending >= cap
		addr      string
	}
	cs := make([]*connState, cfg.Peers+1)
	for i := range cs {
		cs[i] = &connState{addr: fmt.Sprintf("10.%d.1.1:7000", i)}
	}
	defer func() {
		for _, c := range cs {
			if c.t != nil {
				c.t.Close()
			} else if c.conn != nil {
				c.conn.Close()
			}
		}
	}()
	desc := func(i int) string { return fmt.Sprintf("%v, events %v (at #%d)", cfg, events[:i+1], i+1) }
	closing, closed := false, false
	closeDone := make(chan struct{})
	inbound := func() (n int, addrs map[string]bool) {
		addrs = map[string]bool{}
		for _, p := range s.Peers() {
			if p.Inbound {
				n++
				addrs[p.Addr()] = true
			}
		}
		return
	}
	pending := func(except int) (n int) {
		for i, c := range cs {
			if i != except && c.connected && !c.shaken && !c.refused && !c.dropped {
				n++
			}
		}
		return
	}
	admitted := func() (n int) {
		for _, c := range cs {
			if c.admitted && !c.dropped {
				n++
			}
		}
		return
	}
	markContention := func() {
		for i, c := range cs {
			if c.connected && !c.shaken && !c.refused && !c.dropped && admitted()+pending(i) >= cfg.Cap {
				c.contended = true
			}
		}
	}
	finishClose := func(i int) (string, string) {
		close(sl.resume)
		select {
		case <-closeDone:
		case <-time.After(30 * time.Second):
			return "c18:caps:close-deadlock", desc(i) + ": Syncer.Close did not return within 30 s (connect timeout is " + pcConnectTimeout.String() + "; a peer admitted while shutting down is never disconnected)"
		}
		select {
		case <-runDone:
		case <-time.After(30 * time.Second):
			return "c18:caps:run-does-not-stop", desc(i) + ": Run did not return within 30 s after Close"
		}
		if n, _ := inbound(); n != 0 {
			return "c18:caps:peers-after-close", desc(i) + fmt.Sprintf(": %d peers still registered after Close and Run returned", n)
		}
		for j, c := range cs {
			if c.connected && !c.dropped {
				if _, cl := memnet.PeerState(c.conn); !cl {
					return "c18:caps:connection-open-after-close", desc(i) + fmt.Sprintf(": connection %d is still open after Close returned", j)
				}
			}
		}
		closed = true
		return "", ""
	}

	for i, e := range events {
		c := cs[e.Peer]
		switch e.Kind {
		case "connect":
			conn, err := mn.Dial(context.Background(), fmt.Sprintf("10.%d.1.1", e.Peer), "10.9.9.9:9000")
			if err != nil {
				if closing {
					c.connected, c.refused, c.dropped = true, true, true
					continue
				}
				return "harness:dial", err.Error()
			}
			c.conn, c.connected, c.opened = conn, true, time.Now()
			if closing {
				// the listener is closed: nobody will ever look at this connection
				c.refused, c.dropped = true, true
				conn.Close()
				continue
			}
			if !pollUntil(20*time.Second, func() bool { p, cl := memnet.PeerState(conn); return p || cl }) {
				return "c18:caps:connection-ignored", desc(i) + ": an accepted connection was neither read from nor closed within 20 s"
			}
			if _, cl := memnet.PeerState(conn); cl {
				c.refused = true
				if admitted()+pending(e.Peer) < cfg.Cap {
					return "c18:caps:refused-below-cap", desc(i) + fmt.Sprintf(": connection refused although only %d peers are admitted and %d other connections pending (cap %d): a slot leaked", admitted(), pending(e.Peer), cfg.Cap)
				}
			}
			markContention()
		case "handshake":
			if !c.connected || c.shaken || c.refused || c.dropped {
				continue
			}
			markContention()
			c.shaken = true
			c.conn.SetDeadline(time.Now().Add(20 * time.Second))
			t, err := gateway.Dial(c.conn, gateway.Header{GenesisID: genesisID, UniqueID: gateway.GenerateUniqueID(), NetAddress: c.addr})
			c.conn.SetDeadline(time.Time{})
			late := time.Since(c.opened) > pcConnectTimeout/2
			if err == nil {
				c.t = t
				ok := pollUntil(20*time.Second, func() bool {
					if _, a := inbound(); a[c.addr] {
						return true
					}
					_, cl := memnet.PeerState(c.conn)
					return cl
				})
				if !ok {
					return "c18:caps:handshaken-peer-in-limbo", desc(i) + ": a connection that completed the handshake was neither registered nor closed within 20 s"
				}
				if _, a := inbound(); a[c.addr] {
					c.admitted = true
					go serveSPeer(t)
				}
			}
			if !c.admitted {
				c.refused = true
				if !closing && !late && !c.contended {
					return "c18:caps:refused-below-cap", desc(i) + fmt.Sprintf(": handshake refused (%v) although admitted+pending stayed below the cap %d the whole time", err, cfg.Cap)
				}
			}
		case "drop":
			if !c.connected || c.dropped {
				continue
			}
			c.dropped = true
			if c.t != nil {
				c.t.Close()
			} else {
				c.conn.Close()
			}
			if c.admitted && !closed {
				if !pollUntil(20*time.Second, func() bool { _, a := inbound(); return !a[c.addr] }) {
					return "c18:caps:peer-slot-not-returned", desc(i) + ": a disconnected peer is still registered after 20 s"
				}
			}
			if !c.shaken && !c.refused && !closed {
				// the syncer's handshake read fails; wait until it has let go of the connection
				if !pollUntil(20*time.Second, func() bool { _, cl := memnet.PeerState(c.conn); return cl }) {
					return "c18:caps:connection-ignored", desc(i) + ": a connection dropped during the handshake was not closed within 20 s"
				}
			}
		case "closeBegin":
			if closing {
				continue
			}
			closing = true
			sl.armed.Store(true)
			go func() { s.Close(); close(closeDone) }()
			select {
			case <-sl.stalled:
			case <-time.After(20 * time.Second):
				return "harness:close", "Syncer.Close did not close the listener"
			}
			select {
			case <-sl.second:
			case <-time.After(20 * time.Second):
				return "c18:caps:run-ignores-closed-listener", desc(i) + ": Run did not start its teardown within 20 s of the listener being closed"
			}
			// teardown sweep: every registered peer is disconnected
			var adm []*connState
			for _, c := range cs {
				if c.admitted && !c.dropped {
					adm = append(adm, c)
				}
			}
			if len(adm) == 0 {
				time.Sleep(20 * time.Millisecond) // nothing observable marks the end of an empty sweep
			}
			for _, c := range adm {
				if !pollUntil(20*time.Second, func() bool { _, cl := memnet.PeerState(c.conn); return cl }) {
					return "c18:caps:peer-not-disconnected-at-shutdown", desc(i) + ": a registered peer was not disconnected within 20 s of the listener being closed"
				}
			}
		case "closeEnd":
			if !closing || closed {
				continue
			}
			if sig, what := finishClose(i); sig != "" {
				return sig, what
			}
		}
		if !closed {
			if n, _ := inbound(); n > cfg.Cap {
				return "c18:caps:inbound-cap-exceeded", desc(i) + fmt.Sprintf(": %d inbound peers registered, MaxInboundPeers is %d", n, cfg.Cap)
			}
		}
	}
	if !closing {
		closing = true
		go func() { s.Close(); close(closeDone) }()
	}
	if !closed {
		return finishClose(len(events) - 1)
	}
	return "", ""
}

// pcSequences enumerates the maximal event sequences of the given length.
func pcSequences(peers, maxLen int) [][]pcEvent {
	var out [][]pcEvent
	type st struct{ connected, shaken, dropped bool }
	var rec func(seq []pcEvent, ps []st, closing, closed bool)
	rec = func(seq []pcEvent, ps []st, closing, closed bool) {
		if len(seq) == maxLen {
			out = append(out, append([]pcEvent(nil), seq...))
			return
		}
		extended := false
		for p := 1; p <= peers; p++ {
			s := ps[p]
			// symmetry: connections are opened in index order
			if !s.connected && (p == 1 || ps[p-1].connected) && !closed {
				ps[p].connected = true
				rec(append(seq, pcEvent{"connect", p}), ps, closing, closed)
				ps[p] = s
				extended = true
			}
			if s.connected && !s.shaken && !s.dropped && !closed {
				ps[p].shaken = true
				rec(append(seq, pcEvent{"handshake", p}), ps, closing, closed)
				ps[p] = s
				extended = true
			}
			if s.connected && !s.dropped && !closed {
				ps[p].dropped = true
				rec(append(seq, pcEvent{"drop", p}), ps, closing, closed)
				ps[p] = s
				extended = true
			}
		}
		if !closing {
			rec(append(seq, pcEvent{Kind: "closeBegin"}), ps, true, false)
			extended = true
		} else if !closed {
			rec(append(seq, pcEvent{Kind: "closeEnd"}), ps, true, true)
			extended = true
		}
		if !extended {
			out = append(out, append([]pcEvent(nil), seq...))
		}
	}
	rec(nil, make([]st, peers+1), false, false)
	return out
}

func runPeerCapsAll(r *ev.Run) {
	type job struct {
		cfg pcCfg
		seq []pcEvent
	}
	var jobs []job
	maxLen := 5
	cfgs := []pcCfg{{Cap: 1, Peers: 2}, {Cap: 0, Peers: 1}, {Cap: 2, Peers: 3}}
	if r.Thorough() {
		maxLen = 7
	}
	for _, c := range cfgs {
		for _, s := range pcSequences(c.Peers, maxLen) {
			jobs = append(jobs, job{c, s})
		}
	}
	var wg sync.WaitGroup
	sem := make(chan struct{}, 16)
	for i, j := range jobs {
		if r.Expired() {
			r.Cap("time budget: not all peer-cap sequences run")
			break
		}
		wg.Add(1)
		sem <- struct{}{}
		go func() {
			defer wg.Done()
			defer func() { <-sem }()
			sig, what := runPeerCaps(j.cfg, j.seq)
			r.Add(int64(len(j.seq)), int64(len(j.seq)), 1, 1)
			if strings.HasPrefix(sig, "harness:") {
				ev.HarnessError("peer-cap replay: %s %s", sig, what)
			}
			if sig != "" {
				r.Violate(sig, what, map[string]any{"part": "syncer-peercaps", "config": j.cfg, "events": fmt.Sprint(j.seq)})
			}
			r.Distinct("caps", j.cfg.String(), fmt.Sprint(j.seq))
			if i%499 == 0 {
				r.Sample(map[string]any{"part": "syncer-peercaps", "config": j.cfg.String(), "events": fmt.Sprint(j.seq)})
			}
		}()
	}
	wg.Wait()
	for _, c := range [][2]int{{1, 3}, {2, 4}} {
		sig, what := runSharedAddress(c[0], c[1])
		r.Add(int64(c[1]), int64(c[1]), 1, 1)
		r.Distinct("caps-shared", c)
		if strings.HasPrefix(sig, "harness:") {
			ev.HarnessError("shared-address scenario: %s %s", sig, what)
		}
		if sig != "" {
			r.Violate(sig, what, map[string]any{"part": "syncer-peercaps", "cap": c[0], "connections": c[1]})
		}
	}
	if sig, what := runShutdownCorners(); sig != "" {
		if strings.HasPrefix(sig, "harness:") {
			ev.HarnessError("shutdown corners: %s %s", sig, what)
		}
		r.Violate(sig, what, map[string]any{"part": "syncer-shutdown-corners"})
	}
	r.Add(2, 2, 2, 2)
	r.Extra["peercap_sequences"] = len(jobs)
}

// runSharedAddress: n inbound connections from one IP that all claim the same listening port, i.e. the same
// net address, completed one after the other. The cap is on connections being served, however they name
// themselves: each connection is probed with an RPC, and Close must still return.
func runSharedAddress(cap, n int) (sig, what string) {
	u := univ.NewUniverse("caps-shared", univ.RegimeV2)
	nd := node.New(u)
	mn := memnet.New()
	l := mn.Listen("10.9.9.9:9000")
	genesisID := u.Genesis.ID()
	s := syncer.New(l, nd.CM, newPeerStore(), gateway.Header{GenesisID: genesisID, UniqueID: gateway.GenerateUniqueID(), NetAddress: "10.9.9.9:9000"},
		syncer.WithMaxInboundPeers(cap), syncer.WithSyncInterval(time.Hour), syncer.WithPeerDiscoveryInterval(time.Hour),
		syncer.WithDialer(&memnet.Dialer{N: mn, FromIP: "10.9.9.9"}))
	runDone := make(chan error, 1)
	go func() { runDone <- s.Run() }()
	var ts []*gateway.Transport
	defer func() {
		for _, t := range ts {
			t.Close()
		}
	}()
	probe := func(t *gateway.Transport) bool {
		st, err := t.DialStream()
		if err != nil {
			return false
		}
		defer st.Close()
		st.SetDeadline(time.Now().Add(5 * time.Second))
		r := &gateway.RPCShareNodes{}
		if st.WriteID(r) != nil || st.WriteRequest(r) != nil {
			return false
		}
		return st.ReadResponse(r) == nil
	}
	served := 0
	for i := 0; i < n; i++ {
		conn, err := mn.Dial(context.Background(), "10.1.1.1", "10.9.9.9:9000")
		if err != nil {
			return "harness:dial", err.Error()
		}
		conn.SetDeadline(time.Now().Add(10 * time.Second))
		t, err := gateway.Dial(conn, gateway.Header{GenesisID: genesisID, UniqueID: gateway.GenerateUniqueID(), NetAddress: "10.1.1.1:7000"})
		conn.SetDeadline(time.Time{})
		if err != nil {
			continue // refused
		}
		ts = append(ts, t)
		go serveSPeer(t)
		if probe(t) {
			served++
		}
	}
	// re-probe at the end: connections that are (still) being served
	servedNow := 0
	for _, t := range ts {
		if probe(t) {
			servedNow++
		}
	}
	desc := fmt.Sprintf("maxInbound=%d, %d connections from 10.1.1.1 all announcing 10.1.1.1:7000", cap, n)
	if servedNow > cap {
		sig, what = "c18:caps:inbound-cap-exceeded:shared-address", fmt.Sprintf("%s: %d connections are being served at once (Peers() lists %d)", desc, servedNow, len(s.Peers()))
	}
	// the newest connection is the node coming back while its old connections linger (half-open, not yet noticed
	// to be dead): it must be the one that is served
	if sig == "" && cap >= 1 && n >= 2 && len(ts) > 0 && !probe(ts[len(ts)-1]) {
		sig, what = "c18:caps:reconnect-locked-out:shared-address", fmt.Sprintf("%s: the newest connection is not served (%d older ones are) - a node that reconnects while its old connection has not been noticed to be dead is locked out", desc, servedNow)
	}
	closeDone := make(chan struct{})
	go func() { s.Close(); close(closeDone) }()
	select {
	case <-closeDone:
	case <-time.After(30 * time.Second):
		return "c18:caps:close-deadlock:shared-address", desc + ": Syncer.Close did not return within 30 s (connections registered under the same address shadow each other and are never disconnected)"
	}
	select {
	case <-runDone:
	case <-time.After(30 * time.Second):
		return "c18:caps:run-does-not-stop:shared-address", desc + ": Run did not return within 30 s after Close"
	}
	return sig, what
}

// errListener fails its first Accept with an error that is not net.ErrClosed (a full file-descriptor table,
// for instance).
type errListener struct {
	*memnet.Listener
	failed atomic.Bool
}

func (l *errListener) Accept() (net.Conn, error) {
	if l.failed.CompareAndSwap(false, true) {
		return nil, errors.New("accept: too many open files")
	}
	return l.Listener.Accept()
}

// runShutdownCorners: (a) Close on a syncer that has an outbound peer but whose Run was never started;
// (b) Run after one of its loops failed with an error: per its documentation it closes all connections,
// terminates its goroutines and returns the error.
func runShutdownCorners() (sig, what string) {
	u := univ.NewUniverse("caps-corners", univ.RegimeV2)
	genesisID := u.Genesis.ID()
	// (a)
	{
		nd := node.New(u)
		mn := memnet.New()
		remote := mn.Listen("10.2.2.2:9000")
		accepted := make(chan *gateway.Transport, 1)
		go func() {
			for {
				c, err := remote.Accept()
				if err != nil {
					return
				}
				go func() {
					t, err := gateway.Accept(c, gateway.Header{GenesisID: genesisID, UniqueID: gateway.GenerateUniqueID(), NetAddress: "10.2.2.2:9000"})
					if err == nil {
						select {
						case accepted <- t:
						default:
						}
						serveSPeer(t)
					}
				}()
			}
		}()
		s := syncer.New(mn.Listen("10.9.9.9:9000"), nd.CM, newPeerStore(), gateway.Header{GenesisID: genesisID, UniqueID: gateway.GenerateUniqueID(), NetAddress: "10.9.9.9:9000"},
			syncer.WithDialer(&memnet.Dialer{N: mn, FromIP: "10.9.9.9"}))
		ctx, cancel := context.WithTimeout(context.Background(), 10*time.Second)
		_, err := s.Connect(ctx, "10.2.2.2:9000")
		cancel()
		if err != nil {
			return "harness:connect", err.Error()
		}
		// the peer is being served once a request of the remote side has been answered (positive event; without
		// it Close can win the race against the peer goroutine's registration and return trivially)
		select {
		case t := <-accepted:
			st, err := t.DialStream()
			if err != nil {
				return "harness:stream", err.Error()
			}
			st.SetDeadline(time.Now().Add(20 * time.Second))
			req := &gateway.RPCSendHeaders{Index: types.ChainIndex{ID: genesisID}, Max: 1}
			if err := st.WriteID(req); err == nil {
				err = st.WriteRequest(req)
			}
			if err == nil {
				err = st.ReadResponse(req)
			}
			st.Close()
			if err != nil {
				return "c18:peer-not-served-without-run", "a syncer with one outbound peer (Connect) whose Run was never started does not answer that peer's SendHeaders: " + err.Error()
			}
		case <-time.After(20 * time.Second):
			return "harness:accept", "the remote side never saw the connection"
		}
		done := make(chan struct{})
		go func() { s.Close(); close(done) }()
		select {
		case <-done:
		case <-time.After(30 * time.Second):
			return "c18:close-deadlock:without-run", "a syncer with one outbound peer (Connect) whose Run was never started: Close did not return within 30 s (only Run disconnects peers)"
		}
		remote.Close()
	}
	// (b)
	{
		nd := node.New(u)
		mn := memnet.New()
		l := &errListener{Listener: mn.Listen("10.9.9.9:9000")}
		s := syncer.New(l, nd.CM, newPeerStore(), gateway.Header{GenesisID: genesisID, UniqueID: gateway.GenerateUniqueID(), NetAddress: "10.9.9.9:9000"},
			syncer.WithSyncInterval(time.Hour), syncer.WithPeerDiscoveryInterval(time.Hour), syncer.WithDialer(&memnet.Dialer{N: mn, FromIP: "10.9.9.9"}))
		runDone := make(chan error, 1)
		go func() { runDone <- s.Run() }()
		select {
		case err := <-runDone:
			if err == nil {
				sig, what = "c18:run-swallows-loop-error", "Run returned nil although its accept loop failed with an error"
			}
		case <-time.After(30 * time.Second):
			sig, what = "c18:run-hangs-after-loop-error", "the listener's Accept failed once with 'too many open files': Run neither returned the error nor kept serving within 30 s (it has shut the listener and the peers down and waits for loops that only end on Close)"
		}
		done := make(chan struct{})
		go func() { s.Close(); close(done) }()
		select {
		case <-done:
		case <-time.After(30 * time.Second):
			return "c18:close-deadlock:after-loop-error", "Close did not return within 30 s after Run's accept loop had failed"
		}
	}
	return sig, what
}
