package main

import (
	"bytes"
	"context"
	"encoding/json"
	"fmt"
	"os"
	"os/exec"
	"runtime/pprof"
	"sort"
	"strings"
	"sync"
	"time"

	"go.sia.tech/core/gateway"
	"go.sia.tech/core/types"
	"go.sia.tech/coreutils/chain"
	"go.sia.tech/coreutils/syncer"
	"verif/internal/ev"
	"verif/internal/memnet"
	"verif/internal/node"
	"verif/internal/univ"
)

// peerStore records bans; nothing is ever banned from connecting here.
type peerStore struct {
	mu    sync.Mutex
	peers map[string]syncer.PeerInfo
	bans  []string
}

func newPeerStore() *peerStore { return &peerStore{peers: map[string]syncer.PeerInfo{}} }
func (ps *peerStore) AddPeer(a string) error {
	ps.mu.Lock()
	defer ps.mu.Unlock()
	if _, ok := ps.peers[a]; !ok {
		ps.peers[a] = syncer.PeerInfo{Address: a, FirstSeen: time.Now()}
	}
	return nil
}
func (ps *peerStore) Peers() ([]syncer.PeerInfo, error) {
	ps.mu.Lock()
	defer ps.mu.Unlock()
	var out []syncer.PeerInfo
	for _, p := range ps.peers {
		out = append(out, p)
	}
	return out, nil
}
func (ps *peerStore) PeerInfo(a string) (syncer.PeerInfo, error) {
	ps.mu.Lock()
	defer ps.mu.Unlock()
	p, ok := ps.peers[a]
	if !ok {
		return p, syncer.ErrPeerNotFound
	}
	return p, nil
}
func (ps *peerStore) UpdatePeerInfo(a string, fn func(*syncer.PeerInfo)) error {
	ps.mu.Lock()
	defer ps.mu.Unlock()
	p, ok := ps.peers[a]
	if !ok {
		return syncer.ErrPeerNotFound
	}
	fn(&p)
	ps.peers[a] = p
	return nil
}
func (ps *peerStore) Ban(a string, _ time.Duration, reason string) error {
	ps.mu.Lock()
	defer ps.mu.Unlock()
	ps.bans = append(ps.bans, a+": "+reason)
	return nil
}
func (ps *peerStore) Banned(string) (bool, error) { return false, nil }

// gatedCM blocks every Headers call (i.e. every RPCSendHeaders handler) at a gate and keeps exact
// in-flight counts and high-water marks per peer tag and per subnet.
type gatedCM struct {
	*chain.Manager
	mu          sync.Mutex
	subnetOf    map[int]string
	active      map[int]map[int]chan struct{} // peer tag -> rpc -> release channel
	peerHigh    map[int]int
	subHigh     map[string]int
	entered     chan [2]int
	total       int
	releasedSet map[chan struct{}]bool
}

func (g *gatedCM) Headers(index types.ChainIndex, max uint64) ([]types.BlockHeader, uint64, error) {
	peer, rpc := int(index.Height/1000), int(index.Height%1000)
	ch := make(chan struct{})
	g.mu.Lock()
	if g.active[peer] == nil {
		g.active[peer] = map[int]chan struct{}{}
	}
	g.active[peer][rpc] = ch
	g.total++
	if n := len(g.active[peer]); n > g.peerHigh[peer] {
		g.peerHigh[peer] = n
	}
	sub := g.subnetOf[peer]
	cnt := 0
	for p, m := range g.active {
		if g.subnetOf[p] == sub {
			cnt += len(m)
		}
	}
	if cnt > g.subHigh[sub] {
		g.subHigh[sub] = cnt
	}
	g.mu.Unlock()
	g.entered <- [2]int{peer, rpc}
	<-ch
	g.mu.Lock()
	delete(g.active[peer], rpc)
	g.total--
	g.mu.Unlock()
	return nil, 0, nil
}

func (g *gatedCM) release(peer, rpc int) bool {
	g.mu.Lock()
	ch, ok := g.active[peer][rpc]
	if ok && g.releasedSet[ch] {
		ok = false
	} else if ok {
		g.releasedSet[ch] = true
	}
	g.mu.Unlock()
	if ok {
		close(ch)
	}
	return ok
}

func (g *gatedCM) activeCount() int {
	g.mu.Lock()
	defer g.mu.Unlock()
	return g.total
}

// scripted peer
type sPeer struct {
	tag     int
	t       *gateway.Transport
	results map[int]chan error
}

func (p *sPeer) send(rpc int) error {
	s, err := p.t.DialStream()
	if err != nil {
		return err
	}
	ch := make(chan error, 1)
	p.results[rpc] = ch
	r := &gateway.RPCSendHeaders{Index: types.ChainIndex{Height: uint64(p.tag*1000 + rpc)}, Max: 1}
	// a request the syncer refuses (over the subnet limit, or after Close)
	// may have its stream closed while the request is still being written:
	// a write error is the RPC's outcome, not a driver failure
	if err := s.WriteID(r); err != nil {
		s.Close()
		ch <- err
		return nil
	}
	if err := s.WriteRequest(r); err != nil {
		s.Close()
		ch <- err
		return nil
	}
	go func() {
		s.SetDeadline(time.Now().Add(60 * time.Second))
		err := s.ReadResponse(r)
		s.Close()
		ch <- err
	}()
	return nil
}

// serveSPeer answers the RPCs the syncer under test sends to a scripted peer
// (its peer-discovery loop calls ShareNodes on every peer, inbound ones
// included). An unserved stream would stall the scripted peer's mux read loop
// (mux v3 applies back-pressure per connection), i.e. every later response on
// the same connection, which is an artefact of the driver and not of the
// syncer.
func serveSPeer(t *gateway.Transport) {
	for {
		s, err := t.AcceptStream()
		if err != nil {
			return
		}
		go func() {
			defer s.Close()
			s.SetDeadline(time.Now().Add(30 * time.Second))
			id, err := s.ReadID()
			if err != nil {
				return
			}
			if r, ok := gateway.ObjectForID(id).(*gateway.RPCShareNodes); ok {
				if s.ReadRequest(r) == nil {
					r.Peers = nil
					s.WriteResponse(r)
				}
			}
		}()
	}
}

// slEvent is one environment event.
type slEvent struct {
	Kind string // send, release, close
	Peer int
	RPC  int
}

func (e slEvent) String() string {
	if e.Kind == "close" {
		return "close"
	}
	return fmt.Sprintf("%s(p%d,#%d)", e.Kind, e.Peer, e.RPC)
}

// slModel is the reference for the slot protocol at the level of environment events.
type slModel struct {
	L, M     int
	subnetOf map[int]string
	queue    map[int][]int
	inflight map[int]map[int]bool
	dropped  map[[2]int]bool
	entered  map[[2]int]bool
	done     map[[2]int]bool
	closed   bool
}

func (m *slModel) subCount(sub string) int {
	n := 0
	for p, s := range m.inflight {
		if m.subnetOf[p] == sub {
			n += len(s)
		}
	}
	return n
}

// drain admits queued RPCs of peer p while a per-peer slot is free; returns newly entered and dropped.
func (m *slModel) drain(p int) (entered, dropped [][2]int) {
	for len(m.queue[p]) > 0 && (m.L <= 0 || len(m.inflight[p]) < m.L) {
		rpc := m.queue[p][0]
		m.queue[p] = m.queue[p][1:]
		if m.M > 0 && m.subCount(m.subnetOf[p]) >= m.M {
			m.dropped[[2]int{p, rpc}] = true
			dropped = append(dropped, [2]int{p, rpc})
			continue
		}
		if m.inflight[p] == nil {
			m.inflight[p] = map[int]bool{}
		}
		m.inflight[p][rpc] = true
		m.entered[[2]int{p, rpc}] = true
		entered = append(entered, [2]int{p, rpc})
	}
	return
}

type slCfg struct {
	L, M    int
	Subnets []string // subnet (IP) per peer
}

func (c slCfg) String() string {
	return fmt.Sprintf("perPeer=%d perSubnet=%d peers=%v", c.L, c.M, c.Subnets)
}

// runSlots executes one event sequence against a real Syncer and compares with the model.
func runSlots(cfg slCfg, events []slEvent) (sig, what string) {
	u := univ.NewUniverse("slots", univ.RegimeV2)
	n := node.New(u)
	mn := memnet.New()
	l := mn.Listen("10.9.9.9:9000")
	g := &gatedCM{Manager: n.CM, subnetOf: map[int]string{}, active: map[int]map[int]chan struct{}{}, peerHigh: map[int]int{}, subHigh: map[string]int{}, entered: make(chan [2]int, 64), releasedSet: map[chan struct{}]bool{}}
	genesisID := u.Genesis.ID()
	s := syncer.New(l, g, newPeerStore(), gateway.Header{GenesisID: genesisID, UniqueID: gateway.GenerateUniqueID(), NetAddress: "10.9.9.9:9000"},
		syncer.WithMaxInflightRPCs(cfg.L), syncer.WithMaxInflightRPCsPerSubnet(cfg.M), syncer.WithSyncInterval(time.Hour), syncer.WithPeerDiscoveryInterval(time.Hour),
		syncer.WithDialer(&memnet.Dialer{N: mn, FromIP: "10.9.9.9"}))
	runDone := make(chan error, 1)
	go func() { runDone <- s.Run() }()
	model := &slModel{L: cfg.L, M: cfg.M, subnetOf: map[int]string{}, queue: map[int][]int{}, inflight: map[int]map[int]bool{}, dropped: map[[2]int]bool{}, entered: map[[2]int]bool{}, done: map[[2]int]bool{}}
	var peers []*sPeer
	defer func() {
		for _, p := range peers {
			p.t.Close()
		}
	}()
	desc := func(i int) string { return fmt.Sprintf("%v, events %v (at #%d)", cfg, events[:i+1], i+1) }
	for i, ip := range cfg.Subnets {
		conn, err := mn.Dial(context.Background(), ip, "10.9.9.9:9000")
		if err != nil {
			return "harness:dial", err.Error()
		}
		t, err := gateway.Dial(conn, gateway.Header{GenesisID: genesisID, UniqueID: gateway.GenerateUniqueID(), NetAddress: fmt.Sprintf("%s:%d", ip, 7000+i)})
		if err != nil {
			return "harness:handshake", err.Error()
		}
		peers = append(peers, &sPeer{tag: i + 1, t: t, results: map[int]chan error{}})
		go serveSPeer(t)
		g.subnetOf[i+1] = ip
		model.subnetOf[i+1] = ip
	}
	awaitEntered := func(want [][2]int, i int) (string, string) {
		pend := map[[2]int]bool{}
		for _, w := range want {
			pend[w] = true
		}
		start := time.Now()
		// A slot is handed back by deferred calls that run after the handler has answered, so a request that
		// arrives right after the answer of the previous one may still find the subnet counter at its limit and
		// be dropped. That window is not a leak: the request is repeated (same logical event) a few times; a
		// slot that is really lost keeps the request out every time.
		retries := map[[2]int]int{}
		for len(pend) > 0 {
			var retry [][2]int
			for w := range pend {
				select {
				case err := <-peers[w[0]-1].results[w[1]]:
					if err != nil && retries[w] < 5 {
						retries[w]++
						retry = append(retry, w)
					} else if err != nil {
						return "c18:slots:handler-not-started", desc(i) + fmt.Sprintf(": rpc %v is refused (%v) on 6 attempts 20 ms apart although the model has a free slot for it (slot leaked)", w, err)
					} else {
						return "c18:slots:unexpected-answer", desc(i) + fmt.Sprintf(": rpc %v was answered before its handler was released", w)
					}
				default:
				}
			}
			for _, w := range retry {
				time.Sleep(20 * time.Millisecond)
				if err := peers[w[0]-1].send(w[1]); err != nil {
					return "c18:slots:send-failed", desc(i) + ": " + err.Error()
				}
			}
			select {
			case e := <-g.entered:
				if !pend[e] {
					return "c18:slots:unexpected-handler", desc(i) + fmt.Sprintf(": handler for rpc %v started although the limits do not admit it (model expects %v)", e, want)
				}
				delete(pend, e)
			case <-time.After(50 * time.Millisecond):
				// look at the result channels again
				if time.Since(start) < 20*time.Second {
					continue
				}
				return "c18:slots:handler-not-started", desc(i) + fmt.Sprintf(": handlers %v did not start within 20 s although a slot is free (back-pressured request lost or slot leaked)", keys(pend))
			}
		}
		return "", ""
	}
	awaitDropped := func(want [][2]int, i int) (string, string) {
		for _, w := range want {
			select {
			case err := <-peers[w[0]-1].results[w[1]]:
				if err == nil {
					return "c18:slots:over-limit-rpc-served", desc(i) + fmt.Sprintf(": rpc %v exceeds the subnet limit but was answered", w)
				}
			case <-time.After(20 * time.Second):
				return "c18:slots:over-limit-rpc-not-closed", desc(i) + fmt.Sprintf(": rpc %v exceeds the subnet limit but its stream was not closed within 20 s", w)
			}
		}
		return "", ""
	}
	for i, e := range events {
		switch e.Kind {
		case "send":
			if err := peers[e.Peer-1].send(e.RPC); err != nil {
				if model.closed {
					continue
				}
				return "c18:slots:send-failed", desc(i) + ": " + err.Error()
			}
			if model.closed {
				// work submitted after Close must be rejected: the stream ends without an answer
				select {
				case err := <-peers[e.Peer-1].results[e.RPC]:
					if err == nil {
						return "c18:slots:rpc-served-after-close", desc(i) + ": an RPC sent after Close was answered"
					}
				case <-time.After(20 * time.Second):
					return "c18:slots:rpc-after-close-hangs", desc(i) + ": an RPC sent after Close was neither answered nor rejected within 20 s"
				}
				continue
			}
			model.queue[e.Peer] = append(model.queue[e.Peer], e.RPC)
			ent, drop := model.drain(e.Peer)
			if sig, what := awaitEntered(ent, i); sig != "" {
				return sig, what
			}
			if sig, what := awaitDropped(drop, i); sig != "" {
				return sig, what
			}
		case "release":
			if !model.inflight[e.Peer][e.RPC] {
				continue // not in flight in this sequence
			}
			if !g.release(e.Peer, e.RPC) {
				return "harness:release", desc(i) + ": handler to release is not at the gate"
			}
			delete(model.inflight[e.Peer], e.RPC)
			model.done[[2]int{e.Peer, e.RPC}] = true
			select {
			case err := <-peers[e.Peer-1].results[e.RPC]:
				if err != nil && !model.closed {
					return "c18:slots:admitted-rpc-failed", desc(i) + fmt.Sprintf(": admitted rpc failed: %v", err)
				}
			case <-time.After(20 * time.Second):
				if os.Getenv("VERIF_DEBUG") != "" {
					pprof.Lookup("goroutine").WriteTo(os.Stderr, 2)
				}
				return "c18:slots:admitted-rpc-no-answer", desc(i) + ": released handler did not answer within 20 s"
			}
			if !model.closed {
				ent, drop := model.drain(e.Peer)
				if sig, what := awaitEntered(ent, i); sig != "" {
					return sig, what
				}
				if sig, what := awaitDropped(drop, i); sig != "" {
					return sig, what
				}
			}
		case "close":
			if model.closed {
				continue
			}
			if sig, what := doClose(s, g, model, runDone, fmt.Sprintf("%v, events %v", cfg, events[:i+1])); sig != "" {
				return sig, what
			}
		}
	}
	if !model.closed {
		if sig, what := doClose(s, g, model, runDone, fmt.Sprintf("%v, events %v", cfg, events)); sig != "" {
			return sig, what
		}
	}
	// exact high-water marks
	g.mu.Lock()
	defer g.mu.Unlock()
	for p, h := range g.peerHigh {
		if cfg.L > 0 && h > cfg.L {
			return "c18:per-peer-limit-exceeded", fmt.Sprintf("%v, events %v: peer %d had %d handlers running at once", cfg, events, p, h)
		}
	}
	for sub, h := range g.subHigh {
		if cfg.M > 0 && h > cfg.M {
			return "c18:per-subnet-limit-exceeded", fmt.Sprintf("%v, events %v: subnet %s had %d handlers running at once", cfg, events, sub, h)
		}
	}
	return "", ""
}

func keys(m map[[2]int]bool) [][2]int {
	var out [][2]int
	for k := range m {
		out = append(out, k)
	}
	sort.Slice(out, func(i, j int) bool { return out[i][0]*1000+out[i][1] < out[j][0]*1000+out[j][1] })
	return out
}

// slotSequences enumerates event sequences: per peer a burst of rpcs (sent in order), releases in any
// order relative to later sends, optional close at any position.
func slotSequences(nPeers, burst, maxLen int) [][]slEvent {
	var out [][]slEvent
	var rec func(seq []slEvent, nextSend []int, sent map[[2]int]bool, released map[[2]int]bool, closed bool)
	rec = func(seq []slEvent, nextSend []int, sent, released map[[2]int]bool, closed bool) {
		if len(seq) > 0 {
			out = append(out, append([]slEvent(nil), seq...))
		}
		if len(seq) == maxLen {
			return
		}
		for p := 1; p <= nPeers; p++ {
			if nextSend[p-1] <= burst {
				r := nextSend[p-1]
				nextSend[p-1]++
				sent[[2]int{p, r}] = true
				rec(append(seq, slEvent{"send", p, r}), nextSend, sent, released, closed)
				delete(sent, [2]int{p, r})
				nextSend[p-1]--
			}
		}
		for k := range sent {
			if !released[k] {
				released[k] = true
				rec(append(seq, slEvent{"release", k[0], k[1]}), nextSend, sent, released, closed)
				delete(released, k)
			}
		}
		if !closed {
			rec(append(seq, slEvent{Kind: "close"}), nextSend, sent, released, true)
		}
	}
	next := make([]int, nPeers)
	for i := range next {
		next[i] = 1
	}
	rec(nil, next, map[[2]int]bool{}, map[[2]int]bool{}, false)
	// keep only maximal sequences (every prefix is exercised by running the longer one step by step)
	var maximal [][]slEvent
	for _, s := range out {
		if len(s) == maxLen {
			maximal = append(maximal, s)
		}
	}
	return maximal
}

// slotCfgs lists the limit configurations. Configurations with a non-positive per-peer limit are run in a
// child process: a syncer that mishandles them can take the whole process down (make(chan, n<0) panics in
// a goroutine nobody can recover), and that must be reported as a violation, not as a harness crash.
func slotCfgs() []slCfg {
	return []slCfg{
		{L: 1, M: 0, Subnets: []string{"10.1.1.1"}},
		{L: 2, M: 0, Subnets: []string{"10.1.1.1"}},
		{L: 2, M: 1, Subnets: []string{"10.1.1.1"}},
		{L: 1, M: 1, Subnets: []string{"10.1.1.1", "10.1.1.1"}},
		{L: 2, M: 2, Subnets: []string{"10.1.1.1", "10.1.1.1"}},
		{L: 1, M: 1, Subnets: []string{"10.1.1.1", "10.2.2.2"}},
		{L: 2, M: -1, Subnets: []string{"10.1.1.1", "10.2.2.2"}},
		{L: 0, M: 0, Subnets: []string{"10.1.1.1"}},
		{L: -1, M: 2, Subnets: []string{"10.1.1.1", "10.1.1.1"}},
	}
}

type slotResult struct {
	Sig    string `json:"sig,omitempty"`
	What   string `json:"what,omitempty"`
	Events string `json:"events,omitempty"`
	Done   int    `json:"done,omitempty"`
	Steps  int    `json:"steps,omitempty"`
}

func slotJobs(c slCfg, maxLen int) [][]slEvent {
	burst := c.L + 2
	if burst > 3 || c.L <= 0 {
		burst = 3
	}
	return slotSequences(len(c.Subnets), burst, maxLen)
}

// runSlotsChild runs every sequence of one configuration and prints one JSON line per violating sequence
// and a final {"done":n} line.
func runSlotsChild(cfgJSON string, maxLen int) {
	var c slCfg
	if err := json.Unmarshal([]byte(cfgJSON), &c); err != nil {
		ev.HarnessError("slots child: %v", err)
	}
	enc := json.NewEncoder(os.Stdout)
	var mu sync.Mutex
	var wg sync.WaitGroup
	sem := make(chan struct{}, 8)
	seqs := slotJobs(c, maxLen)
	steps := 0
	for _, sq := range seqs {
		wg.Add(1)
		sem <- struct{}{}
		steps += len(sq)
		go func() {
			defer wg.Done()
			defer func() { <-sem }()
			sig, what := runSlots(c, sq)
			if sig != "" {
				mu.Lock()
				enc.Encode(slotResult{Sig: sig, What: what, Events: fmt.Sprint(sq)})
				mu.Unlock()
			}
		}()
	}
	wg.Wait()
	enc.Encode(slotResult{Done: len(seqs), Steps: steps})
	os.Exit(0)
}

func runSyncerLimits(r *ev.Run) {
	type job struct {
		cfg slCfg
		seq []slEvent
	}
	var jobs []job
	maxLen := 5
	if r.Thorough() {
		maxLen = 6
	}
	total := 0
	for _, c := range slotCfgs() {
		if c.L <= 0 {
			total += runSlotsInChild(r, c, maxLen)
			continue
		}
		for _, s := range slotJobs(c, maxLen) {
			jobs = append(jobs, job{c, s})
		}
	}
	var wg sync.WaitGroup
	sem := make(chan struct{}, 16)
	for i, j := range jobs {
		if r.Expired() {
			r.Cap("time budget: not all slot sequences run")
			break
		}
		wg.Add(1)
		sem <- struct{}{}
		go func() {
			defer wg.Done()
			defer func() { <-sem }()
			sig, what := runSlots(j.cfg, j.seq)
			r.Add(int64(len(j.seq)), int64(len(j.seq)), 1, 1)
			if strings.HasPrefix(sig, "harness:") {
				ev.HarnessError("slot replay: %s %s", sig, what)
			}
			if sig != "" {
				r.Violate(sig, what, map[string]any{"part": "syncer-slots", "config": j.cfg, "events": fmt.Sprint(j.seq)})
			}
			r.Distinct("slots", j.cfg.String(), fmt.Sprint(j.seq))
			if i%997 == 0 {
				r.Sample(map[string]any{"part": "syncer-slots", "config": j.cfg.String(), "events": fmt.Sprint(j.seq)})
			}
		}()
	}
	wg.Wait()
	r.Extra["slot_sequences"] = len(jobs) + total
}

// runSlotsInChild runs one configuration in a child process and folds its results into r.
func runSlotsInChild(r *ev.Run, c slCfg, maxLen int) int {
	exe, err := os.Executable()
	if err != nil {
		ev.HarnessError("slots child: %v", err)
	}
	cfgJSON, _ := json.Marshal(c)
	cmd := exec.Command(exe, "-slots-child", string(cfgJSON), "-maxlen", fmt.Sprint(maxLen))
	var stderr bytes.Buffer
	cmd.Stderr = &stderr
	out, runErr := cmd.Output()
	done := 0
	for _, line := range strings.Split(string(out), "\n") {
		if strings.TrimSpace(line) == "" {
			continue
		}
		var res slotResult
		if err := json.Unmarshal([]byte(line), &res); err != nil {
			ev.HarnessError("slots child: unparsable line %q", line)
		}
		if res.Done > 0 {
			done = res.Done
			r.Add(int64(res.Steps), int64(res.Steps), int64(res.Done), int64(res.Done))
			r.Distinct("slots-child", c.String())
			continue
		}
		if strings.HasPrefix(res.Sig, "harness:") {
			ev.HarnessError("slot replay: %s %s", res.Sig, res.What)
		}
		r.Violate(res.Sig, res.What, map[string]any{"part": "syncer-slots", "config": c, "events": res.Events})
	}
	if done == 0 {
		tail := stderr.String()
		if i := strings.Index(tail, "panic:"); i >= 0 {
			tail = tail[i:]
		}
		if len(tail) > 1500 {
			tail = tail[:1500]
		}
		if !strings.Contains(tail, "panic:") && !strings.Contains(tail, "fatal error:") {
			ev.HarnessError("slots child for %v ended without a result (%v): %s", c, runErr, tail)
		}
		r.Violate("c18:slots:process-crash:"+c.String(), fmt.Sprintf("%v: the process running the syncer crashed: %s", c, tail),
			map[string]any{"part": "syncer-slots", "config": c, "events": "any (first inbound peer)"})
	}
	return done
}

// doClose calls Close while handlers may still be at the gate. Everything at the gate (and anything that
// still slips in before the thread group is stopped) is released, Close must then return, and at the moment
// it returns no admitted handler may still be running.
func doClose(s *syncer.Syncer, g *gatedCM, model *slModel, runDone chan error, where string) (string, string) {
	closeDone := make(chan int, 1)
	go func() {
		s.Close()
		closeDone <- g.activeCount()
	}()
	model.closed = true
	stopRelease := make(chan struct{})
	var wg sync.WaitGroup
	wg.Add(1)
	released := g.releasedSet
	go func() {
		defer wg.Done()
		for {
			g.mu.Lock()
			var chans []chan struct{}
			for _, m := range g.active {
				for _, ch := range m {
					if !released[ch] {
						released[ch] = true
						chans = append(chans, ch)
					}
				}
			}
			g.mu.Unlock()
			for _, ch := range chans {
				close(ch)
			}
			select {
			case <-g.entered:
			case <-stopRelease:
				return
			case <-time.After(time.Millisecond):
			}
		}
	}()
	defer func() { close(stopRelease); wg.Wait() }()
	for p := range model.inflight {
		delete(model.inflight, p)
	}
	select {
	case active := <-closeDone:
		if active != 0 {
			return "c18:close-returned-with-handlers-running", fmt.Sprintf("%s: Close returned while %d admitted handlers were still running", where, active)
		}
	case <-time.After(30 * time.Second):
		return "c18:close-deadlock", fmt.Sprintf("%s: Close did not return within 30 s although every handler was released", where)
	}
	select {
	case <-runDone:
	case <-time.After(30 * time.Second):
		return "c18:run-does-not-stop", fmt.Sprintf("%s: Run did not return within 30 s after Close", where)
	}
	return "", ""
}
