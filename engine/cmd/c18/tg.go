package main

import (
	"context"
	"errors"
	"fmt"
	"time"

	"go.sia.tech/coreutils/threadgroup"
	"go.sia.tech/coreutils/vsync"
	"verif/internal/ev"
	"verif/internal/explore"
)

// tgScenario: nWorkers threads doing Add/work/done, nStoppers threads calling
// Stop, and optionally a late worker that calls Add only after a Stop returned.
type tgCfg struct {
	Workers  int
	Stoppers int
	Ctx      bool // workers use AddContext + cancel instead of Add
	TwoRound bool // every worker tries Add twice
}

func (c tgCfg) String() string {
	return fmt.Sprintf("tg{workers:%d stoppers:%d ctx:%v tworound:%v}", c.Workers, c.Stoppers, c.Ctx, c.TwoRound)
}

type tgObs struct {
	admitted, finished []int // per worker: number of admitted/finished rounds
	rejected           []int
	stopReturned       int
	outcome            string
	viol               string
	sig                string
}

func tgScenario(cfg tgCfg, obs **tgObs) explore.Scenario {
	return func() ([]func(), func(*vsync.Execution) (string, string)) {
		tg := threadgroup.New()
		o := &tgObs{admitted: make([]int, cfg.Workers), finished: make([]int, cfg.Workers), rejected: make([]int, cfg.Workers)}
		*obs = o
		fail := func(sig, f string, a ...any) {
			if o.viol == "" {
				o.sig, o.viol = sig, fmt.Sprintf(f, a...)
			}
		}
		var bodies []func()
		for w := 0; w < cfg.Workers; w++ {
			w := w
			bodies = append(bodies, func() {
				rounds := 1
				if cfg.TwoRound {
					rounds = 2
				}
				for r := 0; r < rounds; r++ {
					var done func()
					var err error
					var ctx context.Context
					if cfg.Ctx {
						var cancel context.CancelFunc
						ctx, cancel, err = tg.AddContext(context.Background())
						done = cancel
					} else {
						done, err = tg.Add()
					}
					if err != nil {
						if !errors.Is(err, threadgroup.ErrClosed) {
							fail("tg:wrong-error", "Add returned %v", err)
						}
						o.rejected[w]++
						continue
					}
					if o.stopReturned > 0 {
						fail("tg:add-after-stop", "%v: worker %d was admitted after Stop had returned", cfg, w)
					}
					o.admitted[w]++
					vsync.Yield("work") // the worker's critical work: a Stop must not return while we are here
					if o.stopReturned > 0 {
						fail("tg:stop-returned-early", "%v: Stop returned while admitted worker %d was still running", cfg, w)
					}
					if cfg.Ctx && o.stopReturned == 0 {
						// nothing to assert about ctx here: cancellation is asynchronous
						_ = ctx
					}
					o.finished[w]++
					done()
					if cfg.Ctx {
						done() // cancel funcs must be idempotent
					}
				}
			})
		}
		for s := 0; s < cfg.Stoppers; s++ {
			bodies = append(bodies, func() {
				tg.Stop()
				for w := range o.admitted {
					if o.admitted[w] != o.finished[w] {
						fail("tg:stop-returned-early", "%v: Stop returned with worker %d admitted=%d finished=%d", cfg, w, o.admitted[w], o.finished[w])
					}
				}
				o.stopReturned++
				select {
				case <-tg.Done():
				default:
					fail("tg:done-not-closed", "%v: Done() channel open after Stop returned", cfg)
				}
				if _, err := tg.Add(); !errors.Is(err, threadgroup.ErrClosed) {
					fail("tg:add-after-stop", "%v: Add after Stop returned err=%v", cfg, err)
				}
				if cfg.Ctx {
					ctx, cancel := tg.WithContext(context.Background())
					select {
					case <-ctx.Done():
					case <-time.After(60 * time.Second):
						fail("tg:ctx-not-cancelled", "%v: WithContext on a stopped group was not cancelled within 60s", cfg)
					}
					cancel()
				}
			})
		}
		check := func(x *vsync.Execution) (string, string) {
			if x.Deadlock {
				return "tg:deadlock", fmt.Sprintf("%v: deadlock: %v", cfg, x.Blocked)
			}
			if len(x.Panics) > 0 {
				return "tg:panic", fmt.Sprintf("%v: panic: %v", cfg, x.Panics)
			}
			if vsync.TakeMisuse() {
				return "tg:waitgroup-misuse", fmt.Sprintf("%v: WaitGroup.Add from zero concurrent with Wait", cfg)
			}
			if x.StepLimit {
				return "tg:livelock", fmt.Sprintf("%v: step limit exceeded", cfg)
			}
			o.outcome = fmt.Sprint(o.admitted, o.rejected)
			return o.sig, o.viol
		}
		return bodies, check
	}
}

func runThreadgroup(r *ev.Run) {
	cfgs := []tgCfg{
		{Workers: 1, Stoppers: 1}, {Workers: 2, Stoppers: 1}, {Workers: 2, Stoppers: 2}, {Workers: 3, Stoppers: 1},
		{Workers: 2, Stoppers: 1, Ctx: true}, {Workers: 2, Stoppers: 1, TwoRound: true},
	}
	bound := 2
	if r.Thorough() {
		bound = 4
		cfgs = append(cfgs, tgCfg{Workers: 3, Stoppers: 2}, tgCfg{Workers: 3, Stoppers: 1, Ctx: true}, tgCfg{Workers: 2, Stoppers: 2, Ctx: true, TwoRound: true}, tgCfg{Workers: 3, Stoppers: 2, TwoRound: true})
	}
	for _, cfg := range cfgs {
		var obs *tgObs
		sc := tgScenario(cfg, &obs)
		for b := 0; b <= bound; b++ {
			e := &explore.Explorer{Bound: b, MaxExec: 400000, MaxSteps: 2000, Stop: r.Expired, Observe: func() string { return obs.outcome }}
			res := e.Run(sc)
			r.Add(int64(res.Points), int64(res.Points), int64(res.Executions), int64(res.Executions))
			for o := range res.Outcomes {
				r.Distinct("tg", cfg.String(), o)
			}
			if res.Capped {
				r.Cap(fmt.Sprintf("%v bound %d capped after %d executions", cfg, b, res.Executions))
			}
			if b == bound || len(res.Violations) > 0 {
				r.Sample(map[string]any{"part": "threadgroup", "scenario": cfg.String(), "preemption_bound": b, "executions": res.Executions, "distinct_outcomes": len(res.Outcomes), "max_points": res.MaxPoints})
			}
			for _, v := range res.Violations {
				// determinism gate: replay five times
				ok := true
				for i := 0; i < 5; i++ {
					_, sig, _ := explore.Replay(sc, v.Choices, 2000)
					if sig != v.Signature {
						ok = false
					}
				}
				if !ok {
					ev.HarnessError("threadgroup violation %q does not replay deterministically (choices %v)", v.Signature, v.Choices)
				}
				r.Violate(v.Signature, v.What, map[string]any{"part": "threadgroup", "cfg": cfg, "choices": v.Choices, "schedule": v.Schedule})
			}
			if len(res.Violations) > 0 {
				break
			}
		}
	}
}
