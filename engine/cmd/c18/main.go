// c18 decides property C18 (limits and shutdown under any schedule).
package main

import (
	"flag"
	"time"

	"verif/internal/ev"
)

func main() {
	tier := flag.String("tier", "", "quick|thorough")
	flag.Parse()
	r := ev.New("C18", *tier, "model_checking")
	r.SetBudget(10 * time.Minute)
	if r.Thorough() {
		r.SetBudget(25 * time.Minute)
	}
	r.Rule = "threadgroup: every schedule (scheduling point before each Lock/Unlock/WaitGroup op of the real threadgroup.go, re-pointed at the scheduler-aware sync shim) of k workers {Add|AddContext; work; done} and s stoppers {Stop; Add} with at most B preemptions; distinct = distinct (admitted,rejected) outcome vectors per scenario"
	runThreadgroup(r)
	r.Explanation = "threadgroup part: iterative preemption bounding over the real ThreadGroup; see samples for per-scenario bounds."
	r.Assumptions = append(r.Assumptions, "lock-granular interleavings only (memory-model effects are left to the separate -race pass)", "Go runtime, go.sia.tech/core trusted")
	r.Finish()
}
