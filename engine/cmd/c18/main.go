// c18 decides property C18 (limits and shutdown under any schedule).
package main

import (
	"flag"
	"os"
	"strings"
	"time"

	"verif/internal/ev"
)

func main() {
	tier := flag.String("tier", "", "quick|thorough")
	replay := flag.String("replay", "", "replay file: report only the violation it records")
	slotsChild := flag.String("slots-child", "", "internal: run the slot sequences of one configuration (JSON) and print results")
	maxLen := flag.Int("maxlen", 5, "internal: sequence length for -slots-child")
	flag.Parse()
	if *slotsChild != "" {
		runSlotsChild(*slotsChild, *maxLen)
	}
	r := ev.New("C18", *tier, "model_checking")
	if *replay != "" {
		r.SetReplay(*replay)
	}
	r.SetBudget(10 * time.Minute)
	if r.Thorough() {
		r.SetBudget(25 * time.Minute)
	}
	r.Rule = "threadgroup: every schedule (scheduling point before each Lock/Unlock/WaitGroup op of the real threadgroup.go, re-pointed at the scheduler-aware sync shim) of k workers {Add|AddContext; work; done} and s stoppers {Stop; Add} with at most B preemptions; distinct = distinct (admitted,rejected) outcome vectors per scenario"
	// VERIF_C18_PARTS (debugging aid): comma-separated subset of tg,slots,caps,rhp
	part := func(n string) bool { p := os.Getenv("VERIF_C18_PARTS"); return p == "" || strings.Contains(p, n) }
	if part("tg") {
		runThreadgroup(r)
	}
	if part("slots") {
		runSyncerLimits(r)
	}
	if part("caps") {
		runPeerCapsAll(r)
	}
	if part("rhp") {
		runRHPServerClose(r)
	}
	r.Rule += "; syncer-slots: every maximal sequence of environment events {send(peer,rpc), release(peer,rpc), close} of the stated length per limit configuration (per-peer L, per-subnet M, peers per subnet), run step by step against a real syncer.Syncer whose RPCSendHeaders handlers park at a gate in the ChainManager, compared after every event with a reference model (which handlers must have started, which requests must have been dropped, which answered), exact high-water marks per peer and per subnet, Close must return with zero handlers running and Run must return; syncer-peercaps: every maximal sequence of {connect(i), handshake(i), drop(i), closeBegin, closeEnd} (listener Close latency decided by the environment) against a real Syncer: inbound peers <= MaxInboundPeers after every event, admission without contention, slots returned, Close/Run return, no peer or open connection left; rhp-server-close: every maximal sequence of {start(i), finish(i), close} (3 RPCs, length 6; thorough 4/8) against the real rhp4.Server through Serve with the real client, handlers parked at the contractor lock: Close returns only after every admitted handler finished and does return then, RPCs issued after Close took effect are refused and never reach the contractor"
	r.Explanation = "threadgroup part: iterative preemption bounding over the real ThreadGroup (see samples for per-scenario bounds); syncer parts: all event sequences up to the bound, each replayed on a fresh Syncer over an in-memory network, quiescence after each event observed at the connections/gate (no sleeps except a 20 ms settle after an empty teardown sweep). Configurations with a non-positive per-peer limit run in a child process so that a crash is reported as a violation."
	r.Assumptions = append(r.Assumptions, "lock-granular interleavings only (memory-model effects are left to the separate -race pass)", "Go runtime, go.sia.tech/core trusted")
	r.Finish()
}
