package main

import (
	"context"
	"fmt"
	"strings"
	"sync"
	"time"

	"go.sia.tech/core/types"
	rhp "go.sia.tech/coreutils/rhp/v4"

	"verif/internal/ev"
	"verif/internal/node"
	"verif/internal/rhpx"
	"verif/internal/univ"
)

// Part (d): rhp4.Server.Close against the real server (through Serve over in-memory streams) with the real
// client. A handler is "in flight" while it is parked at the contractor's lock call (RPCLatestRevision ->
// LockV2Contract); the environment decides when each handler may continue and when Close is called. Every
// sequence of {start(i), finish(i), close, new} up to a bound is run.
//
//	Close returns only after every admitted handler has finished, and does return once they have;
//	an RPC issued after Close has taken effect is refused with an error and never reaches the contractor.

type rsEvent struct {
	Kind string // start, finish, close, new
	I    int
}

func (e rsEvent) String() string {
	if e.Kind == "close" || e.Kind == "new" {
		return e.Kind
	}
	return fmt.Sprintf("%s(%d)", e.Kind, e.I)
}

var rsUniverse = sync.OnceValue(func() *univ.Universe { return univ.NewUniverse("rhp-close", univ.RegimeV2) })

func runRHPClose(events []rsEvent) (sig, what string) {
	n := node.New(rsUniverse())
	w := rhpx.NewWorldWith(n.CM, nil, true)
	w.T.Buffered = true // a refused RPC is answered without its request being read
	w.Plant(1, types.Siacoins(100), types.Siacoins(50))
	desc := func(i int) string { return fmt.Sprintf("rhp server, events %v (at #%d)", events[:i+1], i+1) }
	var mu sync.Mutex
	parked := map[int]chan struct{}{} // handler index -> release
	arrived := make(chan int, 16)
	next := 0 // index the next LockV2Contract call belongs to (calls are started one at a time)
	inside := 0
	w.Con.LockHook = func(string) {
		mu.Lock()
		i := next
		ch := make(chan struct{})
		parked[i] = ch
		inside++
		mu.Unlock()
		arrived <- i
		<-ch
		mu.Lock()
		inside--
		mu.Unlock()
	}
	results := map[int]chan error{}
	closeDone := make(chan int, 1)
	closing, closed := false, false
	started := map[int]bool{}
	finished := map[int]bool{}
	release := func(i int) {
		mu.Lock()
		ch := parked[i]
		delete(parked, i)
		mu.Unlock()
		if ch != nil {
			close(ch)
		}
	}
	defer func() {
		mu.Lock()
		for i, ch := range parked {
			close(ch)
			delete(parked, i)
		}
		mu.Unlock()
		done := make(chan struct{})
		go func() { w.Close(); close(done) }()
		select {
		case <-done:
		case <-time.After(30 * time.Second):
			if sig == "" {
				sig, what = "c18:rhp:close-deadlock", fmt.Sprintf("rhp server, events %v: the server could not be shut down within 30 s at the end of the run", events)
			}
		}
	}()
	call := func() error {
		ctx, cancel := context.WithTimeout(context.Background(), 60*time.Second)
		defer cancel()
		_, err := rhp.RPCLatestRevision(ctx, w.T, w.Contract.ID)
		return err
	}
	for i, e := range events {
		switch e.Kind {
		case "start":
			if started[e.I] {
				continue
			}
			started[e.I] = true
			mu.Lock()
			next = e.I
			mu.Unlock()
			ch := make(chan error, 1)
			results[e.I] = ch
			go func() { ch <- call() }()
			if closed || closing {
				// must be refused: an error, and the handler never reaches the contractor
				select {
				case err := <-ch:
					if err == nil {
						return "c18:rhp:rpc-served-after-close", desc(i) + ": an RPC issued after Close was answered"
					}
					finished[e.I] = true
				case j := <-arrived:
					return "c18:rhp:rpc-admitted-after-close", desc(i) + fmt.Sprintf(": RPC %d issued after Close reached the contractor", j)
				case <-time.After(20 * time.Second):
					return "c18:rhp:rpc-after-close-hangs", desc(i) + ": an RPC issued after Close was neither refused nor served within 20 s"
				}
				continue
			}
			select {
			case <-arrived:
			case err := <-ch:
				return "c18:rhp:rpc-failed", desc(i) + fmt.Sprintf(": RPC failed before reaching the contractor: %v", err)
			case <-time.After(20 * time.Second):
				return "c18:rhp:handler-not-started", desc(i) + ": the handler did not start within 20 s"
			}
		case "finish":
			if !started[e.I] || finished[e.I] {
				continue
			}
			finished[e.I] = true
			release(e.I)
			select {
			case err := <-results[e.I]:
				if err != nil {
					return "c18:rhp:admitted-rpc-failed", desc(i) + fmt.Sprintf(": an RPC admitted before Close failed: %v", err)
				}
			case <-time.After(20 * time.Second):
				return "c18:rhp:admitted-rpc-no-answer", desc(i) + ": a released handler did not answer within 20 s"
			}
		case "close":
			if closing {
				continue
			}
			closing = true
			go func() {
				w.Srv.Close()
				mu.Lock()
				n := inside
				mu.Unlock()
				closeDone <- n
			}()
			// Close has taken effect once a probe is refused (probes that are refused have no effect)
			deadline := time.Now().Add(20 * time.Second)
			for {
				ctx, cancel := context.WithTimeout(context.Background(), 5*time.Second)
				_, err := rhp.RPCSettings(ctx, w.T)
				cancel()
				// refused: either the host's "shutting down" error arrives, or the stream is closed under the
				// request that is still being written (the server answers without reading it)
				if err != nil && (strings.Contains(err.Error(), "shutting down") || strings.Contains(err.Error(), "closed pipe") || strings.Contains(err.Error(), "EOF")) {
					break
				}
				if time.Now().After(deadline) {
					return "c18:rhp:close-does-not-refuse", desc(i) + fmt.Sprintf(": 20 s after Close was called RPCs are still not refused (last answer: %v)", err)
				}
				time.Sleep(200 * time.Microsecond)
			}
		}
		// Close must not have returned while a handler is still inside
		select {
		case n := <-closeDone:
			closed = true
			if n != 0 {
				return "c18:rhp:close-returned-with-handlers-running", desc(i) + fmt.Sprintf(": Close returned while %d admitted handlers were still running", n)
			}
			open := 0
			for k := range started {
				if !finished[k] {
					open++
				}
			}
			if open != 0 {
				return "c18:rhp:close-returned-with-handlers-running", desc(i) + fmt.Sprintf(": Close returned although %d admitted RPCs have not been released", open)
			}
		default:
		}
	}
	if closing && !closed {
		// release everything: Close must now return
		for k := range started {
			if !finished[k] {
				release(k)
			}
		}
		select {
		case n := <-closeDone:
			if n != 0 {
				return "c18:rhp:close-returned-with-handlers-running", fmt.Sprintf("rhp server, events %v: Close returned while %d handlers were still running", events, n)
			}
		case <-time.After(30 * time.Second):
			return "c18:rhp:close-deadlock", fmt.Sprintf("rhp server, events %v: Close did not return within 30 s although every handler was released", events)
		}
	}
	return "", ""
}

func rsSequences(k, maxLen int) [][]rsEvent {
	var out [][]rsEvent
	var rec func(seq []rsEvent, started, finished []bool, closed bool)
	rec = func(seq []rsEvent, started, finished []bool, closed bool) {
		if len(seq) == maxLen {
			out = append(out, append([]rsEvent(nil), seq...))
			return
		}
		ext := false
		for i := 0; i < k; i++ {
			if !started[i] && (i == 0 || started[i-1]) {
				started[i] = true
				rec(append(seq, rsEvent{"start", i}), started, finished, closed)
				started[i] = false
				ext = true
			}
			if started[i] && !finished[i] {
				finished[i] = true
				rec(append(seq, rsEvent{"finish", i}), started, finished, closed)
				finished[i] = false
				ext = true
			}
		}
		if !closed {
			rec(append(seq, rsEvent{Kind: "close"}), started, finished, true)
			ext = true
		}
		if !ext {
			out = append(out, append([]rsEvent(nil), seq...))
		}
	}
	rec(nil, make([]bool, k), make([]bool, k), false)
	return out
}

func runRHPServerClose(r *ev.Run) {
	k, maxLen := 3, 6
	if r.Thorough() {
		k, maxLen = 4, 8
	}
	seqs := rsSequences(k, maxLen)
	var wg sync.WaitGroup
	sem := make(chan struct{}, 16)
	for i, sq := range seqs {
		if r.Expired() {
			r.Cap("time budget: not all rhp server sequences run")
			break
		}
		wg.Add(1)
		sem <- struct{}{}
		go func() {
			defer wg.Done()
			defer func() { <-sem }()
			sig, what := runRHPClose(sq)
			r.Add(int64(len(sq)), int64(len(sq)), 1, 1)
			r.Distinct("rhp-close", fmt.Sprint(sq))
			if sig != "" {
				r.Violate(sig, what, map[string]any{"part": "rhp-server-close", "events": fmt.Sprint(sq)})
			}
			if i%97 == 0 {
				r.Sample(map[string]any{"part": "rhp-server-close", "events": fmt.Sprint(sq)})
			}
		}()
	}
	wg.Wait()
	r.Extra["rhp_close_sequences"] = len(seqs)
}
