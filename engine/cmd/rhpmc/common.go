package main

import (
	"context"
	"fmt"
	"net"
	"runtime"
	"sync"

	proto4 "go.sia.tech/core/rhp/v4"
	"go.sia.tech/core/types"
	rhp "go.sia.tech/coreutils/rhp/v4"
	"verif/internal/node"
	"verif/internal/rhpx"
	"verif/internal/univ"
)

var (
	baseU    *univ.Universe
	baseOnce sync.Once
)

// newWorld builds a rig on a fresh real chain.Manager at genesis of the v2 regime.
func newWorld() *rhpx.World { return newWorldWith(false) }

// newWorldWith selects the contractor: the in-repo reference contractor, or the trusting one.
func newWorldWith(trusting bool) *rhpx.World {
	baseOnce.Do(func() { baseU = univ.NewUniverse("rhp", univ.RegimeV2) })
	n := node.New(baseU)
	return rhpx.NewWorldWith(n.CM, nil, trusting)
}

func newWorldWithSectors(wrap func(rhp.Sectors) rhp.Sectors) *rhpx.World {
	baseOnce.Do(func() { baseU = univ.NewUniverse("rhp", univ.RegimeV2) })
	n := node.New(baseU)
	return rhpx.NewWorldWrap(n.CM, nil, true, wrap)
}

var ctx = context.Background()

func parallel(n int, fn func(i int)) {
	var wg sync.WaitGroup
	sem := make(chan struct{}, runtime.NumCPU())
	for i := 0; i < n; i++ {
		wg.Add(1)
		sem <- struct{}{}
		go func() {
			defer wg.Done()
			defer func() { <-sem }()
			fn(i)
		}()
	}
	wg.Wait()
}

// listModel is the reference for sector roots: append at the end, swap-remove from the end.
func modelFree(roots []types.Hash256, indices []uint64) []types.Hash256 {
	// normalised as the honest client does: descending, unique
	seen := map[uint64]bool{}
	var idx []uint64
	for _, i := range indices {
		if !seen[i] {
			seen[i] = true
			idx = append(idx, i)
		}
	}
	for i := 0; i < len(idx); i++ {
		for j := i + 1; j < len(idx); j++ {
			if idx[j] > idx[i] {
				idx[i], idx[j] = idx[j], idx[i]
			}
		}
	}
	out := append([]types.Hash256(nil), roots...)
	for _, n := range idx {
		if n >= uint64(len(out)) {
			return nil // out of range: the request must be rejected
		}
		out[n] = out[len(out)-1]
		out = out[:len(out)-1]
	}
	return out
}

// rawFree speaks RPCFreeSectors by hand: indices are sent as given (no normalisation); stopAfter selects
// where the renter stops (0: run to completion, 1: after the request, 2: after reading the proof, 3: after
// sending the signature, before reading the host's); badSig sends a wrong renter signature.
func rawFree(w *rhpx.World, c rhp.ContractRevision, indices []uint64, stopAfter int, badSig bool) (rev types.V2FileContract, err error) {
	req := proto4.RPCFreeSectorsRequest{ContractID: c.ID, Prices: w.Prices, Indices: indices}
	req.ChallengeSignature = w.RenterKey.SignHash(req.ChallengeSigHash(c.Revision.RevisionNumber + 1))
	s, err := w.T.DialStream(ctx)
	if err != nil {
		return rev, err
	}
	defer s.Close()
	if err := proto4.WriteRequest(s, proto4.RPCFreeSectorsID, &req); err != nil {
		return rev, err
	}
	if stopAfter == 1 {
		return rev, fmt.Errorf("aborted after request")
	}
	var resp proto4.RPCFreeSectorsResponse
	if err := proto4.ReadResponse(s, &resp); err != nil {
		return rev, err
	}
	if stopAfter == 2 {
		return rev, fmt.Errorf("aborted after proof")
	}
	revision, _, err := proto4.ReviseForFreeSectors(c.Revision, w.Prices, resp.NewMerkleRoot, len(indices))
	if err != nil {
		return rev, err
	}
	sigHash := w.CS.ContractSigHash(revision)
	revision.RenterSignature = w.RenterKey.SignHash(sigHash)
	if badSig {
		revision.RenterSignature[5] ^= 1
	}
	if err := proto4.WriteResponse(s, &proto4.RPCFreeSectorsSecondResponse{RenterSignature: revision.RenterSignature}); err != nil {
		return rev, err
	}
	if stopAfter == 3 {
		return rev, fmt.Errorf("aborted after signature")
	}
	var hs proto4.RPCFreeSectorsThirdResponse
	if err := proto4.ReadResponse(s, &hs); err != nil {
		return rev, err
	}
	revision.HostSignature = hs.HostSignature
	return revision, nil
}

// rawAppend likewise for RPCAppendSectors.
func rawAppend(w *rhpx.World, c rhp.ContractRevision, roots []types.Hash256, stopAfter int, badSig bool) (rev types.V2FileContract, err error) {
	req := proto4.RPCAppendSectorsRequest{Prices: w.Prices, Sectors: roots, ContractID: c.ID}
	req.ChallengeSignature = w.RenterKey.SignHash(req.ChallengeSigHash(c.Revision.RevisionNumber + 1))
	s, err := w.T.DialStream(ctx)
	if err != nil {
		return rev, err
	}
	defer s.Close()
	if err := proto4.WriteRequest(s, proto4.RPCAppendSectorsID, &req); err != nil {
		return rev, err
	}
	if stopAfter == 1 {
		return rev, fmt.Errorf("aborted after request")
	}
	var resp proto4.RPCAppendSectorsResponse
	if err := proto4.ReadResponse(s, &resp); err != nil {
		return rev, err
	}
	if stopAfter == 2 {
		return rev, fmt.Errorf("aborted after proof")
	}
	var n uint64
	for _, a := range resp.Accepted {
		if a {
			n++
		}
	}
	revision, _, err := proto4.ReviseForAppendSectors(c.Revision, w.Prices, resp.NewMerkleRoot, n)
	if err != nil {
		return rev, err
	}
	sigHash := w.CS.ContractSigHash(revision)
	revision.RenterSignature = w.RenterKey.SignHash(sigHash)
	if badSig {
		revision.RenterSignature[5] ^= 1
	}
	if err := proto4.WriteResponse(s, &proto4.RPCAppendSectorsSecondResponse{RenterSignature: revision.RenterSignature}); err != nil {
		return rev, err
	}
	if stopAfter == 3 {
		return rev, fmt.Errorf("aborted after signature")
	}
	var hs proto4.RPCAppendSectorsThirdResponse
	if err := proto4.ReadResponse(s, &hs); err != nil {
		return rev, err
	}
	revision.HostSignature = hs.HostSignature
	return revision, nil
}

var _ net.Conn

func goid() int64 {
	var buf [64]byte
	n := runtime.Stack(buf[:], false)
	var id int64
	for _, c := range buf[10:n] {
		if c < '0' || c > '9' {
			break
		}
		id = id*10 + int64(c-'0')
	}
	return id
}
