package main

import (
	"bytes"
	"context"
	"fmt"
	"net"
	"time"

	proto4 "go.sia.tech/core/rhp/v4"
	"go.sia.tech/core/types"
	rhp "go.sia.tech/coreutils/rhp/v4"

	"verif/internal/rhpx"
)

// scriptedHost is a hand-written host for the replenish exchanges: it answers the first message with the
// deposits a lie function chooses and then signs, with the real host key, whatever revision follows from
// them. What the real server would never send (more deposits than accounts, deposits for other accounts,
// deposits above the target) is what the renter-side bound has to catch.
type scriptedHost struct {
	hostKey types.PrivateKey
	cs      func(fc types.V2FileContract) types.Hash256
	prev    types.V2FileContract
	pools   bool
	lie     func(accounts []proto4.Account, target types.Currency) []proto4.AccountDeposit
}

func (h *scriptedHost) DialStream(ctx context.Context) (net.Conn, error) {
	c, s := net.Pipe()
	go h.serve(s)
	return c, nil
}
func (h *scriptedHost) FrameSize() int           { return 1440 }
func (h *scriptedHost) PeerKey() types.PublicKey { return h.hostKey.PublicKey() }
func (h *scriptedHost) Close() error             { return nil }

func (h *scriptedHost) serve(s net.Conn) {
	defer s.Close()
	s.SetDeadline(time.Now().Add(10 * time.Second))
	if _, err := proto4.ReadID(s); err != nil {
		return
	}
	// (the pool variant uses the same wire messages under another RPC id)
	var req proto4.RPCReplenishAccountsRequest
	if proto4.ReadRequest(s, &req) != nil {
		return
	}
	deposits := h.lie(req.Accounts, req.Target)
	var total types.Currency
	for _, d := range deposits {
		total = total.Add(d.Amount)
	}
	if proto4.WriteResponse(s, &proto4.RPCReplenishAccountsResponse{Deposits: deposits}) != nil {
		return
	}
	var second proto4.RPCReplenishAccountsSecondResponse
	if proto4.ReadResponse(s, &second) != nil {
		return
	}
	rev, _, err := proto4.ReviseForReplenish(h.prev, total)
	if err != nil {
		return
	}
	sig := h.hostKey.SignHash(h.cs(rev))
	proto4.WriteResponse(s, &proto4.RPCReplenishAccountsThirdResponse{HostSignature: sig})
}

// c10Scripted: replenish against a host that lies about the deposits.
func c10Scripted() {
	w := c10World()
	defer w.Close()
	target := types.Siacoins(30)
	other := acc(rhpx.Key("c10-stranger"))
	lies := map[string]func(a []proto4.Account, t types.Currency) []proto4.AccountDeposit{
		"honest-full": func(a []proto4.Account, t types.Currency) (d []proto4.AccountDeposit) {
			for _, x := range a {
				d = append(d, proto4.AccountDeposit{Account: x, Amount: t})
			}
			return
		},
		"extra-deposits-x5": func(a []proto4.Account, t types.Currency) (d []proto4.AccountDeposit) {
			for i := 0; i < 5; i++ {
				for _, x := range a {
					d = append(d, proto4.AccountDeposit{Account: x, Amount: t})
				}
			}
			return
		},
		"one-extra-small-deposit": func(a []proto4.Account, t types.Currency) (d []proto4.AccountDeposit) {
			for _, x := range a {
				d = append(d, proto4.AccountDeposit{Account: x, Amount: t})
			}
			return append(d, proto4.AccountDeposit{Account: other, Amount: types.NewCurrency64(1)})
		},
		"deposit-above-target": func(a []proto4.Account, t types.Currency) (d []proto4.AccountDeposit) {
			for _, x := range a {
				d = append(d, proto4.AccountDeposit{Account: x, Amount: t.Add(types.NewCurrency64(1))})
			}
			return
		},
		"first-deposit-doubled-rest-missing": func(a []proto4.Account, t types.Currency) (d []proto4.AccountDeposit) {
			return []proto4.AccountDeposit{{Account: a[0], Amount: t.Mul64(2)}}
		},
		"no-deposits": func(a []proto4.Account, t types.Currency) []proto4.AccountDeposit { return nil },
	}
	n := 0
	for _, pools := range []bool{false, true} {
		for _, nAcc := range []int{1, 2} {
			as := []proto4.Account{acc(rhpx.Key("c10-account")), acc(rhpx.Key("c10-b"))}[:nAcc]
			for name, lie := range lies {
				h := &scriptedHost{hostKey: w.HostKey, cs: w.CS.ContractSigHash, prev: w.Contract.Revision, pools: pools, lie: lie}
				var rev types.V2FileContract
				var err error
				kind := "accounts"
				if pools {
					kind = "pools"
					var res rhp.RPCReplenishPoolsResult
					res, err = rhp.RPCReplenishPools(cctx(), h, rhp.RPCReplenishPoolsParams{Pools: as, Target: target, Contract: w.Contract}, w.CS, w.RenterKey)
					rev = res.Revision
				} else {
					var res rhp.RPCReplenishAccountsResult
					res, err = rhp.RPCReplenishAccounts(cctx(), h, rhp.RPCReplenishAccountsParams{Accounts: as, Target: target, Contract: w.Contract}, w.CS, w.RenterKey)
					rev = res.Revision
				}
				n++
				run.Distinct("scripted-replenish", kind, nAcc, name, err == nil)
				if err != nil {
					if name == "honest-full" {
						run.Violate("c10:honest-scripted-host-rejected", fmt.Sprintf("replenish %s (%d) against the scripted host answering honestly failed: %v", kind, nAcc, err), nil)
					}
					continue
				}
				bound := target.Mul64(uint64(nAcc))
				charged := w.Contract.Revision.RenterOutput.Value.Sub(rev.RenterOutput.Value)
				if charged.Cmp(bound) > 0 {
					run.Violate("c10:success-not-bound:replenish-"+kind+":charged-above-bound", fmt.Sprintf("replenish %s for %d entries with target %v against a host answering %q reported success with a host-signed revision charging %v (bound %v)", kind, nAcc, target, name, charged, bound), map[string]any{"kind": kind, "accounts": nAcc, "lie": name})
				}
				if !w.HostKey.PublicKey().VerifyHash(w.CS.ContractSigHash(rev), rev.HostSignature) && !charged.IsZero() {
					run.Violate("c10:success-not-bound:replenish-"+kind+":host-signature", fmt.Sprintf("replenish %s against %q returned a revision without a valid host signature", kind, name), nil)
				}
			}
		}
	}
	run.Add(int64(n), int64(n), int64(n), int64(n))
	run.Extra["scripted_replenish_runs"] = n
}

// rootsHost answers RPCSectorRoots by hand: a correct proof and host signature, but a list of roots chosen by
// a lie function (wrong counts). The client must return an error, not succeed and not panic.
type rootsHost struct {
	hostKey types.PrivateKey
	sign    func(fc types.V2FileContract) types.Hash256
	prev    types.V2FileContract
	all     []types.Hash256
	lie     func(honest []types.Hash256) []types.Hash256
}

func (h *rootsHost) DialStream(ctx context.Context) (net.Conn, error) {
	c, s := net.Pipe()
	go func() {
		defer s.Close()
		s.SetDeadline(time.Now().Add(10 * time.Second))
		if _, err := proto4.ReadID(s); err != nil {
			return
		}
		var req proto4.RPCSectorRootsRequest
		if proto4.ReadRequest(s, &req) != nil {
			return
		}
		rev, _, err := proto4.ReviseForSectorRoots(h.prev, req.Prices, req.Length)
		if err != nil {
			return
		}
		lo, hi := req.Offset, req.Offset+req.Length
		if hi > uint64(len(h.all)) {
			hi = uint64(len(h.all))
		}
		if lo > hi {
			lo = hi
		}
		var proof []types.Hash256
		if len(h.all) > 0 {
			proof = proto4.BuildSectorRootsProof(h.all, lo, hi)
		}
		proto4.WriteResponse(s, &proto4.RPCSectorRootsResponse{Proof: proof, Roots: h.lie(append([]types.Hash256(nil), h.all[lo:hi]...)), HostSignature: h.hostKey.SignHash(h.sign(rev))})
	}()
	return c, nil
}
func (h *rootsHost) FrameSize() int           { return 1440 }
func (h *rootsHost) PeerKey() types.PublicKey { return h.hostKey.PublicKey() }
func (h *rootsHost) Close() error             { return nil }

func c10ScriptedRoots() {
	lies := map[string]func(r []types.Hash256) []types.Hash256{
		"honest": func(r []types.Hash256) []types.Hash256 { return r },
		"one-fewer": func(r []types.Hash256) []types.Hash256 {
			if len(r) == 0 {
				return r
			}
			return r[:len(r)-1]
		},
		"one-more":   func(r []types.Hash256) []types.Hash256 { return append(r, rhpx.Root(91)) },
		"none":       func(r []types.Hash256) []types.Hash256 { return nil },
		"twice":      func(r []types.Hash256) []types.Hash256 { return append(r, r...) },
		"fabricated": func(r []types.Hash256) []types.Hash256 { return []types.Hash256{rhpx.Root(92)} },
	}
	n := 0
	for _, sectors := range []int{0, 1, 4} {
		w := newWorldWith(true)
		w.Plant(sectors, types.Siacoins(500), types.Siacoins(300))
		all := make([]types.Hash256, sectors)
		for i := range all {
			all[i] = rhpx.Root(i)
		}
		for _, rng := range [][2]uint64{{0, 1}, {0, uint64(sectors)}, {1, 2}} {
			if rng[1] == 0 {
				continue
			}
			for name, lie := range lies {
				h := &rootsHost{hostKey: w.HostKey, sign: w.CS.ContractSigHash, prev: w.Contract.Revision, all: all, lie: lie}
				var res rhp.RPCSectorRootsResult
				var err error
				var pan any
				func() {
					defer func() { pan = recover() }()
					res, err = rhp.RPCSectorRoots(cctx(), h, w.CS, w.Prices, w.RenterKey, w.Contract, rng[0], rng[1])
				}()
				n++
				what := fmt.Sprintf("RPCSectorRoots(offset %d, length %d) on a contract with %d sectors against a host answering with roots %q", rng[0], rng[1], sectors, name)
				run.Distinct("scripted-roots", sectors, rng, name, err == nil, pan != nil)
				switch {
				case pan != nil:
					run.Violate("c10:renter-panics-on-host-answer:roots", fmt.Sprintf("%s: the client panicked instead of returning an error: %v", what, pan), map[string]any{"sectors": sectors, "range": rng, "lie": name})
				case err == nil:
					inRange := rng[0]+rng[1] <= uint64(sectors)
					ok := inRange && len(res.Roots) == int(rng[1])
					for i := range res.Roots {
						ok = ok && inRange && res.Roots[i] == all[int(rng[0])+i]
					}
					if !ok {
						run.Violate("c10:success-not-bound:roots:wrong-roots-accepted", fmt.Sprintf("%s reported success with %d roots that are not the contract's roots for that range", what, len(res.Roots)), map[string]any{"sectors": sectors, "range": rng, "lie": name})
					}
				}
			}
		}
		w.Close()
	}
	run.Add(int64(n), int64(n), int64(n), int64(n))
	run.Extra["scripted_roots_runs"] = n
}

// firstAnswerHost answers the first message of an exchange with a hand-built response and reports whether the
// renter went on to send its signature (i.e. accepted the answer).
type firstAnswerHost struct {
	hostKey  types.PrivateKey
	request  proto4.Object
	answer   func() proto4.Object
	second   proto4.Object
	accepted chan bool
	// final, if set, is sent after the renter's second message has been read (a host that completes the exchange)
	final func() proto4.Object
}

func (h *firstAnswerHost) DialStream(ctx context.Context) (net.Conn, error) {
	c, s := net.Pipe()
	go func() {
		defer s.Close()
		s.SetDeadline(time.Now().Add(10 * time.Second))
		if _, err := proto4.ReadID(s); err != nil {
			h.accepted <- false
			return
		}
		if proto4.ReadRequest(s, h.request) != nil {
			h.accepted <- false
			return
		}
		if proto4.WriteResponse(s, h.answer()) != nil {
			h.accepted <- false
			return
		}
		ok := proto4.ReadResponse(s, h.second) == nil
		if ok && h.final != nil {
			proto4.WriteResponse(s, h.final())
		}
		h.accepted <- ok
	}()
	return c, nil
}
func (h *firstAnswerHost) FrameSize() int           { return 1440 }
func (h *firstAnswerHost) PeerKey() types.PublicKey { return h.hostKey.PublicKey() }
func (h *firstAnswerHost) Close() error             { return nil }

// c10ScriptedProofs: free and append against a host whose proof lists have the wrong number of entries.
func c10ScriptedProofs() {
	type listLie struct {
		name string
		f    func(l []types.Hash256) []types.Hash256
	}
	lies := []listLie{
		{"honest", func(l []types.Hash256) []types.Hash256 { return l }},
		{"drop-last", func(l []types.Hash256) []types.Hash256 {
			if len(l) == 0 {
				return l
			}
			return l[:len(l)-1]
		}},
		{"drop-first", func(l []types.Hash256) []types.Hash256 {
			if len(l) == 0 {
				return l
			}
			return l[1:]
		}},
		{"one-more", func(l []types.Hash256) []types.Hash256 {
			return append(append([]types.Hash256(nil), l...), rhpx.Root(93))
		}},
		{"empty", func(l []types.Hash256) []types.Hash256 { return nil }},
		{"many-more", func(l []types.Hash256) []types.Hash256 {
			out := append([]types.Hash256(nil), l...)
			for i := 0; i < 70; i++ {
				out = append(out, rhpx.Root(100+i))
			}
			return out
		}},
	}
	n := 0
	report := func(kind, what string, honest bool, pan any, err error, accepted bool) {
		n++
		run.Distinct("scripted-proofs", kind, what, pan != nil, accepted)
		switch {
		case pan != nil:
			run.Violate("c10:renter-panics-on-host-answer:"+kind, fmt.Sprintf("%s: the client panicked instead of returning an error: %v", what, pan), map[string]any{"case": what})
		case honest && !accepted:
			run.Violate("c10:honest-scripted-host-rejected", fmt.Sprintf("%s: an honest proof was rejected: %v", what, err), nil)
		}
		// (a list with surplus or missing entries that still verifies against the *correct* new root is harmless:
		// the revision the renter signs is the right one. What must never be accepted is a wrong new root.)
	}
	for _, sectors := range []int{1, 2, 5, 8} {
		w := newWorldWith(true)
		w.Plant(sectors, types.Siacoins(500), types.Siacoins(300))
		all := make([]types.Hash256, sectors)
		for i := range all {
			all[i] = rhpx.Root(i)
		}
		// free
		for _, indices := range [][]uint64{{0}, {uint64(sectors - 1)}, {0, uint64(sectors - 1)}} {
			norm := append([]uint64(nil), indices...)
			if len(norm) == 2 && norm[0] == norm[1] {
				norm = norm[:1]
			}
			if len(norm) == 2 {
				norm[0], norm[1] = norm[1], norm[0] // the client sorts descending
			}
			tree, leaves := proto4.BuildFreeSectorsProof(all, norm)
			newRoot := proto4.MetaRoot(modelFree(all, norm))
			for _, which := range []string{"tree", "leaves"} {
				for _, lie := range lies {
					t2, l2 := tree, leaves
					if which == "tree" {
						t2 = lie.f(tree)
					} else {
						l2 = lie.f(leaves)
					}
					same := len(t2) == len(tree) && len(l2) == len(leaves)
					h := &firstAnswerHost{hostKey: w.HostKey, request: &proto4.RPCFreeSectorsRequest{}, second: &proto4.RPCFreeSectorsSecondResponse{}, accepted: make(chan bool, 1),
						answer: func() proto4.Object {
							return &proto4.RPCFreeSectorsResponse{OldSubtreeHashes: t2, OldLeafHashes: l2, NewMerkleRoot: newRoot}
						}}
					var err error
					var pan any
					func() {
						defer func() { pan = recover() }()
						_, err = rhp.RPCFreeSectors(cctx(), h, w.RenterKey, w.CS, w.Prices, w.Contract, indices)
					}()
					acc := false
					if pan == nil {
						acc = <-h.accepted
					}
					report("free", fmt.Sprintf("RPCFreeSectors(%v) on %d sectors, %s hashes %s", indices, sectors, which, lie.name), same, pan, err, acc)
					if which == "tree" {
						// same lists, but a new root that is not the result of the requested free
						hw := &firstAnswerHost{hostKey: w.HostKey, request: &proto4.RPCFreeSectorsRequest{}, second: &proto4.RPCFreeSectorsSecondResponse{}, accepted: make(chan bool, 1),
							answer: func() proto4.Object {
								return &proto4.RPCFreeSectorsResponse{OldSubtreeHashes: t2, OldLeafHashes: l2, NewMerkleRoot: rhpx.Root(99)}
							}}
						var pan2 any
						func() {
							defer func() { pan2 = recover() }()
							rhp.RPCFreeSectors(cctx(), hw, w.RenterKey, w.CS, w.Prices, w.Contract, indices)
						}()
						n++
						if pan2 != nil {
							run.Violate("c10:renter-panics-on-host-answer:free", fmt.Sprintf("RPCFreeSectors(%v) on %d sectors, tree hashes %s, wrong new root: the client panicked: %v", indices, sectors, lie.name, pan2), nil)
						} else if <-hw.accepted {
							run.Violate("c10:success-not-bound:free:wrong-root-accepted", fmt.Sprintf("RPCFreeSectors(%v) on %d sectors, tree hashes %s: the renter accepted a new Merkle root that is not the result of the requested free", indices, sectors, lie.name), nil)
						}
					}
				}
			}
		}
		// free with an index beyond the contract (a caller mistake) against a host that, instead of refusing,
		// answers with a well-formed proof for the in-range part: the client must return an error
		for _, indices := range [][]uint64{{uint64(sectors) + 2}, {0, uint64(sectors)}, {uint64(sectors - 1), uint64(sectors) + 5}} {
			var inRange []uint64
			for _, ix := range indices {
				if ix < uint64(sectors) {
					inRange = append(inRange, ix)
				}
			}
			if len(inRange) == 0 {
				inRange = []uint64{uint64(sectors - 1)}
			}
			tree, leaves := proto4.BuildFreeSectorsProof(all, inRange)
			newRoot := proto4.MetaRoot(modelFree(all, inRange))
			h := &firstAnswerHost{hostKey: w.HostKey, request: &proto4.RPCFreeSectorsRequest{}, second: &proto4.RPCFreeSectorsSecondResponse{}, accepted: make(chan bool, 1),
				answer: func() proto4.Object {
					return &proto4.RPCFreeSectorsResponse{OldSubtreeHashes: tree, OldLeafHashes: leaves, NewMerkleRoot: newRoot}
				}}
			var err error
			var pan any
			func() {
				defer func() { pan = recover() }()
				_, err = rhp.RPCFreeSectors(cctx(), h, w.RenterKey, w.CS, w.Prices, w.Contract, indices)
			}()
			acc := false
			if pan == nil {
				acc = <-h.accepted
			}
			report("free", fmt.Sprintf("RPCFreeSectors(%v) on %d sectors (index out of range), host answers with a proof for %v", indices, sectors, inRange), false, pan, err, acc)
			if pan == nil && acc {
				run.Violate("c10:success-not-bound:free:out-of-range-index-accepted", fmt.Sprintf("RPCFreeSectors(%v) on %d sectors: the renter signed a revision for freeing %v although it asked for an index the contract does not have", indices, sectors, inRange), nil)
			}
		}
		// append
		for _, k := range []int{1, 3} {
			var add []types.Hash256
			for i := 0; i < k; i++ {
				add = append(add, rhpx.Root(50+i))
			}
			subtree, newRoot := proto4.BuildAppendProof(all, add)
			for _, lie := range lies {
				s2 := lie.f(subtree)
				same := len(s2) == len(subtree)
				accepted := make([]bool, k)
				for i := range accepted {
					accepted[i] = true
				}
				h := &firstAnswerHost{hostKey: w.HostKey, request: &proto4.RPCAppendSectorsRequest{}, second: &proto4.RPCAppendSectorsSecondResponse{}, accepted: make(chan bool, 1),
					answer: func() proto4.Object {
						return &proto4.RPCAppendSectorsResponse{Accepted: accepted, SubtreeRoots: s2, NewMerkleRoot: newRoot}
					}}
				var err error
				var pan any
				func() {
					defer func() { pan = recover() }()
					_, err = rhp.RPCAppendSectors(cctx(), h, w.RenterKey, w.CS, w.Prices, w.Contract, add)
				}()
				acc := false
				if pan == nil {
					acc = <-h.accepted
				}
				report("append", fmt.Sprintf("RPCAppendSectors(%d roots) on %d sectors, subtree roots %s", k, sectors, lie.name), same, pan, err, acc)
				hw := &firstAnswerHost{hostKey: w.HostKey, request: &proto4.RPCAppendSectorsRequest{}, second: &proto4.RPCAppendSectorsSecondResponse{}, accepted: make(chan bool, 1),
					answer: func() proto4.Object {
						return &proto4.RPCAppendSectorsResponse{Accepted: accepted, SubtreeRoots: s2, NewMerkleRoot: rhpx.Root(98)}
					}}
				var pan2 any
				func() {
					defer func() { pan2 = recover() }()
					rhp.RPCAppendSectors(cctx(), hw, w.RenterKey, w.CS, w.Prices, w.Contract, add)
				}()
				n++
				if pan2 != nil {
					run.Violate("c10:renter-panics-on-host-answer:append", fmt.Sprintf("RPCAppendSectors(%d roots) on %d sectors, subtree roots %s, wrong new root: the client panicked: %v", k, sectors, lie.name, pan2), nil)
				} else if <-hw.accepted {
					run.Violate("c10:success-not-bound:append:wrong-root-accepted", fmt.Sprintf("RPCAppendSectors(%d roots) on %d sectors, subtree roots %s: the renter accepted a new Merkle root that is not the result of the requested append", k, sectors, lie.name), nil)
				}
			}
		}
		w.Close()
	}
	run.Add(int64(n), int64(n), int64(n), int64(n))
	run.Extra["scripted_proof_runs"] = n
}

// readHost answers RPCReadSector by hand with the leaf-aligned range covering the request, correctly proven.
// For a request that is not leaf-aligned that is more (or other) data than was asked for.
type readHost struct {
	hostKey types.PrivateKey
}

func (h *readHost) DialStream(ctx context.Context) (net.Conn, error) {
	c, s := net.Pipe()
	go func() {
		defer s.Close()
		s.SetDeadline(time.Now().Add(10 * time.Second))
		if _, err := proto4.ReadID(s); err != nil {
			return
		}
		var req proto4.RPCReadSectorRequest
		if proto4.ReadRequest(s, &req) != nil {
			return
		}
		start, end := req.Offset/proto4.LeafSize, (req.Offset+req.Length+proto4.LeafSize-1)/proto4.LeafSize
		segStart, segEnd := proto4.SectorSubtreeRange(start, end)
		cache := proto4.CachedSectorSubtrees(&realSector)
		proof := proto4.BuildSectorProof(realSector[segStart*proto4.LeafSize:segEnd*proto4.LeafSize], start, end, cache)
		data := realSector[start*proto4.LeafSize : end*proto4.LeafSize]
		if proto4.WriteResponse(s, &proto4.RPCReadSectorResponse{Proof: proof, DataLength: uint64(len(data))}) != nil {
			return
		}
		s.Write(data)
	}()
	return c, nil
}
func (h *readHost) FrameSize() int           { return 1440 }
func (h *readHost) PeerKey() types.PublicKey { return h.hostKey.PublicKey() }
func (h *readHost) Close() error             { return nil }

func c10ScriptedRead() {
	initSector()
	w := c10World()
	defer w.Close()
	token := proto4.NewAccountToken(rhpx.Key("c10-account"), w.HostKey.PublicKey())
	n := 0
	for _, rng := range [][2]uint64{{0, 64}, {64, 128}, {32, 32}, {32, 96}, {16, 48}, {96, 32}, {0, 32}, {8, 8}} {
		h := &readHost{hostKey: w.HostKey}
		var buf bytes.Buffer
		var err error
		var pan any
		func() {
			defer func() { pan = recover() }()
			_, err = rhp.RPCReadSector(cctx(), h, w.Prices, token, &buf, realSectorRoot, rng[0], rng[1])
		}()
		n++
		what := fmt.Sprintf("RPCReadSector(offset %d, length %d) against a host answering with the correctly proven leaf-aligned range that covers it", rng[0], rng[1])
		run.Distinct("scripted-read", rng, err == nil, pan != nil)
		switch {
		case pan != nil:
			run.Violate("c10:renter-panics-on-host-answer:read", what+fmt.Sprintf(": the client panicked: %v", pan), nil)
		case err == nil && !bytes.Equal(buf.Bytes(), realSector[rng[0]:rng[0]+rng[1]]):
			run.Violate("c10:success-not-bound:read:other-bytes-delivered", fmt.Sprintf("%s reported success and delivered %d bytes that are not the %d requested bytes", what, buf.Len(), rng[1]), map[string]any{"offset": rng[0], "length": rng[1]})
		case err != nil && rng[0]%proto4.LeafSize == 0 && rng[1]%proto4.LeafSize == 0:
			run.Violate("c10:honest-scripted-host-rejected", what+": an honest aligned answer was rejected: "+err.Error(), nil)
		}
	}
	run.Add(int64(n), int64(n), int64(n), int64(n))
	run.Extra["scripted_read_runs"] = n
}
