package main

import (
	"bytes"
	"context"
	"errors"
	"fmt"
	"net"
	"strings"
	"sync"
	"time"

	proto4 "go.sia.tech/core/rhp/v4"
	"go.sia.tech/core/types"
	rhp "go.sia.tech/coreutils/rhp/v4"
	"go.sia.tech/coreutils/testutil"
	"verif/internal/univ"
)

// renewRig: an honest formation, mined and synced on both sides, ready for renew/refresh.
type renewRig struct {
	*c16Rig
	contract       rhp.ContractRevision
	signerOverride rhp.FormContractSigner
}

func newRenewRig() (*renewRig, error) {
	u, idx := c16Universe() // private universe: the formation block extends it
	r := newC16Rig(u, idx["m3"], idx["m3"], nil)
	ctx, cancel := context.WithTimeout(context.Background(), 5*time.Second)
	res, err := r.form(ctx)
	cancel()
	r.w.T.WaitIdle()
	if err != nil {
		r.close()
		return nil, fmt.Errorf("setup formation failed: %w", err)
	}
	r.w.Con.Take()
	// mine the formation set on top of the tip and give the block to both nodes
	L := u.Nodes[r.host.n.TipNode()].L
	b := univ.BuildBlock(L, univ.TS(u.Net, L.State.Index.Height+1, 5), u.As[3].Addr, nil, r.host.n.CM.V2PoolTransactions())
	k := u.AddRaw(r.host.n.TipNode(), b, "formation")
	if !u.Nodes[k].Valid {
		r.close()
		return nil, fmt.Errorf("formation block invalid: %s", u.Nodes[k].Err)
	}
	for _, p := range []*party{r.host, r.renter} {
		if err := p.n.CM.AddBlocks(u.Blocks([]int{k})); err != nil {
			r.close()
			return nil, err
		}
		p.sync()
	}
	// the reference contractor follows the chain asynchronously: wait (positive event) until it has the element
	ec := r.w.Con.Contractor.(*testutil.EphemeralContractor)
	deadline := time.Now().Add(20 * time.Second)
	for {
		if tip, _ := ec.Tip(); tip == r.host.n.CM.Tip() {
			break
		}
		if time.Now().After(deadline) {
			r.close()
			return nil, errors.New("contractor did not reach the tip within 20 s")
		}
		time.Sleep(time.Millisecond)
	}
	r.w.CS = r.host.n.CM.TipState()
	r.w.Prices = r.w.Prices // prices carry the old tip height; still valid
	return &renewRig{c16Rig: r, contract: res.Contract}, nil
}

func (r *renewRig) call(ctx context.Context, kind string) (rhp.ContractRevision, rhp.TransactionSet, error) {
	cs := r.renter.n.CM.TipState()
	var signer rhp.FormContractSigner = r.signer
	if r.signerOverride != nil {
		signer = r.signerOverride
	}
	switch kind {
	case "renew":
		res, err := rhp.RPCRenewContract(ctx, r.w.T, r.renter.n.CM, signer, cs, r.w.Prices, r.w.Settings.WalletAddress, r.contract.Revision,
			proto4.RPCRenewContractParams{ContractID: r.contract.ID, Allowance: types.Siacoins(25), Collateral: types.Siacoins(20), ProofHeight: r.contract.Revision.ProofHeight + 10})
		return res.Contract, res.RenewalSet, err
	case "refresh-full":
		res, err := rhp.RPCRefreshContractFullRollover(ctx, r.w.T, r.renter.n.CM, signer, cs, r.w.Prices, r.w.Settings.WalletAddress, r.contract.Revision,
			proto4.RPCRefreshContractParams{ContractID: r.contract.ID, Allowance: types.Siacoins(5), Collateral: types.Siacoins(4)})
		return res.Contract, res.RenewalSet, err
	default:
		res, err := rhp.RPCRefreshContractPartialRollover(ctx, r.w.T, r.renter.n.CM, signer, cs, r.w.Prices, r.w.Settings.WalletAddress, r.contract.Revision,
			proto4.RPCRefreshContractParams{ContractID: r.contract.ID, Allowance: types.Siacoins(30), Collateral: types.Siacoins(24)})
		return res.Contract, res.RenewalSet, err
	}
}

func (r *renewRig) checkSuccess(c rhp.ContractRevision, set rhp.TransactionSet, hostHonest bool) string {
	calls := r.w.Con.Take()
	var recorded *types.V2FileContract
	var recID types.FileContractID
	for _, call := range calls {
		if call.Name == "RenewV2Contract" && call.Err == nil {
			recorded, recID = call.Revision, call.Contract
		}
	}
	if recorded == nil {
		return "c16:success-without-host-contract|the renter reports success but the host recorded no renewal"
	}
	cs := r.host.n.CM.TipState()
	if recID != c.ID || cs.ContractSigHash(*recorded) != cs.ContractSigHash(c.Revision) {
		return fmt.Sprintf("c16:parties-hold-different-contracts|renter holds %v (sighash %v), host recorded %v (sighash %v)", c.ID, cs.ContractSigHash(c.Revision), recID, cs.ContractSigHash(*recorded))
	}
	h := cs.ContractSigHash(c.Revision)
	if !r.u.As[1].Key.PublicKey().VerifyHash(h, c.Revision.RenterSignature) || !r.w.HostKey.PublicKey().VerifyHash(h, c.Revision.HostSignature) {
		return "c16:contract-not-fully-signed|the returned renewed contract does not carry both valid signatures"
	}
	if !hostHonest {
		return r.checkReturnedTxn(set.Transactions, h)
	}
	// mining the host's pool (which holds the renewal set) resolves the old contract into exactly the new one
	L := r.u.Nodes[r.host.n.TipNode()].L
	b := univ.BuildBlock(L, univ.TS(r.u.Net, L.State.Index.Height+1, 6), r.u.As[3].Addr, nil, r.host.n.CM.V2PoolTransactions())
	L2, _, err := L.ApplyBlock(b)
	if err != nil {
		return "c16:renewal-block-invalid|" + err.Error()
	}
	if _, still := L2.V2FCEs[r.contract.ID]; still {
		return "c16:old-contract-not-resolved|mining the renewal set leaves the old contract unresolved"
	}
	fce, ok := L2.V2FCEs[c.ID]
	if !ok || cs.ContractSigHash(fce.V2FileContract) != h {
		return "c16:mined-contract-differs|mining the renewal set does not create the agreed contract"
	}
	if len(set.Transactions) == 0 {
		return "c16:empty-renewal-set|the returned renewal set is empty"
	}
	return ""
}

func c16Renewals() {
	type job struct {
		kind, dir, mode string
		at              int
		dial            bool
	}
	var jobs []job
	for _, kind := range []string{"renew", "refresh-full", "refresh-partial"} {
		r, err := newRenewRig()
		if err != nil {
			run.Violate("c16:renew-setup", err.Error(), nil)
			return
		}
		var rec *duplexFault
		r.w.T.Wrap = func(c net.Conn) net.Conn {
			rec = &duplexFault{Conn: c, recR: &bytes.Buffer{}, recW: &bytes.Buffer{}}
			return rec
		}
		ctx, cancel := context.WithTimeout(context.Background(), 5*time.Second)
		c, set, err := r.call(ctx, kind)
		cancel()
		r.w.T.WaitIdle()
		if err != nil {
			run.Violate("c16:honest-"+kind+"-failed", fmt.Sprintf("honest %s failed: %v", kind, err), nil)
		} else if v := r.checkSuccess(c, set, true); v != "" {
			parts := strings.SplitN(v, "|", 2)
			run.Violate(parts[0]+":"+kind, fmt.Sprintf("honest %s: %s", kind, parts[1]), nil)
		}
		step := 16
		if run.Thorough() {
			step = 4
		}
		if rec != nil {
			for p := 0; p < rec.recR.Len(); p += step {
				jobs = append(jobs, job{kind: kind, dir: "h2r", mode: "flip", at: p}, job{kind: kind, dir: "h2r", mode: "cut", at: p})
			}
			for p := 0; p < rec.recW.Len(); p += step {
				jobs = append(jobs, job{kind: kind, dir: "r2h", mode: "flip", at: p}, job{kind: kind, dir: "r2h", mode: "cut", at: p})
			}
		}
		jobs = append(jobs, job{kind: kind, dial: true})
		r.close()
		run.Add(1, 1, 1, 1)
	}
	var mu sync.Mutex
	ok, fail := 0, 0
	parallel(len(jobs), func(i int) {
		if run.Expired() {
			run.Cap("time budget: not all renewal fault positions run")
			return
		}
		j := jobs[i]
		r, err := newRenewRig()
		if err != nil {
			run.Violate("c16:renew-setup", err.Error(), nil)
			return
		}
		defer r.close()
		what := fmt.Sprintf("%s, fault: %s %s at byte %d (dial failure: %v)", j.kind, j.dir, j.mode, j.at, j.dial)
		if j.dial {
			r.w.T.DialErr = errors.New("dial refused")
		} else {
			r.w.T.Wrap = func(c net.Conn) net.Conn { return &duplexFault{Conn: c, dir: j.dir, mode: j.mode, at: j.at} }
		}
		hb, rb := r.host.footprint(), r.renter.footprint()
		ctx, cancel := context.WithTimeout(context.Background(), 1200*time.Millisecond)
		c, set, err := r.call(ctx, j.kind)
		cancel()
		if werr := r.w.T.WaitIdle(); werr != nil {
			run.Violate("c16:handler-stuck", what+": "+werr.Error(), nil)
			return
		}
		run.Add(1, 1, 1, 1)
		v := ""
		if err == nil {
			v = r.checkSuccess(c, set, j.dir != "h2r")
			mu.Lock()
			ok++
			mu.Unlock()
		} else {
			v = r.checkNoTrace(hb, rb, true)
			if v == "committed" {
				v = ""
				if got := r.renter.footprint(); got != rb {
					v = fmt.Sprintf("c16:renter-reservation-leaked|renter wallet before %s, after the abandoned attempt %s", rb, got)
				}
			}
			mu.Lock()
			fail++
			mu.Unlock()
		}
		if v != "" {
			parts := strings.SplitN(v, "|", 2)
			sig := parts[0] + ":" + j.kind + ":" + j.dir + "-" + j.mode
			if j.dial {
				sig = parts[0] + ":" + j.kind + ":dial-failure"
			}
			run.Violate(sig, what+": "+parts[1], map[string]any{"rpc": j.kind, "dir": j.dir, "mode": j.mode, "at": j.at, "dial": j.dial})
		}
		run.Distinct(j.kind, j.dir, j.mode, err == nil, errClass(err))
		if i%401 == 0 {
			run.Sample(map[string]any{"rpc": j.kind, "fault": j.dir + " " + j.mode, "at": j.at, "ok": err == nil})
		}
	})
	run.Extra["renewal_fault_runs"] = len(jobs)
	run.Extra["renewal_runs_succeeding"] = ok
	run.Extra["renewal_runs_failing"] = fail
}
