package main

import (
	"bytes"
	"context"
	"errors"
	"fmt"
	"io"
	"net"
	"strings"
	"sync"
	"time"

	"go.sia.tech/core/consensus"
	proto4 "go.sia.tech/core/rhp/v4"
	"go.sia.tech/core/types"
	rhp "go.sia.tech/coreutils/rhp/v4"
	"go.sia.tech/coreutils/wallet"
	"verif/internal/node"
	"verif/internal/rhpx"
	"verif/internal/univ"
	"verif/internal/wstore"
)

type nopSyncer struct{}

func (nopSyncer) BroadcastV2TransactionSet(types.ChainIndex, []types.V2Transaction) error { return nil }

// party is a node with a wallet.
type party struct {
	n  *node.Node
	st *wstore.Store
	w  *wallet.SingleAddressWallet
}

func newParty(u *univ.Universe, key types.PrivateKey, upto int) *party {
	p := &party{n: node.New(u), st: wstore.New()}
	if err := p.n.CM.AddBlocks(u.Blocks(u.PathTo(upto))); err != nil {
		panic(err)
	}
	w, err := wallet.NewSingleAddressWallet(key, p.n.CM, p.st, nopSyncer{}, wallet.WithDebounceInterval(time.Hour))
	if err != nil {
		panic(err)
	}
	p.w = w
	p.sync()
	return p
}

func (p *party) sync() {
	for p.st.TipIdx != p.n.CM.Tip() {
		rus, aus, err := p.n.CM.UpdatesSince(p.st.TipIdx, 1000)
		if err != nil {
			panic(err)
		}
		if err := p.w.UpdateChainState(p.st, rus, aus); err != nil {
			panic(err)
		}
		if len(aus) > 0 {
			p.st.TipIdx = aus[len(aus)-1].State.Index
		} else if len(rus) > 0 {
			p.st.TipIdx = rus[len(rus)-1].State.Index
		}
	}
}

// footprint is what must be unchanged after a failed attempt.
func (p *party) footprint() string {
	bal, _ := p.w.Balance()
	outs, _ := p.w.SpendableOutputs()
	return fmt.Sprintf("spendable=%v outputs=%d reserved=%d", bal.Spendable, len(outs), len(p.w.VerifLocked()))
}

type fundAndSign struct {
	w  *wallet.SingleAddressWallet
	pk types.PrivateKey
}

func (fs *fundAndSign) FundV2Transaction(txn *types.V2Transaction, amount types.Currency) (types.ChainIndex, []int, error) {
	return fs.w.FundV2Transaction(txn, amount, true)
}
func (fs *fundAndSign) RecommendedFee() types.Currency               { return fs.w.RecommendedFee() }
func (fs *fundAndSign) ReleaseInputs(txns []types.V2Transaction)     { fs.w.ReleaseInputs(nil, txns) }
func (fs *fundAndSign) SignV2Inputs(t *types.V2Transaction, s []int) { fs.w.SignV2Inputs(t, s) }
func (fs *fundAndSign) SignHash(h types.Hash256) types.Signature     { return fs.pk.SignHash(h) }

// duplexFault corrupts one direction of the stream at a byte offset, or cuts it there.
type duplexFault struct {
	net.Conn
	dir     string // "h2r" or "r2h"
	mode    string // flip, cut
	at      int
	seenR   int
	seenW   int
	recR    *bytes.Buffer
	recW    *bytes.Buffer
	cutDone bool
}

func (c *duplexFault) Read(p []byte) (int, error) {
	if c.dir == "h2r" && c.mode == "cut" && c.seenR >= c.at {
		c.Conn.Close()
		return 0, io.EOF
	}
	n, err := c.Conn.Read(p)
	if n > 0 {
		if c.recR != nil {
			c.recR.Write(p[:n])
		}
		if c.dir == "h2r" {
			lo, hi := c.seenR, c.seenR+n
			if c.mode == "flip" && c.at >= lo && c.at < hi {
				p[c.at-lo] ^= 0x21
			}
			if c.mode == "cut" && c.at < hi {
				n = c.at - lo
			}
		}
		c.seenR += n
	}
	return n, err
}

func (c *duplexFault) Write(p []byte) (int, error) {
	if c.recW != nil {
		c.recW.Write(p)
	}
	if c.dir != "r2h" {
		return c.Conn.Write(p)
	}
	lo, hi := c.seenW, c.seenW+len(p)
	c.seenW = hi
	switch {
	case c.mode == "flip" && c.at >= lo && c.at < hi:
		q := append([]byte(nil), p...)
		q[c.at-lo] ^= 0x21
		return c.Conn.Write(q)
	case c.mode == "cut" && c.at < hi:
		if c.at > lo {
			c.Conn.Write(p[:c.at-lo])
		}
		c.Conn.Close()
		return 0, io.ErrClosedPipe
	}
	return c.Conn.Write(p)
}

// c16Universe: three blocks mined by actor 3; the host wallet is actor 2, the renter wallet actor 1.
// A side branch (for the stale-fork basis) forks after block 2.
func c16Universe() (*univ.Universe, map[string]int) {
	u := univ.NewUniverse("rhp-form", univ.RegimeV2)
	idx := map[string]int{}
	k := 0
	for i := 1; i <= 3; i++ {
		k = u.Add(k, 3, nil, nil, fmt.Sprintf("m%d", i))
		idx[fmt.Sprintf("m%d", i)] = k
	}
	idx["s3"] = u.Add(idx["m2"], 1, nil, nil, "s3")
	return u, idx
}

type c16Rig struct {
	u            *univ.Universe
	host, renter *party
	w            *rhpx.World
	signer       *fundAndSign
}

var c16Trusting bool

func newC16Rig(u *univ.Universe, hostAt, renterAt int, hostKnows []int) *c16Rig {
	r := &c16Rig{u: u}
	r.host = newParty(u, u.As[2].Key, hostAt)
	for _, k := range hostKnows {
		r.host.n.CM.AddBlocks(u.Blocks(u.PathTo(k)))
	}
	r.renter = newParty(u, u.As[1].Key, renterAt)
	r.w = rhpx.NewWorldWith(r.host.n.CM, r.host.w, c16Trusting)
	r.signer = &fundAndSign{r.renter.w, u.As[1].Key}
	r.w.RenterKey = u.As[1].Key
	return r
}

func (r *c16Rig) close() {
	r.w.Close()
	r.host.w.Close()
	r.renter.w.Close()
}

func (r *c16Rig) form(ctx context.Context) (rhp.RPCFormContractResult, error) {
	cs := r.renter.n.CM.TipState()
	return rhp.RPCFormContract(ctx, r.w.T, r.renter.n.CM, r.signer, cs, r.w.Prices, r.w.HostKey.PublicKey(), r.w.Settings.WalletAddress, proto4.RPCFormContractParams{
		RenterPublicKey: r.u.As[1].Key.PublicKey(), RenterAddress: r.u.As[1].Addr,
		Allowance: types.Siacoins(25), Collateral: types.Siacoins(20), ProofHeight: cs.Index.Height + 50,
	})
}

// checkSuccess: both parties hold the same fully signed contract; the set is accepted by a pool and,
// once mined, creates exactly that contract.
func (r *c16Rig) checkFormSuccess(res rhp.RPCFormContractResult) string {
	return r.checkFormSuccessX(res, true)
}

// checkFormSuccessX: with hostHonest=false (the host->renter stream was corrupted) the basis and parent
// transactions of the returned set are whatever the host sent and cannot be checked by the renter; only the
// binding of the contract itself is required then.
func (r *c16Rig) checkFormSuccessX(res rhp.RPCFormContractResult, hostHonest bool) string {
	calls := r.w.Con.Take()
	var recorded *types.V2FileContract
	var recID types.FileContractID
	for _, c := range calls {
		if c.Name == "AddV2Contract" && c.Err == nil {
			recorded, recID = c.Revision, c.Contract
		}
	}
	if recorded == nil {
		return "c16:success-without-host-contract|the renter reports success but the host recorded no contract"
	}
	cs := r.host.n.CM.TipState()
	if recID != res.Contract.ID || cs.ContractSigHash(*recorded) != cs.ContractSigHash(res.Contract.Revision) {
		return fmt.Sprintf("c16:parties-hold-different-contracts|renter holds %v, host recorded %v", res.Contract.ID, recID)
	}
	h := cs.ContractSigHash(res.Contract.Revision)
	if !r.u.As[1].Key.PublicKey().VerifyHash(h, res.Contract.Revision.RenterSignature) || !r.w.HostKey.PublicKey().VerifyHash(h, res.Contract.Revision.HostSignature) {
		return "c16:contract-not-fully-signed|the returned contract does not carry both valid signatures"
	}
	if !hostHonest {
		// the host->renter stream was tampered with: what the renter cannot know (host parents, host input
		// signatures) is not judged, but the final transaction it returns must be the one the host broadcast
		// (same transaction id) and must still carry the renter's own contract signature
		return r.checkReturnedTxn(res.FormationSet.Transactions, h)
	}
	// a fresh node at the host's chain accepts the set, and mining it creates the contract
	fresh := node.New(r.u)
	fresh.CM.AddBlocks(r.u.Blocks(r.u.PathTo(r.host.n.TipNode())))
	if _, err := fresh.CM.AddV2PoolTransactions(res.FormationSet.Basis, res.FormationSet.Transactions); err != nil {
		return "c16:formation-set-rejected-by-pool|" + err.Error()
	}
	L := r.u.Nodes[r.host.n.TipNode()].L
	b := univ.BuildBlock(L, univ.TS(r.u.Net, L.State.Index.Height+1, 5), r.u.As[3].Addr, nil, fresh.CM.V2PoolTransactions())
	L2, _, err := L.ApplyBlock(b)
	if err != nil {
		return "c16:formation-block-invalid|" + err.Error()
	}
	fce, ok := L2.V2FCEs[res.Contract.ID]
	if !ok {
		return "c16:mined-contract-missing|after mining the formation set the ledger holds no contract " + res.Contract.ID.String()
	}
	if !fce.V2FileContract.RenterOutput.Value.Equals(types.Siacoins(25)) || !fce.V2FileContract.TotalCollateral.Equals(types.Siacoins(20)) || cs.ContractSigHash(fce.V2FileContract) != h {
		return "c16:mined-contract-differs|the mined contract is not the agreed one"
	}
	return ""
}

// checkReturnedTxn: the last transaction of a returned set is the transaction the host put into its pool for
// the contract with sighash h, and the contract (or renewal's new contract) in it carries the renter's signature.
func (r *c16Rig) checkReturnedTxn(set []types.V2Transaction, h types.Hash256) string {
	if len(set) == 0 {
		return "c16:empty-set|the returned transaction set is empty"
	}
	cs := r.host.n.CM.TipState()
	contractIn := func(txn types.V2Transaction) (types.V2FileContract, bool) {
		for _, fc := range txn.FileContracts {
			if cs.ContractSigHash(fc) == h {
				return fc, true
			}
		}
		for _, res := range txn.FileContractResolutions {
			if ren, ok := res.Resolution.(*types.V2FileContractRenewal); ok && cs.ContractSigHash(ren.NewContract) == h {
				return ren.NewContract, true
			}
		}
		return types.V2FileContract{}, false
	}
	last := set[len(set)-1]
	fc, ok := contractIn(last)
	if !ok {
		return "c16:returned-set-lacks-contract|the last transaction of the returned set does not contain the agreed contract"
	}
	if !r.u.As[1].Key.PublicKey().VerifyHash(h, fc.RenterSignature) {
		return "c16:returned-set-unsigned|the contract inside the returned transaction set does not carry the renter's signature (the set cannot confirm)"
	}
	for _, txn := range r.host.n.CM.V2PoolTransactions() {
		if _, ok := contractIn(txn); ok {
			if txn.ID() != last.ID() {
				return fmt.Sprintf("c16:returned-set-differs-from-broadcast|the renter reports success with transaction %v, the host broadcast %v for the same contract (the renter never compared what it signed with what came back)", last.ID(), txn.ID())
			}
			// same id, so same inputs and resolutions in the same order. What the renter itself signed (its
			// inputs, a renewal's renter signature) reached the host intact - the host's pool accepted it - and
			// must still be there in the transaction the renter hands to its caller as confirmable
			renterAddr := r.u.As[1].Addr
			for i := range txn.SiacoinInputs {
				if txn.SiacoinInputs[i].Parent.SiacoinOutput.Address != renterAddr || i >= len(last.SiacoinInputs) {
					continue
				}
				if !bytes.Equal(encOf(txn.SiacoinInputs[i].SatisfiedPolicy), encOf(last.SiacoinInputs[i].SatisfiedPolicy)) {
					return fmt.Sprintf("c16:returned-set-lost-renter-input-signature|the renter reports success, but input %d of the returned transaction (an output of the renter's wallet) no longer carries the signature the renter made: the set cannot confirm", i)
				}
			}
			for i := range txn.FileContractResolutions {
				a, ok1 := txn.FileContractResolutions[i].Resolution.(*types.V2FileContractRenewal)
				if !ok1 || i >= len(last.FileContractResolutions) {
					continue
				}
				b, ok2 := last.FileContractResolutions[i].Resolution.(*types.V2FileContractRenewal)
				if !ok2 || a.RenterSignature != b.RenterSignature {
					return "c16:returned-set-lost-renewal-signature|the renter reports success, but the renewal in the returned transaction no longer carries the renter's renewal signature: the set cannot confirm"
				}
			}
			return ""
		}
	}
	return ""
}

func encOf(v types.EncoderTo) []byte {
	var buf bytes.Buffer
	e := types.NewEncoder(&buf)
	v.EncodeTo(e)
	e.Flush()
	return buf.Bytes()
}

// checkFailure: the host recorded nothing and nobody keeps reservations.
func (r *c16Rig) checkNoTrace(hostBefore, renterBefore string, allowCommitted bool) string {
	calls := r.w.Con.Take()
	committed := false
	for _, c := range calls {
		if (c.Name == "AddV2Contract" || c.Name == "RenewV2Contract") && c.Err == nil {
			committed = true
		}
	}
	if committed {
		if allowCommitted {
			// whatever the host recorded must be a complete, doubly signed, confirmable contract
			for _, c := range calls {
				if (c.Name == "AddV2Contract" || c.Name == "RenewV2Contract") && c.Err == nil {
					h := r.w.CS.ContractSigHash(*c.Revision)
					if !c.Revision.RenterPublicKey.VerifyHash(h, c.Revision.RenterSignature) || !c.Revision.HostPublicKey.VerifyHash(h, c.Revision.HostSignature) {
						return "c16:host-recorded-unsigned-contract|the host recorded a contract that does not carry both valid signatures"
					}
					// ... and its transaction must have been accepted by the host's pool (otherwise it can never confirm)
					inPool := false
					for _, txn := range r.host.n.CM.V2PoolTransactions() {
						for _, fc := range txn.FileContracts {
							inPool = inPool || r.w.CS.ContractSigHash(fc) == h
						}
						for _, res := range txn.FileContractResolutions {
							if ren, ok := res.Resolution.(*types.V2FileContractRenewal); ok {
								inPool = inPool || r.w.CS.ContractSigHash(ren.NewContract) == h
							}
						}
					}
					if !inPool {
						return "c16:host-recorded-unconfirmable-contract|the host recorded a contract whose transaction is not in its transaction pool (it was rejected or never submitted), so the contract can never confirm"
					}
				}
			}
			return "committed"
		}
		return "c16:failed-attempt-left-contract|the attempt failed on the renter's side before it had handed over its signatures, but the host recorded a contract"
	}
	if got := r.host.footprint(); got != hostBefore {
		return fmt.Sprintf("c16:host-reservation-leaked|host wallet before %s, after the failed attempt %s", hostBefore, got)
	}
	if got := r.renter.footprint(); got != renterBefore {
		return fmt.Sprintf("c16:renter-reservation-leaked|renter wallet before %s, after the failed attempt %s", renterBefore, got)
	}
	return ""
}

func c16() {
	for _, tr := range []bool{false, true} {
		c16Trusting = tr
		c16Run()
	}
	c16Trusting = false
	c16Renewals()
}

func c16Run() {
	u, idx := c16Universe()
	type basisRel struct {
		name             string
		hostAt, renterAt int
		hostKnows        []int
		expectOK         bool
	}
	rels := []basisRel{
		{"same-tip", idx["m3"], idx["m3"], nil, true},
		{"renter-behind-1", idx["m3"], idx["m2"], nil, true},
		{"renter-behind-2", idx["m3"], idx["m1"], nil, true},
		{"renter-on-stale-fork-host-knows-it", idx["m3"], idx["s3"], []int{idx["s3"]}, false},
		{"renter-on-unknown-fork", idx["m3"], idx["s3"], nil, false},
	}
	type job struct {
		rel  basisRel
		dir  string
		mode string
		at   int
		dial bool
	}
	var jobs []job
	var mu sync.Mutex
	okRuns, failRuns := 0, 0
	slow := map[string]int{}
	// pass 1: honest runs (record stream lengths), then one job per sampled fault position
	for _, rel := range rels {
		r := newC16Rig(u, rel.hostAt, rel.renterAt, rel.hostKnows)
		var rec *duplexFault
		r.w.T.Wrap = func(c net.Conn) net.Conn {
			rec = &duplexFault{Conn: c, recR: &bytes.Buffer{}, recW: &bytes.Buffer{}}
			return rec
		}
		hb, rb := r.host.footprint(), r.renter.footprint()
		hctx, hcancel := context.WithTimeout(context.Background(), 5*time.Second)
		res, err := r.form(hctx)
		hcancel()
		r.w.T.WaitIdle()
		switch {
		case err == nil:
			if v := r.checkFormSuccess(res); v != "" {
				parts := strings.SplitN(v, "|", 2)
				run.Violate(parts[0], fmt.Sprintf("honest formation, %s: %s", rel.name, parts[1]), map[string]any{"basis": rel.name})
			}
		case rel.expectOK:
			run.Violate("c16:honest-formation-failed", fmt.Sprintf("honest formation, %s failed: %v", rel.name, err), map[string]any{"basis": rel.name})
		default:
			if v := r.checkNoTrace(hb, rb, false); v != "" {
				parts := strings.SplitN(v, "|", 2)
				run.Violate(parts[0], fmt.Sprintf("formation refused (%s: %v): %s", rel.name, err, parts[1]), map[string]any{"basis": rel.name})
			}
		}
		run.Add(1, 1, 1, 1)
		step := 9
		if run.Thorough() {
			step = 1
		}
		if rec != nil {
			for p := 0; p < rec.recR.Len(); p += step {
				jobs = append(jobs, job{rel: rel, dir: "h2r", mode: "flip", at: p}, job{rel: rel, dir: "h2r", mode: "cut", at: p})
			}
			for p := 0; p < rec.recW.Len(); p += step {
				jobs = append(jobs, job{rel: rel, dir: "r2h", mode: "flip", at: p}, job{rel: rel, dir: "r2h", mode: "cut", at: p})
			}
		}
		jobs = append(jobs, job{rel: rel, dial: true})
		r.close()
	}
	parallel(len(jobs), func(i int) {
		if run.Expired() {
			run.Cap("time budget: not all fault positions run")
			return
		}
		j := jobs[i]
		r := newC16Rig(u, j.rel.hostAt, j.rel.renterAt, j.rel.hostKnows)
		defer r.close()
		what := fmt.Sprintf("formation (trusting contractor: %v), %s, fault: %s %s at byte %d (dial failure: %v)", c16Trusting, j.rel.name, j.dir, j.mode, j.at, j.dial)
		if j.dial {
			r.w.T.DialErr = errors.New("dial refused")
		} else {
			r.w.T.Wrap = func(c net.Conn) net.Conn { return &duplexFault{Conn: c, dir: j.dir, mode: j.mode, at: j.at} }
		}
		hb, rb := r.host.footprint(), r.renter.footprint()
		ctx, cancel := context.WithTimeout(context.Background(), 1200*time.Millisecond)
		t0 := time.Now()
		res, err := r.form(ctx)
		cancel()
		if d := time.Since(t0); d > time.Second {
			mu.Lock()
			slow[j.rel.name+" "+j.dir+" "+j.mode]++
			mu.Unlock()
		}
		if werr := r.w.T.WaitIdle(); werr != nil {
			run.Violate("c16:handler-stuck", what+": "+werr.Error(), nil)
			return
		}
		run.Add(1, 1, 1, 1)
		v := ""
		if err == nil {
			v = r.checkFormSuccessX(res, j.dir != "h2r")
			mu.Lock()
			okRuns++
			mu.Unlock()
		} else {
			// once the renter's signatures reached the host intact, the host may legitimately complete the formation
			v = r.checkNoTrace(hb, rb, true)
			if v == "committed" {
				v = ""
				// the host recorded a contract: it must be a complete, confirmable one and the renter must have released its inputs
				if got := r.renter.footprint(); got != rb {
					v = fmt.Sprintf("c16:renter-reservation-leaked|renter wallet before %s, after the abandoned attempt %s", rb, got)
				}
			}
			mu.Lock()
			failRuns++
			mu.Unlock()
		}
		if v != "" {
			parts := strings.SplitN(v, "|", 2)
			run.Violate(parts[0]+":"+j.dir+"-"+j.mode, what+": "+parts[1], map[string]any{"basis": j.rel.name, "dir": j.dir, "mode": j.mode, "at": j.at, "dial": j.dial})
		}
		run.Distinct(c16Trusting, j.rel.name, j.dir, j.mode, err == nil, errClass(err))
		if i%701 == 0 {
			run.Sample(map[string]any{"rpc": "form", "basis": j.rel.name, "fault": j.dir + " " + j.mode, "at": j.at, "ok": err == nil})
		}
	})
	c16Exhaustion(u, idx)
	c16ForeignInputs(u, idx)
	c16ForeignInputsRenter(u, idx)
	c16HostSpendsRenterOutput(u, idx)
	c16RenterSpendsHostOutput(u, idx)
	run.Extra[fmt.Sprintf("fault_runs(trusting=%v)", c16Trusting)] = len(jobs)
	run.Extra[fmt.Sprintf("runs_succeeding(trusting=%v)", c16Trusting)] = okRuns
	run.Extra[fmt.Sprintf("runs_failing(trusting=%v)", c16Trusting)] = failRuns
	run.Extra[fmt.Sprintf("runs_ended_by_deadline(trusting=%v)", c16Trusting)] = slow
	run.Rule = "RPCFormContract with a real host stack (chain.Manager + SingleAddressWallet + reference contractor + real server) and a separate renter node and wallet, for 5 basis relations (same tip, renter behind by 1 and 2, renter on a stale fork the host knows / does not know) x faults: dial failure, and at sampled byte offsets (every 9th quick / every byte thorough) of each direction's byte stream a flipped byte or a cut; plus 20 consecutive failed attempts followed by an honest one; distinct = distinct (basis, fault kind, verdict, error class)"
	run.Explanation = "Success: the renter's contract equals the one the Contractor recorded, both signatures valid, the returned set is accepted by a fresh pool at the returned basis, and mining it yields exactly that contract with the agreed funding (checked on the reference ledger). Failure: no contract recorded, host and renter wallets have the same spendable balance, spendable outputs and reservation table (read through the export hook) as before - except that once the renter's signatures reached the host intact the host may complete the formation, in which case only the renter's reservations must be gone."
	run.Assumptions = []string{"renew/refresh share the funding/release code paths of formation on the host; their dial-failure path is checked separately (c16Renew)", "fault positions are sampled every 9th byte in the quick tier"}
	_ = consensus.State{}
}

// c16Exhaustion: repeated failures do not exhaust anyone's funds.
func c16Exhaustion(u *univ.Universe, idx map[string]int) {
	r := newC16Rig(u, idx["m3"], idx["m3"], nil)
	defer r.close()
	hb, rb := r.host.footprint(), r.renter.footprint()
	for i := 0; i < 20; i++ {
		at := 40 + 37*i
		r.w.T.Wrap = func(c net.Conn) net.Conn { return &duplexFault{Conn: c, dir: "h2r", mode: "cut", at: at} }
		ctx, cancel := context.WithTimeout(context.Background(), 1200*time.Millisecond)
		_, err := r.form(ctx)
		cancel()
		r.w.T.WaitIdle()
		if err == nil {
			r.w.Con.Take()
			return // the cut fell behind the last message; nothing to show
		}
		if v := r.checkNoTrace(hb, rb, true); v != "" && v != "committed" {
			parts := strings.SplitN(v, "|", 2)
			run.Violate(parts[0]+":repeated", fmt.Sprintf("failed attempt #%d (host->renter cut at byte %d): %s", i+1, at, parts[1]), nil)
			return
		} else if v == "committed" {
			return
		}
	}
	r.w.T.Wrap = nil
	res, err := r.form(context.Background())
	r.w.T.WaitIdle()
	if err != nil {
		run.Violate("c16:honest-attempt-fails-after-failures", fmt.Sprintf("after 20 failed attempts an honest formation fails: %v", err), nil)
		return
	}
	if v := r.checkFormSuccess(res); v != "" {
		parts := strings.SplitN(v, "|", 2)
		run.Violate(parts[0], "honest formation after 20 failures: "+parts[1], nil)
	}
	run.Add(21, 21, 21, 21)
}

// evilSigner funds honestly and then also lists a foreign output (one that belongs to the host's wallet and
// is reserved by another of the host's attempts) among the renter's inputs.
type evilSigner struct {
	*fundAndSign
	extra types.V2SiacoinInput
}

func (e *evilSigner) FundV2Transaction(txn *types.V2Transaction, amount types.Currency) (types.ChainIndex, []int, error) {
	basis, toSign, err := e.fundAndSign.FundV2Transaction(txn, amount)
	if err == nil {
		txn.SiacoinInputs = append(txn.SiacoinInputs, e.extra)
	}
	return basis, toSign, err
}

// c16ForeignInputs: while one of the host's outputs is reserved for some other attempt, a renter lists that very
// output among its own inputs. The attempt cannot succeed (the renter cannot sign for it), and when it fails
// the host must release what *it* reserved for this attempt - not the output the renter pointed at.
func c16ForeignInputs(u *univ.Universe, idx map[string]int) {
	saved := c16Trusting
	c16Trusting = false
	defer func() { c16Trusting = saved }()
	for _, kind := range []string{"form", "renew", "refresh-full", "refresh-partial"} {
		var r *c16Rig
		var rr *renewRig
		if kind == "form" {
			r = newC16Rig(u, idx["m3"], idx["m3"], nil)
		} else {
			var err error
			rr, err = newRenewRig()
			if err != nil {
				run.Violate("c16:renew-setup", err.Error(), nil)
				return
			}
			r = rr.c16Rig
		}
		other := types.V2Transaction{}
		if _, _, err := r.host.w.FundV2Transaction(&other, types.Siacoins(1), false); err != nil || len(other.SiacoinInputs) == 0 {
			run.Violate("c16:foreign-setup", fmt.Sprintf("host cannot reserve an output: %v", err), nil)
			r.close()
			continue
		}
		before := r.host.footprint()
		honest := r.signer
		hostPolicy := types.SpendPolicy{Type: types.PolicyTypeUnlockConditions(types.StandardUnlockConditions(r.u.As[2].Key.PublicKey()))}
		evil := &evilSigner{fundAndSign: honest, extra: types.V2SiacoinInput{Parent: other.SiacoinInputs[0].Parent.Copy(),
			SatisfiedPolicy: types.SatisfiedPolicy{Policy: hostPolicy, Signatures: []types.Signature{{1}}}}}
		cctx, cancel := context.WithTimeout(context.Background(), 5*time.Second)
		var err error
		if kind == "form" {
			cs := r.renter.n.CM.TipState()
			_, err = rhp.RPCFormContract(cctx, r.w.T, r.renter.n.CM, evil, cs, r.w.Prices, r.w.HostKey.PublicKey(), r.w.Settings.WalletAddress, proto4.RPCFormContractParams{
				RenterPublicKey: r.u.As[1].Key.PublicKey(), RenterAddress: r.u.As[1].Addr,
				Allowance: types.Siacoins(25), Collateral: types.Siacoins(20), ProofHeight: cs.Index.Height + 50,
			})
		} else {
			rr.signerOverride = evil
			_, _, err = rr.call(cctx, kind)
			rr.signerOverride = nil
		}
		cancel()
		r.w.T.WaitIdle()
		run.Add(1, 1, 1, 1)
		run.Distinct("foreign-input", kind, err == nil)
		if err == nil {
			run.Violate("c16:foreign-input-accepted:"+kind, kind+": an attempt listing an output of the host's own wallet among the renter's inputs succeeded", nil)
		} else if after := r.host.footprint(); after != before {
			run.Violate("c16:foreign-reservation-released:"+kind, fmt.Sprintf("%s: the renter listed an output of the host's wallet that is reserved for another attempt among its inputs; the attempt failed (%v) and the host released that reservation too: host wallet before %s, after %s", kind, err, before, after), map[string]any{"rpc": kind})
		}
		r.close()
	}
}

// c16HostSpendsRenterOutput: a host that completes the formation by the book, except that the input it lists as
// its own funding is another output of the renter's wallet. A v2 input signature covers the whole transaction,
// not one input, so the satisfied policy the renter sends for its own input also satisfies that one. If the
// client reports success, the confirmed transaction takes the host's share (and the host's "change") out of the
// renter's wallet: not the agreed funding.
func c16HostSpendsRenterOutput(u *univ.Universe, idx map[string]int) {
	saved := c16Trusting
	c16Trusting = false
	defer func() { c16Trusting = saved }()
	r := newC16Rig(u, idx["m3"], idx["m3"], nil)
	defer r.close()
	cs := r.renter.n.CM.TipState()
	hostAddr := r.w.Settings.WalletAddress
	renterAddr := r.u.As[1].Addr
	var txn types.V2Transaction
	var stolen types.SiacoinElement
	h := &firstAnswerHost{hostKey: r.w.HostKey, request: &proto4.RPCFormContractRequest{}, second: &proto4.RPCFormContractSecondResponse{}, accepted: make(chan bool, 1)}
	h.answer = func() proto4.Object {
		req := h.request.(*proto4.RPCFormContractRequest)
		fc, _ := proto4.NewContract(req.Prices, req.Contract, r.w.HostKey.PublicKey(), hostAddr)
		txn = types.V2Transaction{MinerFee: req.MinerFee, FileContracts: []types.V2FileContract{fc}}
		used := map[types.SiacoinOutputID]bool{}
		var renterSum types.Currency
		for _, sce := range req.RenterInputs {
			used[sce.ID] = true
			renterSum = renterSum.Add(sce.SiacoinOutput.Value)
			txn.SiacoinInputs = append(txn.SiacoinInputs, types.V2SiacoinInput{Parent: sce.Copy()})
		}
		renterCost, hostCost := proto4.ContractCost(cs, fc, req.MinerFee)
		if !renterSum.Equals(renterCost) {
			txn.SiacoinOutputs = append(txn.SiacoinOutputs, types.SiacoinOutput{Address: req.Contract.RenterAddress, Value: renterSum.Sub(renterCost)})
		}
		// another matured output of the renter's address (public chain data)
		for _, sce := range univ.OwnedSC(r.u.Nodes[idx["m3"]].L, renterAddr) {
			if !used[sce.ID] && sce.SiacoinOutput.Value.Cmp(hostCost) >= 0 {
				stolen = sce.Copy()
				break
			}
		}
		hostInput := types.V2SiacoinInput{Parent: stolen.Copy(), SatisfiedPolicy: types.SatisfiedPolicy{Policy: types.AnyoneCanSpend()}}
		txn.SiacoinInputs = append(txn.SiacoinInputs, hostInput)
		if stolen.SiacoinOutput.Value.Cmp(hostCost) > 0 {
			txn.SiacoinOutputs = append(txn.SiacoinOutputs, types.SiacoinOutput{Address: hostAddr, Value: stolen.SiacoinOutput.Value.Sub(hostCost)})
		}
		return &proto4.RPCFormContractResponse{HostInputs: []types.V2SiacoinInput{hostInput}}
	}
	h.final = func() proto4.Object {
		req := h.request.(*proto4.RPCFormContractRequest)
		sigs := h.second.(*proto4.RPCFormContractSecondResponse)
		for i := range sigs.RenterSatisfiedPolicies {
			txn.SiacoinInputs[i].SatisfiedPolicy = sigs.RenterSatisfiedPolicies[i]
		}
		if len(sigs.RenterSatisfiedPolicies) > 0 {
			txn.SiacoinInputs[len(txn.SiacoinInputs)-1].SatisfiedPolicy = sigs.RenterSatisfiedPolicies[0]
		}
		txn.FileContracts[0].RenterSignature = sigs.RenterContractSignature
		txn.FileContracts[0].HostSignature = r.w.HostKey.SignHash(cs.ContractSigHash(txn.FileContracts[0]))
		return &proto4.RPCFormContractThirdResponse{Basis: req.Basis, TransactionSet: append(append([]types.V2Transaction(nil), req.RenterParents...), txn)}
	}
	cctx, cancel := context.WithTimeout(context.Background(), 5*time.Second)
	res, err := rhp.RPCFormContract(cctx, h, r.renter.n.CM, r.signer, cs, r.w.Prices, r.w.HostKey.PublicKey(), hostAddr, proto4.RPCFormContractParams{
		RenterPublicKey: r.u.As[1].Key.PublicKey(), RenterAddress: renterAddr,
		Allowance: types.Siacoins(25), Collateral: types.Siacoins(20), ProofHeight: cs.Index.Height + 50,
	})
	cancel()
	select {
	case <-h.accepted:
	case <-time.After(6 * time.Second):
	}
	run.Add(1, 1, 1, 1)
	run.Distinct("host-spends-renter-output", err == nil)
	if err != nil {
		return // refused: fine
	}
	// the call reported success. Which outputs of the renter's wallet does the transaction spend that the
	// wallet did not select for this attempt?
	locked := r.renter.w.VerifLocked()
	last := res.FormationSet.Transactions[len(res.FormationSet.Transactions)-1]
	fresh := node.New(r.u)
	fresh.CM.AddBlocks(r.u.Blocks(r.u.PathTo(idx["m3"])))
	_, perr := fresh.CM.AddV2PoolTransactions(res.FormationSet.Basis, res.FormationSet.Transactions)
	for _, in := range last.SiacoinInputs {
		if _, ok := locked[in.Parent.ID]; in.Parent.SiacoinOutput.Address == renterAddr && !ok {
			run.Violate("c16:host-funded-with-renter-output", fmt.Sprintf("formation: the host listed output %v (%v) of the renter's own wallet as its funding and re-used the renter's input signature for it; RPCFormContract reported success with Cost=%v, and the returned set (pool verdict: %v) spends that output, which the renter's wallet never selected", in.Parent.ID, in.Parent.SiacoinOutput.Value, res.Cost, perr), nil)
			return
		}
	}
}

// c16RenterSpendsHostOutput: the mirror image on the server. A renter (speaking the protocol by hand) lists
// an output of the host's wallet as its only input. The host signs its own inputs before it sends them, and
// that signature covers the whole transaction: the renter returns the host's satisfied policy as its own. If
// the host completes the formation, the renter's share is paid out of the host's wallet.
func c16RenterSpendsHostOutput(u *univ.Universe, idx map[string]int) {
	saved := c16Trusting
	c16Trusting = false
	defer func() { c16Trusting = saved }()
	r := newC16Rig(u, idx["m3"], idx["m3"], nil)
	defer r.close()
	cs := r.host.n.CM.TipState()
	hostAddr := r.w.Settings.WalletAddress
	params := proto4.RPCFormContractParams{RenterPublicKey: r.u.As[1].Key.PublicKey(), RenterAddress: r.u.As[1].Addr,
		Allowance: types.Siacoins(25), Collateral: types.Siacoins(20), ProofHeight: cs.Index.Height + 50}
	fc, _ := proto4.NewContract(r.w.Prices, params, r.w.HostKey.PublicKey(), hostAddr)
	fee := types.Siacoins(1)
	renterCost, _ := proto4.ContractCost(cs, fc, fee)
	// the smallest output of the host's wallet that covers the renter's share (the host funds with its largest)
	var victim types.SiacoinElement
	for _, sce := range univ.OwnedSC(r.u.Nodes[idx["m3"]].L, hostAddr) {
		if sce.SiacoinOutput.Value.Cmp(renterCost) >= 0 {
			victim = sce.Copy() // sorted by value descending: the last match is the smallest
		}
	}
	if victim.ID == (types.SiacoinOutputID{}) {
		run.Violate("c16:mirror-setup", "the host's wallet has no output covering the renter's share", nil)
		return
	}
	ctx, cancel := context.WithTimeout(context.Background(), 5*time.Second)
	defer cancel()
	st, err := r.w.T.DialStream(ctx)
	if err != nil {
		run.Violate("c16:mirror-setup", err.Error(), nil)
		return
	}
	defer st.Close()
	st.SetDeadline(time.Now().Add(5 * time.Second))
	run.Add(1, 1, 1, 1)
	req := proto4.RPCFormContractRequest{Prices: r.w.Prices, Contract: params, MinerFee: fee, Basis: cs.Index, RenterInputs: []types.SiacoinElement{victim.Copy()}}
	if err := proto4.WriteRequest(st, proto4.RPCFormContractID, &req); err != nil {
		return
	}
	var hostInputs proto4.RPCFormContractResponse
	if err := proto4.ReadResponse(st, &hostInputs); err != nil || len(hostInputs.HostInputs) == 0 {
		run.Distinct("renter-spends-host-output", "refused-at-request")
		return // refused: fine
	}
	second := proto4.RPCFormContractSecondResponse{
		RenterContractSignature: r.u.As[1].Key.SignHash(cs.ContractSigHash(fc)),
		RenterSatisfiedPolicies: []types.SatisfiedPolicy{hostInputs.HostInputs[0].SatisfiedPolicy},
	}
	if err := proto4.WriteResponse(st, &second); err != nil {
		return
	}
	var third proto4.RPCFormContractThirdResponse
	if err := proto4.ReadResponse(st, &third); err != nil {
		run.Distinct("renter-spends-host-output", "refused-at-signatures")
		return // refused: fine
	}
	r.w.T.WaitIdle()
	run.Distinct("renter-spends-host-output", "completed")
	run.Violate("c16:renter-funded-with-host-output", fmt.Sprintf("formation: a renter listed output %v (%v) of the host's own wallet as its only input and returned the host's input signature as its own; the host completed the formation (set of %d transactions returned and broadcast): the renter's share of %v is paid by the host's wallet", victim.ID, victim.SiacoinOutput.Value, len(third.TransactionSet), renterCost), nil)
}

// c16ForeignInputsRenter: the mirror case. A lying host lists, among *its* inputs, an output of the renter's
// wallet that the renter has reserved for something else, and then lets the attempt fail. The renter must
// release what it reserved for this attempt, not the output the host pointed at.
func c16ForeignInputsRenter(u *univ.Universe, idx map[string]int) {
	saved := c16Trusting
	c16Trusting = false
	defer func() { c16Trusting = saved }()
	for _, kind := range []string{"form", "renew", "refresh-full", "refresh-partial"} {
		for _, variant := range []string{"short", "enough", "overflow"} {
			enough := variant == "enough"
			var r *c16Rig
			var rr *renewRig
			if kind == "form" {
				r = newC16Rig(u, idx["m3"], idx["m3"], nil)
			} else {
				var err error
				rr, err = newRenewRig()
				if err != nil {
					run.Violate("c16:renew-setup", err.Error(), nil)
					return
				}
				r = rr.c16Rig
			}
			other := types.V2Transaction{}
			if _, _, err := r.renter.w.FundV2Transaction(&other, types.Siacoins(1), false); err != nil || len(other.SiacoinInputs) == 0 {
				run.Violate("c16:foreign-setup", fmt.Sprintf("renter cannot reserve an output: %v", err), nil)
				r.close()
				continue
			}
			before := r.renter.footprint()
			policy := types.SpendPolicy{Type: types.PolicyTypeUnlockConditions(types.StandardUnlockConditions(r.u.As[1].Key.PublicKey()))}
			lies := []types.V2SiacoinInput{{Parent: other.SiacoinInputs[0].Parent.Copy(), SatisfiedPolicy: types.SatisfiedPolicy{Policy: policy, Signatures: []types.Signature{{1}}}}}
			if enough {
				// a second, fabricated input so that the sum covers the host's share and the client goes on to sign
				fake := types.SiacoinElement{ID: types.SiacoinOutputID{0xAB}, SiacoinOutput: types.SiacoinOutput{Address: r.w.Settings.WalletAddress, Value: types.Siacoins(500)}, StateElement: types.StateElement{LeafIndex: 1}}
				lies = append(lies, types.V2SiacoinInput{Parent: fake, SatisfiedPolicy: types.SatisfiedPolicy{Policy: policy, Signatures: []types.Signature{{2}}}})
			}
			if variant == "overflow" {
				// two fabricated inputs whose values do not fit into a Currency when added up
				lies = nil
				for i := byte(0); i < 2; i++ {
					fake := types.SiacoinElement{ID: types.SiacoinOutputID{0xAC, i}, SiacoinOutput: types.SiacoinOutput{Address: r.w.Settings.WalletAddress, Value: types.MaxCurrency}, StateElement: types.StateElement{LeafIndex: uint64(i) + 1}}
					lies = append(lies, types.V2SiacoinInput{Parent: fake, SatisfiedPolicy: types.SatisfiedPolicy{Policy: policy, Signatures: []types.Signature{{3 + i}}}})
				}
			}
			h := &firstAnswerHost{hostKey: r.w.HostKey, accepted: make(chan bool, 1)}
			switch kind {
			case "form":
				h.request, h.second = &proto4.RPCFormContractRequest{}, &proto4.RPCFormContractSecondResponse{}
				h.answer = func() proto4.Object { return &proto4.RPCFormContractResponse{HostInputs: lies} }
			case "renew":
				h.request, h.second = &proto4.RPCRenewContractRequest{}, &proto4.RPCRenewContractSecondResponse{}
				h.answer = func() proto4.Object { return &proto4.RPCRenewContractResponse{HostInputs: lies} }
			default:
				h.request, h.second = &proto4.RPCRefreshContractRequest{}, &proto4.RPCRefreshContractSecondResponse{}
				h.answer = func() proto4.Object { return &proto4.RPCRefreshContractResponse{HostInputs: lies} }
			}
			cctx, cancel := context.WithTimeout(context.Background(), 5*time.Second)
			cs := r.renter.n.CM.TipState()
			var err error
			var panicked any
			func() {
				defer func() { panicked = recover() }()
				switch kind {
				case "form":
					_, err = rhp.RPCFormContract(cctx, h, r.renter.n.CM, r.signer, cs, r.w.Prices, r.w.HostKey.PublicKey(), r.w.Settings.WalletAddress, proto4.RPCFormContractParams{
						RenterPublicKey: r.u.As[1].Key.PublicKey(), RenterAddress: r.u.As[1].Addr,
						Allowance: types.Siacoins(25), Collateral: types.Siacoins(20), ProofHeight: cs.Index.Height + 50,
					})
				case "renew":
					_, err = rhp.RPCRenewContract(cctx, h, r.renter.n.CM, r.signer, cs, r.w.Prices, r.w.Settings.WalletAddress, rr.contract.Revision,
						proto4.RPCRenewContractParams{ContractID: rr.contract.ID, Allowance: types.Siacoins(25), Collateral: types.Siacoins(20), ProofHeight: rr.contract.Revision.ProofHeight + 10})
				case "refresh-full":
					_, err = rhp.RPCRefreshContractFullRollover(cctx, h, r.renter.n.CM, r.signer, cs, r.w.Prices, r.w.Settings.WalletAddress, rr.contract.Revision,
						proto4.RPCRefreshContractParams{ContractID: rr.contract.ID, Allowance: types.Siacoins(5), Collateral: types.Siacoins(4)})
				default:
					_, err = rhp.RPCRefreshContractPartialRollover(cctx, h, r.renter.n.CM, r.signer, cs, r.w.Prices, r.w.Settings.WalletAddress, rr.contract.Revision,
						proto4.RPCRefreshContractParams{ContractID: rr.contract.ID, Allowance: types.Siacoins(30), Collateral: types.Siacoins(24)})
				}
			}()
			cancel()
			if panicked == nil {
				select {
				case <-h.accepted:
				case <-time.After(6 * time.Second):
				}
			}
			run.Add(1, 1, 1, 1)
			run.Distinct("foreign-input-renter", kind, variant, err == nil, panicked != nil)
			if panicked != nil {
				after := r.renter.footprint()
				run.Violate("c16:client-panics-on-host-inputs:"+kind, fmt.Sprintf("%s: the host answers with inputs (%s) and the client panics (%v) instead of failing with an error; renter wallet before %s, after %s", kind, variant, panicked, before, after), map[string]any{"rpc": kind, "variant": variant})
			} else if err == nil {
				run.Violate("c16:foreign-input-accepted:renter:"+kind, kind+": an attempt in which the host listed an output of the renter's own wallet among its inputs succeeded", nil)
			} else if after := r.renter.footprint(); after != before {
				run.Violate("c16:foreign-reservation-released:renter:"+kind, fmt.Sprintf("%s: the host listed, among its inputs, an output of the renter's wallet that the renter has reserved for something else; the attempt failed (%v) and the renter released that reservation too: renter wallet before %s, after %s", kind, err, before, after), map[string]any{"rpc": kind, "variant": variant})
			}
			r.close()
		}
	}
}
