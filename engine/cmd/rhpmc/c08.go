package main

import (
	"fmt"
	"strings"
	"sync"
	"time"

	proto4 "go.sia.tech/core/rhp/v4"
	"go.sia.tech/core/types"
	rhp "go.sia.tech/coreutils/rhp/v4"
	"verif/internal/rhpx"
)

// mutation of a renter->host exchange. Any field may be nil.
type c08mut struct {
	name       string
	mustReject bool                                                   // the property names this class as "changes nothing"
	prices     func(w *rhpx.World, p proto4.HostPrices) proto4.HostPrices // replaces the price table
	challenge  func(sig types.Signature, w *rhpx.World, rev uint64, resign func(uint64) types.Signature) types.Signature
	revision   func(rev types.V2FileContract) types.V2FileContract // renter signs this instead of the implied revision
	sig        func(sig types.Signature, w *rhpx.World, h types.Hash256) types.Signature
	contract   func(id types.FileContractID) types.FileContractID
}

func c08Mutations() []c08mut {
	other := rhpx.Key("verif-other")
	return []c08mut{
		{name: "honest"},
		{name: "challenge-bitflip", mustReject: true, challenge: func(s types.Signature, _ *rhpx.World, _ uint64, _ func(uint64) types.Signature) types.Signature {
			s[9] ^= 2
			return s
		}},
		{name: "challenge-zero", mustReject: true, challenge: func(types.Signature, *rhpx.World, uint64, func(uint64) types.Signature) types.Signature {
			return types.Signature{}
		}},
		{name: "challenge-for-earlier-revision", mustReject: true, challenge: func(_ types.Signature, _ *rhpx.World, rev uint64, resign func(uint64) types.Signature) types.Signature {
			return resign(rev - 1)
		}},
		{name: "challenge-for-later-revision", mustReject: true, challenge: func(_ types.Signature, _ *rhpx.World, rev uint64, resign func(uint64) types.Signature) types.Signature {
			return resign(rev + 1)
		}},
		{name: "prices-expired", mustReject: true, prices: func(w *rhpx.World, p proto4.HostPrices) proto4.HostPrices {
			return rhpx.Prices(w.HostKey, p.TipHeight, time.Now().Add(-time.Minute))
		}},
		{name: "prices-foreign", mustReject: true, prices: func(w *rhpx.World, p proto4.HostPrices) proto4.HostPrices {
			return rhpx.Prices(other, p.TipHeight, time.Now().Add(time.Hour))
		}},
		{name: "prices-tampered", mustReject: true, prices: func(w *rhpx.World, p proto4.HostPrices) proto4.HostPrices {
			p.FreeSectorPrice = types.ZeroCurrency
			p.StoragePrice = types.ZeroCurrency
			p.EgressPrice = types.ZeroCurrency
			return p
		}},
		{name: "revsig-bitflip", mustReject: true, sig: func(s types.Signature, _ *rhpx.World, _ types.Hash256) types.Signature {
			s[3] ^= 8
			return s
		}},
		{name: "revsig-by-other-key", mustReject: true, sig: func(_ types.Signature, _ *rhpx.World, h types.Hash256) types.Signature {
			return other.SignHash(h)
		}},
		{name: "revsig-by-host-key", mustReject: true, sig: func(_ types.Signature, w *rhpx.World, h types.Hash256) types.Signature {
			return w.HostKey.SignHash(h)
		}},
		{name: "sign-cheaper-revision", mustReject: true, revision: func(r types.V2FileContract) types.V2FileContract {
			r.RenterOutput.Value = r.RenterOutput.Value.Add(types.NewCurrency64(1))
			r.HostOutput.Value = r.HostOutput.Value.Sub(types.NewCurrency64(1))
			return r
		}},
		{name: "sign-revision-moving-collateral", mustReject: true, revision: func(r types.V2FileContract) types.V2FileContract {
			r.TotalCollateral = r.TotalCollateral.Sub(types.NewCurrency64(1))
			return r
		}},
		{name: "sign-same-revision-number", mustReject: true, revision: func(r types.V2FileContract) types.V2FileContract {
			r.RevisionNumber--
			return r
		}},
		{name: "sign-revision-with-other-keys", mustReject: true, revision: func(r types.V2FileContract) types.V2FileContract {
			r.RenterPublicKey = other.PublicKey()
			return r
		}},
		{name: "sign-revision-with-longer-expiry", mustReject: true, revision: func(r types.V2FileContract) types.V2FileContract {
			r.ExpirationHeight++
			return r
		}},
		{name: "unknown-contract", mustReject: true, contract: func(id types.FileContractID) types.FileContractID {
			id[0] ^= 1
			return id
		}},
	}
}

// c08rpc is one RPC of the alphabet, spoken by hand so that mutations can be injected.
type c08rpc struct {
	name string
	// run performs the exchange; returns the doubly signed revision the renter ends up with (if any) and the
	// amount the renter must be charged according to the price table (cost) / deposit total.
	run func(w *rhpx.World, c rhp.ContractRevision, m c08mut, accounts []proto4.Account) (types.V2FileContract, error)
	// uses tells which mutation hooks apply
	usesChallenge, usesPrices bool
}

func signRev(w *rhpx.World, implied types.V2FileContract, m c08mut) types.Signature {
	r := implied
	if m.revision != nil {
		r = m.revision(implied)
	}
	h := w.CS.ContractSigHash(r)
	sig := w.RenterKey.SignHash(h)
	if m.sig != nil {
		sig = m.sig(sig, w, h)
	}
	return sig
}

func cid(c rhp.ContractRevision, m c08mut) types.FileContractID {
	if m.contract != nil {
		return m.contract(c.ID)
	}
	return c.ID
}

func pricesFor(w *rhpx.World, m c08mut) proto4.HostPrices {
	if m.prices != nil {
		return m.prices(w, w.Prices)
	}
	return w.Prices
}

func c08RPCs() []c08rpc {
	return []c08rpc{
		{name: "fund", run: func(w *rhpx.World, c rhp.ContractRevision, m c08mut, accounts []proto4.Account) (types.V2FileContract, error) {
			deposits := []proto4.AccountDeposit{{Account: accounts[0], Amount: types.Siacoins(1)}, {Account: accounts[1], Amount: types.Siacoins(2)}}
			implied, _, err := proto4.ReviseForFundAccounts(c.Revision, types.Siacoins(3))
			if err != nil {
				return implied, err
			}
			req := proto4.RPCFundAccountsRequest{ContractID: cid(c, m), Deposits: deposits, RenterSignature: signRev(w, implied, m)}
			var resp proto4.RPCFundAccountsResponse
			if err := callRoundtrip(w, proto4.RPCFundAccountsID, &req, &resp); err != nil {
				return implied, err
			}
			implied.RenterSignature, implied.HostSignature = req.RenterSignature, resp.HostSignature
			return implied, nil
		}},
		{name: "roots", usesPrices: true, run: func(w *rhpx.World, c rhp.ContractRevision, m c08mut, _ []proto4.Account) (types.V2FileContract, error) {
			p := pricesFor(w, m)
			n := c.Revision.Filesize / proto4.SectorSize
			if n == 0 {
				return c.Revision, fmt.Errorf("skip: empty contract")
			}
			implied, _, err := proto4.ReviseForSectorRoots(c.Revision, p, n)
			if err != nil {
				return implied, err
			}
			req := proto4.RPCSectorRootsRequest{Prices: p, ContractID: cid(c, m), RenterSignature: signRev(w, implied, m), Offset: 0, Length: n}
			var resp proto4.RPCSectorRootsResponse
			if err := callRoundtrip(w, proto4.RPCSectorRootsID, &req, &resp); err != nil {
				return implied, err
			}
			implied.RenterSignature, implied.HostSignature = req.RenterSignature, resp.HostSignature
			return implied, nil
		}},
		{name: "roots-out-of-range", usesPrices: true, run: func(w *rhpx.World, c rhp.ContractRevision, m c08mut, _ []proto4.Account) (types.V2FileContract, error) {
			p := pricesFor(w, m)
			n := c.Revision.Filesize/proto4.SectorSize + 1
			implied, _, err := proto4.ReviseForSectorRoots(c.Revision, p, n)
			if err != nil {
				return implied, err
			}
			req := proto4.RPCSectorRootsRequest{Prices: p, ContractID: cid(c, m), RenterSignature: signRev(w, implied, m), Offset: 0, Length: n}
			var resp proto4.RPCSectorRootsResponse
			if err := callRoundtrip(w, proto4.RPCSectorRootsID, &req, &resp); err != nil {
				return implied, err
			}
			return implied, fmt.Errorf("OUT-OF-RANGE-ACCEPTED")
		}},
		{name: "append", usesChallenge: true, usesPrices: true, run: func(w *rhpx.World, c rhp.ContractRevision, m c08mut, _ []proto4.Account) (types.V2FileContract, error) {
			p := pricesFor(w, m)
			root := rhpx.Root(900 + int(c.Revision.RevisionNumber))
			w.Sec.Vouched[root] = true
			req := proto4.RPCAppendSectorsRequest{Prices: p, Sectors: []types.Hash256{root}, ContractID: cid(c, m)}
			resign := func(rev uint64) types.Signature { return w.RenterKey.SignHash(req.ChallengeSigHash(rev)) }
			req.ChallengeSignature = resign(c.Revision.RevisionNumber + 1)
			if m.challenge != nil {
				req.ChallengeSignature = m.challenge(req.ChallengeSignature, w, c.Revision.RevisionNumber+1, resign)
			}
			s, err := w.T.DialStream(ctx)
			if err != nil {
				return c.Revision, err
			}
			defer s.Close()
			if err := proto4.WriteRequest(s, proto4.RPCAppendSectorsID, &req); err != nil {
				return c.Revision, err
			}
			var resp proto4.RPCAppendSectorsResponse
			if err := proto4.ReadResponse(s, &resp); err != nil {
				return c.Revision, err
			}
			implied, _, err := proto4.ReviseForAppendSectors(c.Revision, p, resp.NewMerkleRoot, 1)
			if err != nil {
				return implied, err
			}
			sig := signRev(w, implied, m)
			if err := proto4.WriteResponse(s, &proto4.RPCAppendSectorsSecondResponse{RenterSignature: sig}); err != nil {
				return implied, err
			}
			var hs proto4.RPCAppendSectorsThirdResponse
			if err := proto4.ReadResponse(s, &hs); err != nil {
				return implied, err
			}
			implied.RenterSignature, implied.HostSignature = sig, hs.HostSignature
			return implied, nil
		}},
		{name: "free", usesChallenge: true, usesPrices: true, run: func(w *rhpx.World, c rhp.ContractRevision, m c08mut, _ []proto4.Account) (types.V2FileContract, error) {
			p := pricesFor(w, m)
			if c.Revision.Filesize == 0 {
				return c.Revision, fmt.Errorf("skip: empty contract")
			}
			req := proto4.RPCFreeSectorsRequest{ContractID: cid(c, m), Prices: p, Indices: []uint64{0}}
			resign := func(rev uint64) types.Signature { return w.RenterKey.SignHash(req.ChallengeSigHash(rev)) }
			req.ChallengeSignature = resign(c.Revision.RevisionNumber + 1)
			if m.challenge != nil {
				req.ChallengeSignature = m.challenge(req.ChallengeSignature, w, c.Revision.RevisionNumber+1, resign)
			}
			s, err := w.T.DialStream(ctx)
			if err != nil {
				return c.Revision, err
			}
			defer s.Close()
			if err := proto4.WriteRequest(s, proto4.RPCFreeSectorsID, &req); err != nil {
				return c.Revision, err
			}
			var resp proto4.RPCFreeSectorsResponse
			if err := proto4.ReadResponse(s, &resp); err != nil {
				return c.Revision, err
			}
			implied, _, err := proto4.ReviseForFreeSectors(c.Revision, p, resp.NewMerkleRoot, 1)
			if err != nil {
				return implied, err
			}
			sig := signRev(w, implied, m)
			if err := proto4.WriteResponse(s, &proto4.RPCFreeSectorsSecondResponse{RenterSignature: sig}); err != nil {
				return implied, err
			}
			var hs proto4.RPCFreeSectorsThirdResponse
			if err := proto4.ReadResponse(s, &hs); err != nil {
				return implied, err
			}
			implied.RenterSignature, implied.HostSignature = sig, hs.HostSignature
			return implied, nil
		}},
		{name: "replenish-accounts", usesChallenge: true, run: replenishRPC(false)},
		{name: "replenish-pools", usesChallenge: true, run: replenishRPC(true)},
	}
}

func replenishRPC(pools bool) func(w *rhpx.World, c rhp.ContractRevision, m c08mut, accounts []proto4.Account) (types.V2FileContract, error) {
	return func(w *rhpx.World, c rhp.ContractRevision, m c08mut, accounts []proto4.Account) (types.V2FileContract, error) {
		req := proto4.RPCReplenishAccountsRequest{Accounts: accounts[:2], Target: types.Siacoins(5), ContractID: cid(c, m)}
		resign := func(rev uint64) types.Signature { return w.RenterKey.SignHash(req.ChallengeSigHash(rev)) }
		req.ChallengeSignature = resign(c.Revision.RevisionNumber)
		if m.challenge != nil {
			req.ChallengeSignature = m.challenge(req.ChallengeSignature, w, c.Revision.RevisionNumber, resign)
		}
		id := proto4.RPCReplenishAccountsID
		if pools {
			id = proto4.RPCReplenishPoolsID
		}
		s, err := w.T.DialStream(ctx)
		if err != nil {
			return c.Revision, err
		}
		defer s.Close()
		if err := proto4.WriteRequest(s, id, &req); err != nil {
			return c.Revision, err
		}
		var resp proto4.RPCReplenishAccountsResponse
		if err := proto4.ReadResponse(s, &resp); err != nil {
			return c.Revision, err
		}
		total := resp.TotalCost()
		if total.IsZero() {
			return c.Revision, fmt.Errorf("skip: nothing to replenish")
		}
		implied, _, err := proto4.ReviseForReplenish(c.Revision, total)
		if err != nil {
			return implied, err
		}
		sig := signRev(w, implied, m)
		if err := proto4.WriteResponse(s, &proto4.RPCReplenishAccountsSecondResponse{RenterSignature: sig}); err != nil {
			return implied, err
		}
		var hs proto4.RPCReplenishAccountsThirdResponse
		if err := proto4.ReadResponse(s, &hs); err != nil {
			return implied, err
		}
		implied.RenterSignature, implied.HostSignature = sig, hs.HostSignature
		return implied, nil
	}
}

// auditCommits checks the pairwise revision invariants over the commits recorded for one exchange.
func auditCommits(w *rhpx.World, rpc string, prev types.V2FileContract, calls []rhpx.Call) string {
	for _, call := range calls {
		if call.Revision == nil || call.Err != nil || call.Name == "AddV2Contract" {
			continue
		}
		r := *call.Revision
		switch {
		case r.RevisionNumber <= prev.RevisionNumber:
			return fmt.Sprintf("c08:revision-number-not-increasing|%s committed revision %d over %d", call.Name, r.RevisionNumber, prev.RevisionNumber)
		case r.RenterPublicKey != prev.RenterPublicKey || r.HostPublicKey != prev.HostPublicKey:
			return "c08:keys-changed|" + call.Name + " committed a revision with different keys"
		case r.ProofHeight != prev.ProofHeight || r.ExpirationHeight != prev.ExpirationHeight:
			return "c08:heights-changed|" + call.Name + " committed a revision with different proof/expiration heights"
		case r.TotalCollateral != prev.TotalCollateral:
			return "c08:total-collateral-changed|" + call.Name + " committed a revision with a different total collateral"
		case r.RenterOutput.Value.Cmp(prev.RenterOutput.Value) > 0:
			return fmt.Sprintf("c08:value-moved-to-renter|%s committed a revision raising the renter payout %v -> %v", call.Name, prev.RenterOutput.Value, r.RenterOutput.Value)
		case !r.RenterOutput.Value.Add(r.HostOutput.Value).Equals(prev.RenterOutput.Value.Add(prev.HostOutput.Value)):
			return "c08:payout-sum-changed|" + call.Name + " committed a revision with a different payout sum"
		case r.MissedHostValue.Cmp(prev.MissedHostValue) > 0:
			return "c08:missed-host-value-raised|" + call.Name + " raised the missed host value"
		case r.RenterOutput.Address != prev.RenterOutput.Address || r.HostOutput.Address != prev.HostOutput.Address:
			return "c08:payout-address-changed|" + call.Name + " changed a payout address"
		}
		h := w.CS.ContractSigHash(r)
		if !prev.RenterPublicKey.VerifyHash(h, r.RenterSignature) {
			return "c08:commit-without-renter-signature|" + call.Name + " committed a revision the renter did not sign"
		}
		if !prev.HostPublicKey.VerifyHash(h, r.HostSignature) {
			return "c08:commit-without-host-signature|" + call.Name + " committed a revision without a valid host signature"
		}
		// the renter pays exactly what is due
		paid := prev.RenterOutput.Value.Sub(r.RenterOutput.Value)
		if !paid.Equals(call.Usage.RenterCost()) {
			return fmt.Sprintf("c08:charge-differs-from-usage|%s: renter payout dropped by %v, recorded usage costs %v", call.Name, paid, call.Usage.RenterCost())
		}
		var due types.Currency
		switch {
		case len(call.Deposits) > 0:
			for _, d := range call.Deposits {
				due = due.Add(d.Amount)
			}
		case rpc == "roots":
			due = w.Prices.RPCSectorRootsCost(prev.Filesize / proto4.SectorSize).RenterCost()
		case rpc == "free":
			due = w.Prices.RPCFreeSectorsCost(1).RenterCost()
		case rpc == "append":
			growth := uint64(1)
			if (prev.Capacity-prev.Filesize)/proto4.SectorSize >= 1 {
				growth = 0
			}
			due = w.Prices.RPCAppendSectorsCost(growth, prev.ExpirationHeight-w.Prices.TipHeight).RenterCost()
		default:
			due = paid
		}
		if !paid.Equals(due) {
			return fmt.Sprintf("c08:wrong-charge|%s (%s): renter charged %v, the host-signed price table / deposit total says %v", call.Name, rpc, paid, due)
		}
		if want := prev.MissedHostValue.Sub(call.Usage.HostRiskedCollateral()); !r.MissedHostValue.Equals(want) {
			return fmt.Sprintf("c08:missed-host-value|%s: missed host value %v, expected %v", call.Name, r.MissedHostValue, want)
		}
		prev = r
	}
	return ""
}

func c08() {
	rpcs := c08RPCs()
	muts := c08Mutations()
	type step struct{ rpc, mut int }
	type seqT struct {
		steps    []step
		trusting bool
		renewed  bool // the contract has been renewed before the first exchange: nothing may revise it
	}
	var seqs []seqT
	seqLen := 3
	if run.Thorough() {
		seqLen = 4
	}
	// sequences of honest RPCs with exactly one (possibly mutated) RPC at the end, plus all-honest sequences;
	// a mutated attempt is followed by the honest version of the same RPC (the contract must still be usable)
	var rec func(prefix []step)
	rec = func(prefix []step) {
		if len(prefix) == seqLen {
			return
		}
		for r := range rpcs {
			for m := range muts {
				mu := muts[m]
				if (mu.challenge != nil && !rpcs[r].usesChallenge) || (mu.prices != nil && !rpcs[r].usesPrices) {
					continue
				}
				s := append(append([]step(nil), prefix...), step{r, m})
				if m != 0 {
					for _, tr := range []bool{false, true} {
						seqs = append(seqs, seqT{append(append([]step(nil), s...), step{r, 0}), tr, false})
					}
					continue
				}
				for _, tr := range []bool{false, true} {
					seqs = append(seqs, seqT{s, tr, false})
				}
				rec(s)
			}
		}
	}
	rec(nil)
	// a renewed contract is final: every honest revising RPC (alone, and after another refused one) must be refused
	for a := range rpcs {
		for _, tr := range []bool{false, true} {
			seqs = append(seqs, seqT{[]step{{a, 0}}, tr, true})
			for b := range rpcs {
				seqs = append(seqs, seqT{[]step{{a, 0}, {b, 0}}, tr, true})
			}
		}
	}
	var mu sync.Mutex
	outcomes := map[string]bool{}
	rejected, accepted := 0, 0
	parallel(len(seqs), func(i int) {
		if run.Expired() {
			run.Cap("time budget: not all sequences run")
			return
		}
		var names []string
		viol := ""
		func() {
			defer func() {
				if r := recover(); r != nil {
					viol = fmt.Sprintf("c08:panic|%v", r)
				}
			}()
			w := newWorldWith(seqs[i].trusting)
			defer w.Close()
			w.Plant(2, types.Siacoins(500), types.Siacoins(200))
			c := w.Contract
			accounts := []proto4.Account{acc(rhpx.Key("c08-a")), acc(rhpx.Key("c08-b"))}
			if seqs[i].trusting {
				names = append(names, "[trusting contractor]")
			}
			if seqs[i].renewed {
				w.MarkRenewed()
				names = append(names, "[contract already renewed]")
			}
			for _, st := range seqs[i].steps {
				r, m := rpcs[st.rpc], muts[st.mut]
				names = append(names, r.name+"/"+m.name)
				before := w.Snap(c.ID, accounts, accounts)
				w.Con.Take()
				rev, err := r.run(w, c, m, accounts)
				if werr := w.T.WaitIdle(); werr != nil {
					viol = "c08:handler-stuck|" + werr.Error()
					return
				}
				calls := w.Con.Take()
				after := w.Snap(c.ID, accounts, accounts)
				if err != nil && strings.HasPrefix(err.Error(), "skip:") {
					continue
				}
				if err != nil && err.Error() == "OUT-OF-RANGE-ACCEPTED" {
					viol = "c08:out-of-range-accepted|sector roots beyond the contract were served"
					return
				}
				if v := auditCommits(w, strings.SplitN(r.name, "-", 2)[0], before.Revision, calls); v != "" {
					viol = v
					return
				}
				if cerr := after.Consistent(); cerr != nil {
					viol = "c08:roots-inconsistent|" + cerr.Error()
					return
				}
				changed := before.String() != after.String()
				mutating := 0
				for _, call := range calls {
					if call.Revision != nil && call.Err == nil {
						mutating++
					}
				}
				if seqs[i].renewed && (changed || mutating > 0 || err == nil) {
					viol = fmt.Sprintf("c08:renewed-contract-revised|%s on a contract that has been renewed: err=%v, %d mutating contractor calls, state changed=%v (the revision can never be accepted on chain)", r.name, err, mutating, changed)
					return
				}
				if (m.mustReject || strings.HasSuffix(r.name, "out-of-range")) && (changed || mutating > 0 || err == nil) {
					viol = fmt.Sprintf("c08:must-reject-request-had-effect:%s|%s with %s: err=%v, %d mutating contractor calls, state changed=%v", m.name, r.name, m.name, err, mutating, changed)
					return
				}
				if err != nil {
					if changed {
						viol = fmt.Sprintf("c08:failed-request-changed-state|%s with %s failed (%v) but the host's state changed", r.name, m.name, err)
						return
					}
					mu.Lock()
					rejected++
					mu.Unlock()
					continue
				}
				mu.Lock()
				accepted++
				mu.Unlock()
				// success: what the renter holds is what the host stored, doubly signed
				if after.Revision.RevisionNumber != rev.RevisionNumber || w.CS.ContractSigHash(after.Revision) != w.CS.ContractSigHash(rev) {
					viol = fmt.Sprintf("c08:renter-host-revision-mismatch|%s: renter's revision %d differs from the host's %d", r.name, rev.RevisionNumber, after.Revision.RevisionNumber)
					return
				}
				if !w.HostKey.PublicKey().VerifyHash(w.CS.ContractSigHash(rev), rev.HostSignature) {
					viol = "c08:host-signature-invalid|" + r.name + ": the host signature returned to the renter does not verify"
					return
				}
				// RPCLatestRevision reports the committed revision
				lr, lerr := rhp.RPCLatestRevision(ctx, w.T, c.ID)
				w.T.WaitIdle()
				if lerr != nil || w.CS.ContractSigHash(lr.Contract) != w.CS.ContractSigHash(after.Revision) || lr.Contract.RevisionNumber != after.Revision.RevisionNumber {
					viol = fmt.Sprintf("c08:latest-revision|RPCLatestRevision returned revision %d (err %v), host stores %d", lr.Contract.RevisionNumber, lerr, after.Revision.RevisionNumber)
					return
				}
				c.Revision = rev
			}
			mu.Lock()
			outcomes[strings.Join(names, ",")] = true
			mu.Unlock()
		}()
		run.Add(int64(len(names)), int64(len(names)), 1, int64(len(names)))
		if i%499 == 0 {
			run.Sample(names)
		}
		if viol != "" {
			parts := strings.SplitN(viol, "|", 2)
			run.Violate(parts[0], fmt.Sprintf("exchanges %v: %s", names, parts[1]), map[string]any{"exchanges": names})
		}
	})
	c08Chain()
	c08UnknownThenKnown()
	c08ContractorReorg()
	c08CrossContract()
	c08Concurrent()
	run.DistinctN = int64(len(outcomes))
	run.Extra["sequences"] = len(seqs)
	run.Extra["exchanges_rejected"] = rejected
	run.Extra["exchanges_accepted"] = accepted
	run.Rule = fmt.Sprintf("every sequence of up to %d exchanges over {fund accounts, sector roots, sector roots beyond the contract, append, free, replenish accounts, replenish pools}, spoken by hand, where the last exchange carries one of %d mutations (challenge signature flipped/zero/for an earlier or later revision number, price table expired/foreign/tampered, revision signature flipped/by another key/by the host key, renter signing a cheaper revision / one changing collateral, keys, expiry or keeping the revision number, unknown contract id) and is followed by the honest exchange; plus consensus validation of the latest revision on a real chain and gate-controlled interleavings of two concurrent revising RPCs; distinct = distinct exchange lists", seqLen, len(muts)-1)
	run.Explanation = "Every commit recorded by the wrapping Contractor is audited against the previous revision: strictly higher revision number, both signatures valid over exactly the committed revision, keys/heights/addresses/total collateral unchanged, renter payout never rises, payout sum constant, renter charged exactly the cost recomputed from the host-signed price table (or the deposit total), missed host value lowered by the risked collateral. Requests in a must-reject class produce an error, no mutating Contractor call and a byte-identical host state. After every success RPCLatestRevision equals the stored revision."
	run.Assumptions = []string{"renew/refresh commits are audited by the C16 check (they need wallets and a chain)", "go.sia.tech/core cost functions are the reference for prices"}
}
