package main

import (
	"fmt"
	"sync"

	proto4 "go.sia.tech/core/rhp/v4"
	"go.sia.tech/core/types"
	rhp "go.sia.tech/coreutils/rhp/v4"
	"verif/internal/rhpx"
)

// c09Step is one attempt in a C09 scenario.
type c09Step struct {
	Kind    string   // free, rawfree, append
	Indices []uint64 // free
	Roots   []int    // append: >=0 known synthetic root number (100+i), -1.. unknown roots
	Stop    int      // 0 complete, 1..3 abort point
	BadSig  bool
}

func (s c09Step) String() string {
	x := s.Kind
	if s.Kind == "append" {
		x += fmt.Sprint(s.Roots)
	} else {
		x += fmt.Sprint(s.Indices)
	}
	if s.Stop > 0 {
		x += fmt.Sprintf("!abort@%d", s.Stop)
	}
	if s.BadSig {
		x += "!badsig"
	}
	return x
}

func appendRoot(w *rhpx.World, n int) types.Hash256 {
	if n >= 0 {
		r := rhpx.Root(100 + n)
		w.Sec.Vouched[r] = true
		return r
	}
	return types.HashBytes([]byte(fmt.Sprintf("unknown-root-%d", n)))
}

// runC09 executes a scenario on a fresh world with a contract of k sectors and checks the invariants
// after every attempt. Returns (signature, description).
func runC09(k int, steps []c09Step, trusting bool) (string, string) {
	w := newWorldWith(trusting)
	defer w.Close()
	w.Plant(k, types.Siacoins(100), types.Siacoins(200))
	model := make([]types.Hash256, k)
	for i := range model {
		model[i] = rhpx.Root(i)
	}
	contract := w.Contract
	desc := func(i int) string { return fmt.Sprintf("contract with %d sectors, attempts %v (failing at #%d)", k, steps[:i+1], i+1) }
	for i, st := range steps {
		before := w.Snap(contract.ID, nil, nil)
		var rev types.V2FileContract
		var err error
		expectModel := model
		switch st.Kind {
		case "free":
			var res rhp.RPCFreeSectorsResult
			res, err = rhp.RPCFreeSectors(ctx, w.T, w.RenterKey, w.CS, w.Prices, contract, st.Indices)
			rev = res.Revision
			expectModel = modelFree(model, st.Indices)
			if expectModel == nil && err == nil {
				return "c09:out-of-range-free-accepted", desc(i) + ": indices beyond the contract's sectors were accepted"
			}
		case "rawfree":
			rev, err = rawFree(w, contract, st.Indices, st.Stop, st.BadSig)
			expectModel = nil // raw (possibly unsorted) requests: only self-consistency is required if accepted
		case "append":
			roots := make([]types.Hash256, len(st.Roots))
			expectModel = append([]types.Hash256(nil), model...)
			for j, n := range st.Roots {
				roots[j] = appendRoot(w, n)
				if n >= 0 {
					expectModel = append(expectModel, roots[j])
				}
			}
			if st.Stop > 0 || st.BadSig {
				rev, err = rawAppend(w, contract, roots, st.Stop, st.BadSig)
			} else {
				var res rhp.RPCAppendSectorsResult
				res, err = rhp.RPCAppendSectors(ctx, w.T, w.RenterKey, w.CS, w.Prices, contract, roots)
				rev = res.Revision
			}
		}
		if werr := w.T.WaitIdle(); werr != nil {
			return "c09:handler-stuck", desc(i) + ": " + werr.Error()
		}
		after := w.Snap(contract.ID, nil, nil)
		if cerr := after.Consistent(); cerr != nil {
			return "c09:roots-do-not-match-revision:" + st.Kind + fmt.Sprint(map[bool]string{true: ":after-failed-attempt", false: ""}[err != nil]), desc(i) + fmt.Sprintf(" (attempt err=%v): %v", err, cerr)
		}
		if err != nil && st.Stop == 3 && before.String() != after.String() {
			// the renter left after handing over a valid signature: the host may have committed. That is
			// acceptable only as the complete, doubly signed result of the requested operation.
			want := expectModel
			if st.Kind == "rawfree" {
				// indices were sent as given (possibly unsorted): the host applies them in wire order, which is what
				// the renter signed; only completeness and self-consistency (checked above) are required
				want = after.Roots
				if len(after.Roots) != len(before.Roots)-len(st.Indices) {
					want = nil
				}
			}
			if fmt.Sprint(after.Roots) != fmt.Sprint(want) || after.Revision.RevisionNumber != before.Revision.RevisionNumber+1 {
				return "c09:abandoned-attempt-partially-applied:" + st.Kind, desc(i) + fmt.Sprintf(": renter left after signing; host state is neither the old nor the complete new one:\n before %v\n after  %v", before, after)
			}
			h := w.CS.ContractSigHash(after.Revision)
			if !w.RenterKey.PublicKey().VerifyHash(h, after.Revision.RenterSignature) || !w.HostKey.PublicKey().VerifyHash(h, after.Revision.HostSignature) {
				return "c09:committed-revision-not-doubly-signed", desc(i) + ": host committed a revision without both signatures"
			}
			model = after.Roots
			contract.Revision = after.Revision
			continue
		}
		if err != nil {
			if before.String() != after.String() {
				return "c09:failed-attempt-changed-state:" + st.Kind, desc(i) + fmt.Sprintf(": attempt failed (%v) but the host's state changed:\n before %v\n after  %v", err, before, after)
			}
			continue
		}
		if st.Stop > 0 || st.BadSig {
			return "c09:aborted-attempt-succeeded", desc(i) + ": the aborted/badly signed attempt reported success"
		}
		// success: the host's committed revision is the one the renter holds
		if after.Revision.RevisionNumber != rev.RevisionNumber || after.Revision.FileMerkleRoot != rev.FileMerkleRoot {
			return "c09:renter-host-revision-mismatch", desc(i) + fmt.Sprintf(": renter got revision %d root %v, host stored %d root %v", rev.RevisionNumber, rev.FileMerkleRoot, after.Revision.RevisionNumber, after.Revision.FileMerkleRoot)
		}
		if expectModel != nil {
			if fmt.Sprint(after.Roots) != fmt.Sprint(expectModel) {
				return "c09:roots-differ-from-list-model:" + st.Kind, desc(i) + fmt.Sprintf(": host roots %v, list model %v", short(after.Roots), short(expectModel))
			}
			model = expectModel
		} else {
			model = after.Roots
		}
		contract.Revision = rev
	}
	// listing: every range returns the model's roots with a verifying proof (the client verifies the proof)
	n := uint64(len(model))
	for off := uint64(0); off < n; off++ {
		for l := uint64(1); off+l <= n; l += max64(1, n/2) {
			res, err := rhp.RPCSectorRoots(ctx, w.T, w.CS, w.Prices, w.RenterKey, contract, off, l)
			w.T.WaitIdle() // the handler releases the contract lock only after it has answered
			if err != nil {
				return "c09:sector-roots-failed", fmt.Sprintf("contract with %d sectors after %v: RPCSectorRoots(%d,%d) failed: %v", k, steps, off, l, err)
			}
			if fmt.Sprint(res.Roots) != fmt.Sprint(model[off:off+l]) {
				return "c09:sector-roots-wrong", fmt.Sprintf("contract with %d sectors after %v: RPCSectorRoots(%d,%d) returned %v, model %v", k, steps, off, l, short(res.Roots), short(model[off:off+l]))
			}
			contract.Revision = res.Revision
		}
	}
	w.T.WaitIdle()
	if cerr := w.Snap(contract.ID, nil, nil).Consistent(); cerr != nil {
		return "c09:roots-do-not-match-revision:after-listing", fmt.Sprintf("contract with %d sectors after %v and listing: %v", k, steps, cerr)
	}
	return "", ""
}

func max64(a, b uint64) uint64 {
	if a > b {
		return a
	}
	return b
}

func short(r []types.Hash256) []string {
	out := make([]string, len(r))
	for i, h := range r {
		out[i] = h.String()[:6]
	}
	return out
}

func perms(s []uint64) [][]uint64 {
	if len(s) <= 1 {
		return [][]uint64{append([]uint64(nil), s...)}
	}
	var out [][]uint64
	for i := range s {
		rest := append(append([]uint64(nil), s[:i]...), s[i+1:]...)
		for _, p := range perms(rest) {
			out = append(out, append([]uint64{s[i]}, p...))
		}
	}
	return out
}

func c09() {
	maxK := 6
	if run.Thorough() {
		maxK = 8
	}
	type scen struct {
		k        int
		steps    []c09Step
		trusting bool
	}
	var scens []scen
	for k := 0; k <= maxK; k++ {
		// every non-empty subset of indices: honest free, every abort point, bad signature; raw permutations for small sets
		for mask := 1; mask < 1<<k; mask++ {
			var idx []uint64
			for i := 0; i < k; i++ {
				if mask&(1<<i) != 0 {
					idx = append(idx, uint64(i))
				}
			}
			scens = append(scens, scen{k: k, steps: []c09Step{{Kind: "free", Indices: idx}}})
			for stop := 1; stop <= 3; stop++ {
				// an aborted attempt followed by the same honest operation: the contract must not be stuck
				scens = append(scens, scen{k: k, steps: []c09Step{{Kind: "rawfree", Indices: idx, Stop: stop}, {Kind: "free", Indices: idx}}})
			}
			scens = append(scens, scen{k: k, steps: []c09Step{{Kind: "rawfree", Indices: idx, BadSig: true}, {Kind: "free", Indices: idx}}})
			if len(idx) <= 3 {
				for _, p := range perms(idx) {
					scens = append(scens, scen{k: k, steps: []c09Step{{Kind: "rawfree", Indices: p}}})
				}
			}
			// honest client given the indices in ascending order with a duplicate
			scens = append(scens, scen{k: k, steps: []c09Step{{Kind: "free", Indices: append(append([]uint64(nil), idx...), idx[0])}}})
		}
		// duplicates and out-of-range raw
		for _, bad := range [][]uint64{{0, 0}, {uint64(k)}, {uint64(k) + 5}, {0, uint64(k)}} {
			scens = append(scens, scen{k: k, steps: []c09Step{{Kind: "rawfree", Indices: bad}, {Kind: "append", Roots: []int{0}}}})
		}
		// appends mixing known and unknown roots, with aborts
		for _, batch := range [][]int{{0}, {0, 1}, {-1}, {0, -1}, {-1, 0}, {0, -1, 1}, {-1, -2}} {
			scens = append(scens, scen{k: k, steps: []c09Step{{Kind: "append", Roots: batch}}})
			for stop := 1; stop <= 3; stop++ {
				scens = append(scens, scen{k: k, steps: []c09Step{{Kind: "append", Roots: batch, Stop: stop}, {Kind: "append", Roots: batch}}})
			}
			scens = append(scens, scen{k: k, steps: []c09Step{{Kind: "append", Roots: batch, BadSig: true}, {Kind: "append", Roots: batch}}})
		}
	}
	// sequences of length <= 3 over a small operation menu on contracts of 2..4 sectors
	menu := func(k int) []c09Step {
		last := uint64(k - 1)
		return []c09Step{
			{Kind: "append", Roots: []int{0}}, {Kind: "append", Roots: []int{1, -1, 2}},
			{Kind: "free", Indices: []uint64{0}}, {Kind: "free", Indices: []uint64{last}}, {Kind: "free", Indices: []uint64{0, last}},
			{Kind: "rawfree", Indices: []uint64{0}, Stop: 2}, {Kind: "rawfree", Indices: []uint64{0, 1}, Stop: 3}, {Kind: "append", Roots: []int{3}, Stop: 2},
		}
	}
	seqLen := 3
	if run.Thorough() {
		seqLen = 4
	}
	for k := 2; k <= 4; k++ {
		m := menu(k)
		var rec func(prefix []c09Step)
		rec = func(prefix []c09Step) {
			if len(prefix) == seqLen {
				scens = append(scens, scen{k: k, steps: append([]c09Step(nil), prefix...)})
				return
			}
			for _, s := range m {
				rec(append(prefix, s))
			}
		}
		rec(nil)
	}
	// every scenario against the in-repo reference contractor and against a contractor that trusts the server
	for _, sc := range append([]scen(nil), scens...) {
		sc.trusting = true
		scens = append(scens, sc)
	}
	var mu sync.Mutex
	outcomes := map[string]bool{}
	parallel(len(scens), func(i int) {
		if run.Expired() {
			run.Cap("time budget: not all scenarios run")
			return
		}
		sc := scens[i]
		sig, what := "", ""
		func() {
			defer func() {
				if r := recover(); r != nil {
					sig, what = "c09:panic", fmt.Sprintf("contract with %d sectors, attempts %v: panic: %v", sc.k, sc.steps, r)
				}
			}()
			sig, what = runC09(sc.k, sc.steps, sc.trusting)
		}()
		run.Add(int64(len(sc.steps)), int64(len(sc.steps)), 1, int64(len(sc.steps)))
		mu.Lock()
		outcomes[fmt.Sprint(sc.k, sc.steps, sc.trusting)] = true
		mu.Unlock()
		if i%997 == 0 {
			run.Sample(map[string]any{"contract_sectors": sc.k, "attempts": fmt.Sprint(sc.steps)})
		}
		if sig != "" {
			run.Violate(sig, fmt.Sprintf("[trusting contractor=%v] %s", sc.trusting, what), map[string]any{"contract_sectors": sc.k, "attempts": fmt.Sprint(sc.steps), "trusting_contractor": sc.trusting})
		}
	})
	run.DistinctN = int64(len(outcomes))
	run.Extra["scenarios"] = len(scens)
	run.Rule = fmt.Sprintf("contracts of 0..%d sectors (planted through the Contractor interface) x every non-empty index subset: honest RPCFreeSectors, the same raw on the wire in every order for |S|<=3, with a duplicate, aborted after the request / after the proof / after the renter signature, with a wrong renter signature, each followed by the honest operation; duplicate and out-of-range raw requests; append batches mixing known and unknown roots with every abort point; all sequences of length %d over an 8-entry append/free/abort menu on contracts of 2..4 sectors; distinct = distinct (size, attempt list) scenarios", maxK, seqLen)
	run.Explanation = "After every attempt the host's state is read through LockV2Contract: MetaRoot(roots) == committed FileMerkleRoot and count*SectorSize == Filesize; a failed or abandoned attempt leaves revision, roots (in order) and signatures byte-identical; successful honest operations leave exactly the roots of the list model (append at end, swap-remove from the end); finally RPCSectorRoots over ranges returns the model's roots (proof verified by the real client)."
	run.Assumptions = []string{"sector data is synthetic (roots vouched for by the recording sector store); reading real sectors back is part of C15/C10", "go.sia.tech/core proof builders/verifiers trusted"}
	_ = proto4.SectorSize
}
