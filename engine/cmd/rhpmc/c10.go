package main

import (
	"bytes"
	"context"
	"os"
	"time"
	"fmt"
	"io"
	"net"
	"strings"
	"sync"

	proto4 "go.sia.tech/core/rhp/v4"
	"go.sia.tech/core/types"
	rhp "go.sia.tech/coreutils/rhp/v4"
	"verif/internal/rhpx"
)

// faultConn mutates the host->renter byte stream of one stream at an absolute offset.
type faultConn struct {
	net.Conn
	mode   string // "", flip, truncate, insert, tail
	at     int
	mask   byte
	tail   []byte // replaces the last len(tail) bytes of the stream (needs total)
	total  int
	seen   int
	record *bytes.Buffer
	pend   []byte
}

func (c *faultConn) Read(p []byte) (int, error) {
	if len(c.pend) > 0 {
		n := copy(p, c.pend)
		c.pend = c.pend[n:]
		return n, nil
	}
	if c.mode == "truncate" && c.seen >= c.at {
		c.Conn.Close()
		return 0, io.EOF // what a closed stream yields
	}
	n, err := c.Conn.Read(p)
	if n > 0 {
		if c.record != nil {
			c.record.Write(p[:n])
		}
		lo, hi := c.seen, c.seen+n
		switch c.mode {
		case "flip":
			if c.at >= lo && c.at < hi {
				p[c.at-lo] ^= c.mask
			}
		case "truncate":
			if c.at < hi {
				n = c.at - lo
			}
		case "insert":
			if c.at >= lo && c.at < hi {
				k := c.at - lo
				rest := append([]byte{c.mask}, p[k:n]...)
				c.pend = append(c.pend, rest...)
				n = k
				if n == 0 {
					m := copy(p, c.pend)
					c.pend = c.pend[m:]
					n = m
				}
			}
		case "tail":
			start := c.total - len(c.tail)
			for i := 0; i < n; i++ {
				if pos := lo + i; pos >= start && pos < c.total {
					p[i] = c.tail[pos-start]
				}
			}
		}
		c.seen = hi
	}
	return n, err
}

// c10case is one renter call with its ground-truth oracle.
type c10case struct {
	name string
	// run performs the renter call on w (w.T.Wrap already installed) and returns ("", nil-or-err) or a violation text
	run func(w *rhpx.World) (violation string, err error)
	// alt returns alternative revisions the host could sign instead (for the re-signing attack)
	alt func(w *rhpx.World) []types.V2FileContract
}

// cctx bounds one renter call: a corrupted length prefix can leave both sides waiting for each other; the
// deadline only ends such exchanges (with an error, which is what the property demands there).
func cctx() context.Context {
	c, cancel := context.WithTimeout(context.Background(), 4*time.Second)
	_ = cancel
	return c
}

func c10Cases() []c10case {
	accountKey := rhpx.Key("c10-account")
	model := func(k int) []types.Hash256 {
		r := make([]types.Hash256, k)
		for i := range r {
			r[i] = rhpx.Root(i)
		}
		return r
	}
	checkRev := func(w *rhpx.World, rev types.V2FileContract, wantRoots []types.Hash256, maxCost types.Currency) string {
		if rev.FileMerkleRoot != proto4.MetaRoot(wantRoots) || rev.Filesize != uint64(len(wantRoots))*proto4.SectorSize {
			return fmt.Sprintf("returned revision has Merkle root %v / size %d, the requested operation applied to the previous roots gives %v / %d", rev.FileMerkleRoot, rev.Filesize, proto4.MetaRoot(wantRoots), uint64(len(wantRoots))*proto4.SectorSize)
		}
		if !w.HostKey.PublicKey().VerifyHash(w.CS.ContractSigHash(rev), rev.HostSignature) {
			return "returned revision does not carry a valid host signature"
		}
		if paid := w.Contract.Revision.RenterOutput.Value.Sub(rev.RenterOutput.Value); paid.Cmp(maxCost) > 0 {
			return fmt.Sprintf("returned revision charges %v, the agreed price table allows at most %v", paid, maxCost)
		}
		return ""
	}
	return []c10case{
		{name: "read(0,128)", run: func(w *rhpx.World) (string, error) {
			var buf bytes.Buffer
			_, err := rhp.RPCReadSector(cctx(), w.T, w.Prices, proto4.NewAccountToken(accountKey, w.HostKey.PublicKey()), &buf, realSectorRoot, 0, 128)
			if err == nil && !bytes.Equal(buf.Bytes(), realSector[0:128]) {
				return fmt.Sprintf("RPCReadSector reported success but wrote %d bytes that are not bytes [0,128) of the sector", buf.Len()), nil
			}
			return "", err
		}},
		{name: "read(4096,64)", run: func(w *rhpx.World) (string, error) {
			var buf bytes.Buffer
			_, err := rhp.RPCReadSector(cctx(), w.T, w.Prices, proto4.NewAccountToken(accountKey, w.HostKey.PublicKey()), &buf, realSectorRoot, 4096, 64)
			if err == nil && !bytes.Equal(buf.Bytes(), realSector[4096:4160]) {
				return fmt.Sprintf("RPCReadSector reported success but wrote %d bytes that are not bytes [4096,4160) of the sector", buf.Len()), nil
			}
			return "", err
		}},
		{name: "write(128)", run: func(w *rhpx.World) (string, error) {
			data := bytes.Repeat([]byte{0xA7}, 128)
			res, err := rhp.RPCWriteSector(cctx(), w.T, w.Prices, proto4.NewAccountToken(accountKey, w.HostKey.PublicKey()), bytes.NewReader(data), 128)
			if err == nil {
				var sector [proto4.SectorSize]byte
				copy(sector[:], data)
				if want := proto4.SectorRoot(&sector); res.Root != want {
					return fmt.Sprintf("RPCWriteSector reported success with root %v, the root of the bytes sent is %v", res.Root, want), nil
				}
			}
			return "", err
		}},
		{name: "verify", run: func(w *rhpx.World) (string, error) {
			_, err := rhp.RPCVerifySector(cctx(), w.T, w.Prices, proto4.NewAccountToken(accountKey, w.HostKey.PublicKey()), realSectorRoot)
			return "", err // binding is judged by the proxy-side predicate (see c10 driver)
		}},
		{name: "roots(1,2)", run: func(w *rhpx.World) (string, error) {
			res, err := rhp.RPCSectorRoots(cctx(), w.T, w.CS, w.Prices, w.RenterKey, w.Contract, 1, 2)
			if err == nil {
				if fmt.Sprint(res.Roots) != fmt.Sprint(model(4)[1:3]) {
					return "RPCSectorRoots reported success with roots that are not the contract's roots for the range", nil
				}
				if v := checkRev(w, res.Revision, model(4), w.Prices.RPCSectorRootsCost(2).RenterCost()); v != "" {
					return "RPCSectorRoots: " + v, nil
				}
			}
			return "", err
		}, alt: func(w *rhpx.World) []types.V2FileContract {
			r, _, _ := proto4.ReviseForSectorRoots(w.Contract.Revision, w.Prices, 3)
			return []types.V2FileContract{r, w.Contract.Revision}
		}},
		{name: "append", run: func(w *rhpx.World) (string, error) {
			n1, n2 := rhpx.Root(500), rhpx.Root(501)
			w.Sec.Vouched[n1], w.Sec.Vouched[n2] = true, true
			unknown := types.HashBytes([]byte("c10-unknown"))
			res, err := rhp.RPCAppendSectors(cctx(), w.T, w.RenterKey, w.CS, w.Prices, w.Contract, []types.Hash256{n1, unknown, n2})
			if err == nil {
				want := append(model(4), res.Sectors...)
				for _, s := range res.Sectors {
					if s != n1 && s != n2 && s != unknown {
						return "RPCAppendSectors returned a sector that was not requested", nil
					}
				}
				if v := checkRev(w, res.Revision, want, w.Prices.RPCAppendSectorsCost(uint64(len(res.Sectors)), w.Contract.Revision.ExpirationHeight-w.Prices.TipHeight).RenterCost()); v != "" {
					return "RPCAppendSectors: " + v, nil
				}
			}
			return "", err
		}, alt: func(w *rhpx.World) []types.V2FileContract {
			r, _, _ := proto4.ReviseForAppendSectors(w.Contract.Revision, w.Prices, types.Hash256{1}, 2)
			r2, _, _ := proto4.ReviseForAppendSectors(w.Contract.Revision, w.Prices, proto4.MetaRoot(append(model(4), rhpx.Root(500), rhpx.Root(501))), 3)
			return []types.V2FileContract{r, r2}
		}},
		{name: "free[1,3]", run: func(w *rhpx.World) (string, error) {
			res, err := rhp.RPCFreeSectors(cctx(), w.T, w.RenterKey, w.CS, w.Prices, w.Contract, []uint64{1, 3})
			if err == nil {
				if v := checkRev(w, res.Revision, modelFree(model(4), []uint64{1, 3}), w.Prices.RPCFreeSectorsCost(2).RenterCost()); v != "" {
					return "RPCFreeSectors: " + v, nil
				}
			}
			return "", err
		}, alt: func(w *rhpx.World) []types.V2FileContract {
			r, _, _ := proto4.ReviseForFreeSectors(w.Contract.Revision, w.Prices, proto4.MetaRoot(model(4)[:2]), 2)
			r2, _, _ := proto4.ReviseForFreeSectors(w.Contract.Revision, w.Prices, proto4.MetaRoot(modelFree(model(4), []uint64{1, 3})), 3)
			return []types.V2FileContract{r, r2}
		}},
		{name: "fund", run: func(w *rhpx.World) (string, error) {
			a := acc(accountKey)
			res, err := rhp.RPCFundAccounts(cctx(), w.T, w.CS, w.RenterKey, w.Contract, []proto4.AccountDeposit{{Account: a, Amount: types.Siacoins(2)}})
			if err == nil {
				if v := checkRev(w, res.Revision, model(4), types.Siacoins(2)); v != "" {
					return "RPCFundAccounts: " + v, nil
				}
			}
			return "", err
		}, alt: func(w *rhpx.World) []types.V2FileContract {
			r, _, _ := proto4.ReviseForFundAccounts(w.Contract.Revision, types.Siacoins(3))
			return []types.V2FileContract{r}
		}},
		{name: "replenish", run: func(w *rhpx.World) (string, error) {
			as := []proto4.Account{acc(accountKey), acc(rhpx.Key("c10-b"))}
			res, err := rhp.RPCReplenishAccounts(cctx(), w.T, rhp.RPCReplenishAccountsParams{Accounts: as, Target: types.Siacoins(30), Contract: w.Contract}, w.CS, w.RenterKey)
			if err == nil {
				if v := checkRev(w, res.Revision, model(4), types.Siacoins(60)); v != "" {
					return "RPCReplenishAccounts: " + v, nil
				}
			}
			return "", err
		}, alt: func(w *rhpx.World) []types.V2FileContract {
			r, _, _ := proto4.ReviseForReplenish(w.Contract.Revision, types.Siacoins(55))
			return []types.V2FileContract{r}
		}},
	}
}

func c10World() *rhpx.World {
	initSector()
	w := newWorldWith(true)
	w.Plant(4, types.Siacoins(500), types.Siacoins(300))
	w.Sec.EphemeralSectorStore.StoreSector(realSectorRoot, &realSector, nil, 1000)
	// an account with plenty of funds, credited directly
	w.Con.CreditAccountsWithContract([]proto4.AccountDeposit{{Account: acc(rhpx.Key("c10-account")), Amount: types.Siacoins(25)}}, w.Contract.ID, w.Contract.Revision, proto4.Usage{})
	w.Con.Take()
	return w
}

func c10() {
	cases := c10Cases()
	type job struct {
		c    int
		mode string
		at   int
		mask byte
		tail []byte
		note string
	}
	var jobs []job
	lens := make([]int, len(cases))
	// pass 1: honest run of every case, recording the host->renter stream
	for ci, c := range cases {
		if f := os.Getenv("VERIF_C10_CASE"); f != "" && !strings.HasPrefix(c.name, f) {
			continue
		}
		w := c10World()
		rec := &bytes.Buffer{}
		w.T.Wrap = func(cl net.Conn) net.Conn { return &faultConn{Conn: cl, record: rec} }
		v, err := c.run(w)
		w.T.WaitIdle()
		if v != "" || err != nil {
			run.Violate("c10:honest-run-failed:"+c.name, fmt.Sprintf("%s against an honest host: %s %v", c.name, v, err), nil)
			w.Close()
			continue
		}
		lens[ci] = rec.Len()
		masks := []byte{0x01, 0x80}
		if run.Thorough() {
			masks = []byte{0x01, 0x10, 0x80, 0xff}
		}
		for p := 0; p < rec.Len(); p++ {
			for _, m := range masks {
				jobs = append(jobs, job{c: ci, mode: "flip", at: p, mask: m})
			}
			jobs = append(jobs, job{c: ci, mode: "truncate", at: p})
			if p%3 == 0 || run.Thorough() {
				jobs = append(jobs, job{c: ci, mode: "insert", at: p, mask: 0x00}, job{c: ci, mode: "insert", at: p, mask: 0x5a})
			}
		}
		if c.alt != nil {
			for ai, r := range c.alt(w) {
				sig := w.HostKey.SignHash(w.CS.ContractSigHash(r))
				jobs = append(jobs, job{c: ci, mode: "tail", tail: sig[:], note: fmt.Sprintf("host signature replaced by a valid host signature over alternative revision #%d", ai)})
			}
			other := rhpx.Key("verif-other").SignHash(w.CS.ContractSigHash(w.Contract.Revision))
			jobs = append(jobs, job{c: ci, mode: "tail", tail: other[:], note: "host signature replaced by another key's signature"})
		}
		w.Close()
	}
	var mu sync.Mutex
	accepted, rejected := 0, 0
	outcomes := map[string]bool{}
	parallel(len(jobs), func(i int) {
		if run.Expired() {
			run.Cap("time budget: not all response corruptions run")
			return
		}
		j := jobs[i]
		c := cases[j.c]
		w := c10World()
		defer w.Close()
		var fc *faultConn
		w.T.Wrap = func(cl net.Conn) net.Conn {
			fc = &faultConn{Conn: cl, mode: j.mode, at: j.at, mask: j.mask, tail: j.tail, total: lens[j.c], record: &bytes.Buffer{}}
			return fc
		}
		what := fmt.Sprintf("%s with host->renter stream (%d bytes) corrupted: %s at byte %d mask %#x %s", c.name, lens[j.c], j.mode, j.at, j.mask, j.note)
		var v string
		var err error
		func() {
			defer func() {
				if r := recover(); r != nil {
					v = fmt.Sprintf("PANIC in the renter-side call: %v", r)
				}
			}()
			v, err = c.run(w)
		}()
		w.T.WaitIdle()
		run.Add(1, 1, 1, 1)
		mu.Lock()
		if err == nil {
			accepted++
		} else {
			rejected++
		}
		outcomes[fmt.Sprint(j.c, j.mode, err == nil, errClass(err))] = true
		mu.Unlock()
		if v != "" {
			run.Violate("c10:success-not-bound:"+strings.SplitN(c.name, "(", 2)[0]+":"+j.mode, what+": "+v, map[string]any{"case": c.name, "mode": j.mode, "at": j.at, "mask": j.mask})
			return
		}
		// verify: the leaf/proof as received must satisfy the predicate on what was requested
		if c.name == "verify" && err == nil && j.mode == "flip" && j.at > 0 {
			// any flipped bit inside the proof or leaf breaks the Merkle path to the requested root (hash preimage);
			// position 0 is the error flag. A success here means the client did not check the proof.
			run.Violate("c10:success-not-bound:verify:flip", what+": RPCVerifySector reported success although the leaf/proof it received was altered", map[string]any{"case": c.name, "at": j.at})
		}
		if i%2500 == 0 {
			run.Sample(map[string]any{"case": c.name, "corruption": j.mode, "at": j.at, "accepted": err == nil})
		}
	})
	c10Lying()
	c10Scripted()
	c10ScriptedRoots()
	c10ScriptedProofs()
	c10ScriptedRead()
	run.DistinctN = int64(len(outcomes))
	run.Extra["corrupted_runs"] = len(jobs)
	run.Extra["runs_reporting_success"] = accepted
	run.Extra["runs_reporting_error"] = rejected
	run.Extra["stream_lengths"] = lens
	run.Rule = "for each renter call {read(0,128), read(4096,64), write, verify, sector roots, append (with an unknown root), free, fund accounts, replenish accounts} against the real server: the host->renter byte stream of the honest exchange is recorded, then the call is repeated once per single deviation: every byte flipped with 2 (thorough 4) masks, the stream cut at every offset, a byte inserted at offsets (every 3rd in quick), the trailing host signature replaced by a valid host signature over an alternative revision (other root, higher cost, previous revision) or by another key's signature; plus hosts whose collaborators lie (sector store serving another offset/sector/length, contractor reporting other roots); distinct = distinct (case, corruption kind, verdict, error class)"
	run.Explanation = "Oracle: if the renter-side call returns nil, the ground truth held by the harness must hold (exact sector bytes written to the caller's writer; root of exactly the bytes sent; the contract's actual roots for the range; new Merkle root == the requested append/free applied to the known roots, file size consistent; every returned revision verifies under the host key and charges no more than the price table / target x accounts); a panic is a violation; otherwise an error must have been returned."
	run.Assumptions = []string{"one deviation per run (thorough adds more masks, not multi-byte corruptions)", "RPCLatestRevision is not a binding claim", "core proof verifiers are trusted; what is checked is that the client wires them to the requested values"}
}

func errClass(err error) string {
	if err == nil {
		return ""
	}
	s := err.Error()
	if len(s) > 24 {
		s = s[:24]
	}
	return s
}
