package main

import (
	"context"
	"fmt"
	"sort"
	"sync"
	"time"

	"go.sia.tech/core/consensus"
	proto4 "go.sia.tech/core/rhp/v4"
	"go.sia.tech/core/types"
	rhp "go.sia.tech/coreutils/rhp/v4"
	"verif/internal/node"
	"verif/internal/rhpx"
	"verif/internal/univ"
)

// c08Chain: the host's latest revision is always acceptable to consensus as a revision of the on-chain
// contract. The contract is formed in block 1 of a real chain; after every honest RPC a revision
// transaction built from the stored revision is validated against the tip.
func c08Chain() {
	u := univ.NewUniverse("rhp-chain", univ.RegimeV2)
	L := u.Nodes[0].L
	hostKey, renterKey := rhpx.Key("verif-host"), rhpx.Key("verif-renter")
	prices := rhpx.Prices(hostKey, 0, L.State.PrevTimestamps[0].AddDate(50, 0, 0))
	params := proto4.RPCFormContractParams{RenterPublicKey: renterKey.PublicKey(), RenterAddress: types.StandardUnlockHash(renterKey.PublicKey()),
		Allowance: types.Siacoins(40), Collateral: types.Siacoins(20), ProofHeight: 500}
	fc, usage := proto4.NewContract(prices, params, hostKey.PublicKey(), types.StandardUnlockHash(hostKey.PublicKey()))
	h := L.State.ContractSigHash(fc)
	fc.RenterSignature, fc.HostSignature = renterKey.SignHash(h), hostKey.SignHash(h)
	a1 := u.As[1]
	own := univ.OwnedSC(L, a1.Addr)
	txn := types.V2Transaction{SiacoinInputs: []types.V2SiacoinInput{{Parent: own[0].Copy()}}, FileContracts: []types.V2FileContract{fc}, MinerFee: types.Siacoins(1)}
	rc, hc := proto4.ContractCost(L.State, fc, txn.MinerFee)
	txn.SiacoinOutputs = []types.SiacoinOutput{{Address: a1.Addr, Value: own[0].SiacoinOutput.Value.Sub(rc).Sub(hc)}}
	univ.SignV2(L.State, &txn, a1)
	k := u.Add(0, 1, nil, []types.V2Transaction{txn}, "formation")
	if !u.Nodes[k].Valid {
		run.Violate("c08:chain-setup", "formation block invalid: "+u.Nodes[k].Err, nil)
		return
	}
	k = u.Add(k, 1, nil, nil, "")
	id := txn.V2FileContractID(txn.ID(), 0)
	tipL := u.Nodes[k].L
	fce, ok := tipL.V2FCEs[id]
	if !ok {
		run.Violate("c08:chain-setup", "contract element missing", nil)
		return
	}
	n := node.New(u)
	if err := n.CM.AddBlocks(u.Blocks(u.PathTo(k))); err != nil {
		run.Violate("c08:chain-setup", err.Error(), nil)
		return
	}
	rpcs := c08RPCs()
	honest := c08Mutations()[0]
	var order [][]int
	for a := range rpcs {
		for b := range rpcs {
			for c := range rpcs {
				order = append(order, []int{a, b, c})
			}
		}
	}
	for _, seq := range order {
		w := rhpx.NewWorldWith(n.CM, nil, false)
		w.Prices = rhpx.Prices(w.HostKey, w.CS.Index.Height, w.Prices.ValidUntil)
		if err := w.Con.AddV2Contract(rhp.TransactionSet{Transactions: []types.V2Transaction{txn}}, usage); err != nil {
			panic(err)
		}
		w.Con.Take()
		c := rhp.ContractRevision{ID: id, Revision: fc}
		accounts := []proto4.Account{acc(rhpx.Key("c08-a")), acc(rhpx.Key("c08-b"))}
		var names []string
		for _, ri := range seq {
			names = append(names, rpcs[ri].name)
			rev, err := rpcs[ri].run(w, c, honest, accounts)
			w.T.WaitIdle()
			if err != nil {
				continue
			}
			c.Revision = rev
			stored := w.Snap(id, nil, nil).Revision
			rtxn := types.V2Transaction{FileContractRevisions: []types.V2FileContractRevision{{Parent: fce.Copy(), Revision: stored}}}
			if verr := consensus.ValidateV2Transaction(consensus.NewMidState(tipL.State), rtxn); verr != nil {
				run.Violate("c08:latest-revision-not-acceptable-to-consensus", fmt.Sprintf("after %v the host's stored revision %d is rejected by consensus as a revision of the on-chain contract: %v", names, stored.RevisionNumber, verr), map[string]any{"exchanges": names})
				w.Close()
				return
			}
			run.Add(1, 1, 1, 1)
		}
		w.Close()
	}
	run.Extra["consensus_validated_sequences"] = len(order)
}

// c08UnknownThenKnown: a request naming a contract the host does not have yet (its id is predictable: the
// renewal id) must change nothing - in particular it must not leave that id locked for when the contract
// comes into existence.
func c08UnknownThenKnown() {
	for _, trusting := range []bool{false, true} {
		w := newWorldWith(trusting)
		w.Plant(1, types.Siacoins(100), types.Siacoins(50))
		rid := w.Contract.ID.V2RenewalID()
		for i := 0; i < 2; i++ {
			if _, err := rhp.RPCLatestRevision(ctx, w.T, rid); err == nil {
				run.Violate("c08:unknown-contract-served", "RPCLatestRevision for a contract the host does not have succeeded", nil)
			}
			w.T.WaitIdle()
		}
		w.MarkRenewed()
		run.Add(1, 1, 1, 1)
		_, err := rhp.RPCLatestRevision(ctx, w.T, rid)
		w.T.WaitIdle()
		if err != nil {
			run.Violate("c08:failed-request-changed-state:unknown-contract-left-locked", fmt.Sprintf("[trusting contractor: %v] RPCLatestRevision(renewal id) before the renewal existed, then the renewal is recorded: RPCLatestRevision on the renewed contract fails: %v", trusting, err), map[string]any{"trusting": trusting})
		}
		w.Close()
	}
}

// c08Concurrent: two revising RPCs on the same contract; every interleaving of their Contractor calls
// (gated at the wrapping Contractor) is executed, with the reference try-lock contractor and with a
// blocking-lock contractor.
func c08Concurrent() {
	rpcs := c08RPCs()
	honest := c08Mutations()[0]
	pairs := [][2]int{}
	for a := range rpcs {
		for b := range rpcs {
			if rpcs[a].name == "roots-out-of-range" || rpcs[b].name == "roots-out-of-range" {
				continue
			}
			pairs = append(pairs, [2]int{a, b})
		}
	}
	total, outcomes := 0, map[string]bool{}
	for _, blocking := range []bool{false, true} {
		for _, p := range pairs {
			// enumerate schedules: a schedule is a sequence of choices "which RPC's pending Contractor call proceeds next"
			var explore func(prefix []int)
			explore = func(prefix []int) {
				if run.Expired() {
					run.Cap("time budget in concurrent exploration")
					return
				}
				trace, sig, what, outcome := runGated(rpcs[p[0]], rpcs[p[1]], honest, blocking, prefix)
				total++
				outcomes[fmt.Sprint(blocking, p, outcome)] = true
				if sig != "" {
					run.Violate(sig, fmt.Sprintf("concurrent %s || %s (blocking lock=%v), schedule %v: %s", rpcs[p[0]].name, rpcs[p[1]].name, blocking, trace, what), map[string]any{"rpcs": []string{rpcs[p[0]].name, rpcs[p[1]].name}, "blocking": blocking, "schedule": trace})
					return
				}
				// branch on every later decision point where the other RPC was also waiting
				for i := len(prefix); i < len(trace); i++ {
					if trace[i] >= 10 { // 10+x: both were waiting and x was chosen
						alt := append(append([]int(nil), normalise(trace[:i])...), 1-(trace[i]-10))
						explore(alt)
					}
				}
			}
			explore(nil)
		}
	}
	run.Add(int64(total), int64(total), int64(total), int64(total))
	for o := range outcomes {
		run.Distinct("concurrent", o)
	}
	run.Extra["concurrent_schedules"] = total
	run.Extra["concurrent_distinct_outcomes"] = len(outcomes)
}

func normalise(t []int) []int {
	out := make([]int, len(t))
	for i, v := range t {
		out[i] = v % 10
	}
	return out
}

// runGated runs two RPCs concurrently; each Contractor call of either handler stops at a gate. The
// schedule prefix decides which waiting call proceeds whenever both are waiting (default: RPC 0).
// Returns the trace (choice, +10 if it was a real choice), a violation, and an outcome fingerprint.
func runGated(a, b c08rpc, m c08mut, blocking bool, prefix []int) (trace []int, sig, what, outcome string) {
	w := newWorldWith(true)
	defer w.Close()
	w.Con.Contractor.(*rhpx.TrustingContractor).Blocking = blocking
	w.Plant(2, types.Siacoins(500), types.Siacoins(200))
	accounts := []proto4.Account{acc(rhpx.Key("c08-a")), acc(rhpx.Key("c08-b"))}
	before := w.Snap(w.Contract.ID, accounts, accounts)
	type arrival struct {
		gid    int64
		resume chan struct{}
	}
	arrivals := make(chan arrival)
	w.Con.Hook = func(string) {
		ar := arrival{gid: goid(), resume: make(chan struct{})}
		arrivals <- ar
		<-ar.resume
	}
	w.Con.LockHook = w.Con.Hook
	type result struct {
		rev types.V2FileContract
		err error
	}
	res := make([]chan result, 2)
	owner := map[int64]int{}
	waiting := [2]*arrival{}
	done := [2]bool{}
	var results [2]result
	start := func(i int, r c08rpc) {
		res[i] = make(chan result, 1)
		go func() {
			rev, err := r.run(w, w.Contract, m, accounts)
			res[i] <- result{rev, err}
		}()
	}
	// start RPC 0 and wait for its first Contractor call (or completion), then RPC 1: this pins goroutine ownership
	for i, r := range []c08rpc{a, b} {
		start(i, r)
		select {
		case ar := <-arrivals:
			owner[ar.gid] = i
			waiting[i] = &ar
		case rr := <-res[i]:
			results[i], done[i] = rr, true
		}
	}
	// states: 0 running, 1 waiting at a gate, 2 done, 3 blocked on the contract lock
	state := [2]int{}
	for i := 0; i < 2; i++ {
		switch {
		case done[i]:
			state[i] = 2
		case waiting[i] != nil:
			state[i] = 1
		}
	}
	// awaitEvent consumes one event and updates the states; hint is the RPC that was just released
	awaitEvent := func(hint int) bool {
		select {
		case ar := <-arrivals:
			i := owner[ar.gid]
			waiting[i], state[i] = &ar, 1
		case rr := <-res[0]:
			results[0], done[0], state[0] = rr, true, 2
		case rr := <-res[1]:
			results[1], done[1], state[1] = rr, true, 2
		case <-w.Con.BlockedOnLock():
			if hint >= 0 && state[hint] == 0 {
				state[hint] = 3
			}
		case <-time.After(20 * time.Second):
			return false
		}
		return true
	}
	step := 0
	for !(done[0] && done[1]) {
		if state[0] != 1 && state[1] != 1 {
			// nobody is at a gate: somebody must be running or blocked; wait for progress
			if !awaitEvent(-1) {
				w.Con.Hook, w.Con.LockHook = nil, nil
				return trace, "harness:gate-stall", "no progress for 20 s with no handler at a gate", ""
			}
			continue
		}
		choice := 0
		if state[0] != 1 {
			choice = 1
		}
		real := state[0] == 1 && state[1] == 1
		if real && step < len(prefix) {
			choice = prefix[step]
		}
		if real {
			trace = append(trace, 10+choice)
		} else {
			trace = append(trace, choice)
		}
		step++
		ar := waiting[choice]
		waiting[choice], state[choice] = nil, 0
		close(ar.resume)
		// let the released handler run to its next gate, its end, or until it blocks on the contract lock;
		// a handler that was blocked on the lock may reach a gate meanwhile
		for state[choice] == 0 {
			if !awaitEvent(choice) {
				w.Con.Hook, w.Con.LockHook = nil, nil
				return trace, "harness:gate-stall", "released handler made no progress for 20 s", ""
			}
		}
	}
	w.Con.Hook, w.Con.LockHook = nil, nil
	w.T.WaitIdle()
	calls := w.Con.Take()
	after := w.Snap(w.Contract.ID, accounts, accounts)
	// audit every commit in order
	if v := auditCommits(w, "any", before.Revision, calls); v != "" {
		return trace, "c08:concurrent:" + v[:indexByte(v, '|')], v, ""
	}
	if err := after.Consistent(); err != nil {
		return trace, "c08:concurrent:roots-inconsistent", err.Error(), ""
	}
	// both renters that were told "success" must hold a revision the host also committed
	commits := map[uint64]types.Hash256{}
	for _, c := range calls {
		if c.Revision != nil && c.Err == nil {
			commits[c.Revision.RevisionNumber] = w.CS.ContractSigHash(*c.Revision)
		}
	}
	ok := 0
	for i := 0; i < 2; i++ {
		if results[i].err == nil {
			ok++
			if commits[results[i].rev.RevisionNumber] != w.CS.ContractSigHash(results[i].rev) {
				return trace, "c08:concurrent:success-without-commit", fmt.Sprintf("RPC %d reported success with revision %d that the host never committed", i, results[i].rev.RevisionNumber), ""
			}
		}
	}
	var nums []int
	for n := range commits {
		nums = append(nums, int(n))
	}
	sort.Ints(nums)
	return trace, "", "", fmt.Sprint(ok, nums, results[0].err == nil, results[1].err == nil)
}

func indexByte(s string, b byte) int {
	for i := range s {
		if s[i] == b {
			return i
		}
	}
	return len(s)
}

var _ sync.Mutex

// c08CrossContract: two contracts A and B of one renter key with the same host, same allowance and collateral
// (they differ in the proof height). The renter collects revisions of A that cost nothing (RPCFreeSectors
// without indices), pays through B, and then broadcasts A's highest revision as a revision of B: the contract
// signature hash does not cover the contract id. If consensus accepts that, the host's latest revision of B -
// the one that holds the payment - has a lower revision number than the on-chain contract and can never be
// confirmed.
func c08CrossContract() {
	u := univ.NewUniverse("rhp-two-contracts", univ.RegimeV2)
	L := u.Nodes[0].L
	hostKey, renterKey := rhpx.Key("verif-host"), rhpx.Key("verif-renter")
	prices := rhpx.Prices(hostKey, 0, L.State.PrevTimestamps[0].AddDate(50, 0, 0))
	a1 := u.As[1]
	own := univ.OwnedSC(L, a1.Addr)
	var txns []types.V2Transaction
	var fcs []types.V2FileContract
	var usages []proto4.Usage
	for i, ph := range []uint64{500, 600} {
		params := proto4.RPCFormContractParams{RenterPublicKey: renterKey.PublicKey(), RenterAddress: types.StandardUnlockHash(renterKey.PublicKey()),
			Allowance: types.Siacoins(20), Collateral: types.Siacoins(10), ProofHeight: ph}
		fc, usage := proto4.NewContract(prices, params, hostKey.PublicKey(), types.StandardUnlockHash(hostKey.PublicKey()))
		h := L.State.ContractSigHash(fc)
		fc.RenterSignature, fc.HostSignature = renterKey.SignHash(h), hostKey.SignHash(h)
		txn := types.V2Transaction{SiacoinInputs: []types.V2SiacoinInput{{Parent: own[i].Copy()}}, FileContracts: []types.V2FileContract{fc}, MinerFee: types.Siacoins(1)}
		rc, hc := proto4.ContractCost(L.State, fc, txn.MinerFee)
		txn.SiacoinOutputs = []types.SiacoinOutput{{Address: a1.Addr, Value: own[i].SiacoinOutput.Value.Sub(rc).Sub(hc)}}
		univ.SignV2(L.State, &txn, a1)
		txns, fcs, usages = append(txns, txn), append(fcs, fc), append(usages, usage)
	}
	k := u.Add(0, 1, nil, txns, "formations")
	if !u.Nodes[k].Valid {
		run.Violate("c08:chain-setup", "formation block invalid: "+u.Nodes[k].Err, nil)
		return
	}
	k = u.Add(k, 1, nil, nil, "")
	tipL := u.Nodes[k].L
	idA, idB := txns[0].V2FileContractID(txns[0].ID(), 0), txns[1].V2FileContractID(txns[1].ID(), 0)
	fceB, ok := tipL.V2FCEs[idB]
	if !ok {
		run.Violate("c08:chain-setup", "contract element missing", nil)
		return
	}
	n := node.New(u)
	if err := n.CM.AddBlocks(u.Blocks(u.PathTo(k))); err != nil {
		run.Violate("c08:chain-setup", err.Error(), nil)
		return
	}
	w := rhpx.NewWorldWith(n.CM, nil, false)
	defer w.Close()
	w.Prices = rhpx.Prices(w.HostKey, w.CS.Index.Height, w.Prices.ValidUntil)
	for i := range txns {
		if err := w.Con.AddV2Contract(rhp.TransactionSet{Transactions: []types.V2Transaction{txns[i]}}, usages[i]); err != nil {
			run.Violate("c08:chain-setup", "the host refuses the second contract of the renter key: "+err.Error(), nil)
			return
		}
	}
	w.Con.Take()
	cA, cB := rhp.ContractRevision{ID: idA, Revision: fcs[0]}, rhp.ContractRevision{ID: idB, Revision: fcs[1]}
	ctx := func() context.Context {
		c, cancel := context.WithTimeout(context.Background(), 10*time.Second)
		_ = cancel
		return c
	}
	for i := 0; i < 3; i++ {
		res, err := rhp.RPCFreeSectors(ctx(), w.T, w.RenterKey, w.CS, w.Prices, cA, nil)
		if err != nil {
			run.Distinct("cross-contract", "empty-free-refused")
			return // the host does not hand out free revisions: nothing to replay
		}
		cA.Revision = res.Revision
	}
	fund, err := rhp.RPCFundAccounts(ctx(), w.T, w.CS, w.RenterKey, cB, []proto4.AccountDeposit{{Account: acc(rhpx.Key("c08-x")), Amount: types.Siacoins(5)}})
	w.T.WaitIdle()
	if err != nil {
		run.Violate("c08:chain-setup", "funding through the second contract failed: "+err.Error(), nil)
		return
	}
	cB.Revision = fund.Revision
	run.Add(4, 4, 1, 1)
	hostB := w.Snap(idB, nil, nil).Revision
	hostA := w.Snap(idA, nil, nil).Revision
	// the renter broadcasts A's latest revision as a revision of B
	replayTxn := types.V2Transaction{FileContractRevisions: []types.V2FileContractRevision{{Parent: fceB.Copy(), Revision: hostA}}}
	if verr := consensus.ValidateV2Transaction(consensus.NewMidState(tipL.State), replayTxn); verr != nil {
		run.Distinct("cross-contract", "replay-rejected-by-consensus")
		return // consensus tells the two contracts apart: fine
	}
	b := univ.BuildBlock(tipL, univ.TS(u.Net, tipL.State.Index.Height+1, 4), u.As[3].Addr, nil, []types.V2Transaction{replayTxn})
	L2, _, aerr := tipL.ApplyBlock(b)
	if aerr != nil {
		run.Distinct("cross-contract", "replay-block-invalid")
		return
	}
	onchain := L2.V2FCEs[idB]
	rtxn := types.V2Transaction{FileContractRevisions: []types.V2FileContractRevision{{Parent: onchain.Copy(), Revision: hostB}}}
	run.Distinct("cross-contract", "replay-accepted")
	if verr := consensus.ValidateV2Transaction(consensus.NewMidState(L2.State), rtxn); verr != nil {
		run.Violate("c08:cross-contract-revision-replay", fmt.Sprintf("one renter key, contracts A and B with the same host: the doubly signed revision %d of A (payouts untouched, obtained through %d free RPCFreeSectors without indices) is accepted by consensus as a revision of B; after that the host's latest revision of B (revision %d, holding a 5 SC payment) is rejected: %v", hostA.RevisionNumber, hostA.RevisionNumber, hostB.RevisionNumber, verr), nil)
	}
}
