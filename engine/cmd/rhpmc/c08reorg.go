package main

import (
	"bytes"
	"fmt"
	"sync"

	proto4 "go.sia.tech/core/rhp/v4"
	"go.sia.tech/core/types"
	rhp "go.sia.tech/coreutils/rhp/v4"
	"go.sia.tech/coreutils/testutil"
	"verif/internal/node"
	"verif/internal/univ"
)

// c08ContractorReorg: "the host's latest revision is always acceptable to consensus as a revision of the
// on-chain contract" while the host's chain reorganises. The reference contractor (testutil.EphemeralContractor)
// follows a real chain.Manager through UpdatesSince/UpdateChainState. The fork tree holds the formation block
// F, blocks confirming revisions 1 and 2 of the contract, empty extensions, a heavier branch forking after F
// (confirms revision 2 directly), branches after F and after B1 that confirm nothing (dropping the confirmed revisions) and one forking before F (drops the contract). Every sequence of up to
// two (thorough: three) "submit the path up to node k" operations is run on a fresh manager + contractor; after every
// operation the element the contractor hands out must be the on-chain contract of the reference ledger at
// that tip, with a proof that verifies, and a revision transaction built from it and the host's latest
// revision must be valid there.
func c08ContractorReorg() {
	u := univ.NewUniverse("contractor-reorg", univ.RegimeV2)
	renter, host := u.As[1], u.As[2]
	k := 0
	for i := 1; i <= 2; i++ {
		k = u.Add(k, 3, nil, nil, fmt.Sprintf("m%d", i))
	}
	m2 := k
	L := u.Nodes[m2].L
	own := univ.OwnedSC(L, renter.Addr)
	if len(own) == 0 {
		run.Violate("c08:reorg-setup", "the renter owns no output at m2", nil)
		return
	}
	formTxn, fc0 := univ.V2Contract(L.State, renter, host, own[0], 40, 50, 0)
	id := formTxn.V2FileContractID(formTxn.ID(), 0)
	F := u.Add(m2, 3, nil, []types.V2Transaction{formTxn}, "F")
	// revisions 1..3 as the host stores them (3 is never confirmed)
	revs := []types.V2FileContract{fc0}
	for n := uint64(1); n <= 3; n++ {
		rev := revs[len(revs)-1]
		rev.RevisionNumber = n
		rev.RenterOutput.Value = rev.RenterOutput.Value.Sub(univ.SC(1))
		rev.HostOutput.Value = rev.HostOutput.Value.Add(univ.SC(1))
		univ.SignContract(L.State, &rev, renter, host)
		revs = append(revs, rev)
	}
	revTxn := func(at int, rev types.V2FileContract) []types.V2Transaction {
		fce, ok := u.Nodes[at].L.V2FCEs[id]
		if !ok {
			panic("setup: contract not on chain at " + u.Nodes[at].Label)
		}
		return []types.V2Transaction{{FileContractRevisions: []types.V2FileContractRevision{{Parent: fce.Copy(), Revision: rev}}}}
	}
	B1 := u.Add(F, 3, nil, revTxn(F, revs[1]), "B1(rev1)")
	B2 := u.Add(B1, 3, nil, revTxn(B1, revs[2]), "B2(rev2)")
	cur := B2
	for i := 3; i <= 5; i++ {
		cur = u.Add(cur, 3, nil, nil, fmt.Sprintf("B%d", i))
	}
	// X: forks after F, confirms revision 2 directly in its second block, one block longer than B2
	X1 := u.Add(F, 1, nil, nil, "X1")
	X2 := u.Add(X1, 1, nil, revTxn(X1, revs[2]), "X2(rev2)")
	cur = X2
	for i := 3; i <= 4; i++ {
		cur = u.Add(cur, 1, nil, nil, fmt.Sprintf("X%d", i))
	}
	// Z: forks after F and never confirms a revision; W: forks after B1 and never confirms revision 2
	cur = F
	for i := 1; i <= 6; i++ {
		cur = u.Add(cur, 2, nil, nil, fmt.Sprintf("Z%d", i))
	}
	cur = B1
	for i := 1; i <= 6; i++ {
		cur = u.Add(cur, 1, nil, nil, fmt.Sprintf("W%d", i))
	}
	// Y: forks before F (the contract never existed there), longest of all
	cur = m2
	for i := 1; i <= 9; i++ {
		cur = u.Add(cur, 2, nil, nil, fmt.Sprintf("Y%d", i))
	}
	for _, nd := range u.Nodes {
		if !nd.Valid {
			run.Violate("c08:reorg-setup", fmt.Sprintf("the reference rejects block %s: %s", nd.Label, nd.Err), nil)
			return
		}
	}
	formationSet := rhp.TransactionSet{Basis: L.State.Index, Transactions: []types.V2Transaction{formTxn}}

	// the host's latest revision is 0 (nothing revised), 2 (both confirmed revisions known) or 3 (one more)
	type world struct {
		n  *node.Node
		ec *testutil.EphemeralContractor
	}
	idle := node.New(u) // the contractor's own background loop listens to a manager that never moves
	newWorld := func(latest int) (*world, error) {
		w := &world{n: node.New(u), ec: testutil.NewEphemeralContractor(idle.CM)}
		if err := w.ec.AddV2Contract(formationSet, proto4.Usage{}); err != nil {
			return nil, fmt.Errorf("AddV2Contract: %w", err)
		}
		for n := 1; n <= latest; n++ {
			if err := w.ec.ReviseV2Contract(id, revs[n], nil, proto4.Usage{}); err != nil {
				return nil, fmt.Errorf("ReviseV2Contract(%d): %w", n, err)
			}
		}
		return w, nil
	}
	follow := func(w *world) error {
		for i := 0; i < 100; i++ {
			tip, _ := w.ec.Tip()
			if tip == w.n.CM.Tip() {
				return nil
			}
			rus, aus, err := w.n.CM.UpdatesSince(tip, 1000)
			if err != nil {
				return err
			}
			if err := w.ec.UpdateChainState(rus, aus); err != nil {
				return err
			}
		}
		return fmt.Errorf("contractor does not reach the tip")
	}
	judge := func(w *world, latest int) string {
		tipNode := w.n.TipNode()
		Lt := u.Nodes[tipNode].L
		onchain, exists := Lt.V2FCEs[id]
		_, el, err := w.ec.V2FileContractElement(id)
		switch {
		case !exists && err == nil:
			return "c08:reorg:element-of-unformed-contract|the contract is not on the chain at this tip, but the contractor hands out an element for it"
		case !exists:
			return ""
		case err != nil:
			return "c08:reorg:element-missing|the contract is on the chain at this tip, but the contractor has no element: " + err.Error()
		}
		if el.StateElement.LeafIndex != onchain.StateElement.LeafIndex || !bytes.Equal(encOf(el.V2FileContract), encOf(onchain.V2FileContract)) {
			return fmt.Sprintf("c08:reorg:element-is-not-the-onchain-contract|the contractor's element holds revision %d, the chain holds revision %d at this tip", el.V2FileContract.RevisionNumber, onchain.V2FileContract.RevisionNumber)
		}
		probe := types.V2Transaction{FileContractRevisions: []types.V2FileContractRevision{{Parent: el.Copy(), Revision: revs[latest]}}}
		if err := Lt.State.Elements.ValidateTransactionElements(probe); err != nil {
			return "c08:reorg:element-proof-invalid|the contractor's element does not verify against the tip: " + err.Error()
		}
		if uint64(latest) > onchain.V2FileContract.RevisionNumber {
			b := univ.BuildBlock(Lt, univ.TS(u.Net, Lt.State.Index.Height+1, 7), u.As[3].Addr, nil, []types.V2Transaction{probe})
			if _, _, err := Lt.ApplyBlock(b); err != nil {
				return "c08:reorg:latest-revision-not-confirmable|a revision transaction built from the contractor's element and the host's latest revision is rejected at this tip: " + err.Error()
			}
		}
		return ""
	}
	depth := 2
	if run.Thorough() {
		depth = 3
	}
	var targets []int
	for k := 1; k < len(u.Nodes); k++ {
		targets = append(targets, k)
	}
	var mu sync.Mutex
	count := 0
	runSeq := func(seq []int, latest int) {
		w, err := newWorld(latest)
		if err != nil {
			run.Violate("c08:reorg-setup", err.Error(), nil)
			return
		}
		defer w.ec.Close()
		var names []string
		for _, k := range seq {
			names = append(names, "upto("+u.Nodes[k].Label+")")
			w.n.CM.AddBlocks(u.Blocks(u.PathTo(k)))
			what := fmt.Sprintf("contractor following the chain, host's latest revision %d, submissions %v (tip %s)", latest, names, u.Nodes[w.n.TipNode()].Label)
			if err := follow(w); err != nil {
				run.Violate("c08:reorg:update-failed", what+": "+err.Error(), map[string]any{"latest": latest, "ops": names})
				return
			}
			if v := judge(w, latest); v != "" {
				parts := splitBar(v)
				run.Violate(parts[0], what+": "+parts[1], map[string]any{"latest": latest, "ops": names})
				return
			}
		}
		run.Add(int64(len(seq)), int64(len(seq)), 1, int64(len(seq)))
		run.Distinct("contractor-reorg", latest, fmt.Sprint(seq))
		mu.Lock()
		count++
		mu.Unlock()
	}
	var seqs [][]int
	var rec func(prefix []int)
	rec = func(prefix []int) {
		if len(prefix) > 0 {
			seqs = append(seqs, prefix)
		}
		if len(prefix) == depth {
			return
		}
		for _, k := range targets {
			if len(prefix) > 0 && prefix[len(prefix)-1] == k {
				continue
			}
			rec(append(append([]int(nil), prefix...), k))
		}
	}
	rec(nil)
	parallel(len(seqs), func(i int) {
		if run.Expired() {
			run.Cap("time budget: not all contractor reorg sequences run")
			return
		}
		for _, latest := range []int{0, 2, 3} {
			runSeq(seqs[i], latest)
		}
	})
	run.Extra["contractor_reorg_sequences"] = count
	run.Extra["contractor_reorg_tree"] = u.Describe()
}

func splitBar(v string) [2]string {
	for i := range v {
		if v[i] == '|' {
			return [2]string{v[:i], v[i+1:]}
		}
	}
	return [2]string{v, ""}
}
