package main

import (
	"fmt"

	proto4 "go.sia.tech/core/rhp/v4"
	"go.sia.tech/core/types"
	rhp "go.sia.tech/coreutils/rhp/v4"
	"verif/internal/rhpx"
)

// lyingContractor reports other sector roots than the contract really has (the revision is untouched),
// so the real server builds proofs and new roots that are consistent with the lie but not with the
// Merkle root the renter knows.
type lyingContractor struct {
	rhp.Contractor
	lie func([]types.Hash256) []types.Hash256
}

func (l *lyingContractor) LockV2Contract(id types.FileContractID) (rhp.RevisionState, func(), error) {
	rs, unlock, err := l.Contractor.LockV2Contract(id)
	if err == nil {
		rs.Roots = l.lie(append([]types.Hash256(nil), rs.Roots...))
	}
	return rs, unlock, err
}

// lyingSectors serves another sector / offset / length than requested (each with a proof that is valid
// for what is actually served).
type lyingSectors struct {
	rhp.Sectors
	mode string
}

func (l *lyingSectors) ReadSector(root types.Hash256, off, n uint64) ([]byte, []types.Hash256, error) {
	switch l.mode {
	case "other-sector":
		return l.Sectors.ReadSector(otherSectorRoot, off, n)
	case "shifted-offset":
		return l.Sectors.ReadSector(root, off+64, n)
	case "shorter":
		if n > 64 {
			return l.Sectors.ReadSector(root, off, n-64)
		}
	case "longer":
		return l.Sectors.ReadSector(root, off, n+64)
	case "data-from-other-proof-from-this":
		d, _, err := l.Sectors.ReadSector(otherSectorRoot, off, n)
		if err != nil {
			return nil, nil, err
		}
		_, p, err := l.Sectors.ReadSector(root, off, n)
		return d, p, err
	}
	return l.Sectors.ReadSector(root, off, n)
}

func (l *lyingSectors) HasSector(root types.Hash256) (bool, error) { return true, nil }

var (
	otherSector     [proto4.SectorSize]byte
	otherSectorRoot types.Hash256
)

// c10Lying: hosts whose collaborators lie while the real server code (and the real host key) is used.
func c10Lying() {
	initSector()
	for i := range otherSector {
		otherSector[i] = byte(i*17 + 3)
	}
	otherSectorRoot = proto4.SectorRoot(&otherSector)
	cases := c10Cases()
	lies := map[string]func([]types.Hash256) []types.Hash256{
		"swap-first-two": func(r []types.Hash256) []types.Hash256 { r[0], r[1] = r[1], r[0]; return r },
		"drop-last":      func(r []types.Hash256) []types.Hash256 { return r[:len(r)-1] },
		"replace-first":  func(r []types.Hash256) []types.Hash256 { r[0] = rhpx.Root(77); return r },
		"extra-root":     func(r []types.Hash256) []types.Hash256 { return append(r, rhpx.Root(78)) },
	}
	n := 0
	for lname, lie := range lies {
		for _, c := range cases {
			if c.alt == nil || c.name == "fund" || c.name == "replenish" {
				continue
			}
			w := c10World()
			inner := w.Con.Contractor
			w.Con.Contractor = &lyingContractor{Contractor: inner, lie: lie}
			v, err := c.run(w)
			w.T.WaitIdle()
			w.Close()
			n++
			if v != "" {
				run.Violate("c10:success-not-bound:"+c.name+":lying-roots", fmt.Sprintf("%s against a host whose contractor reports other roots (%s): %s", c.name, lname, v), map[string]any{"case": c.name, "lie": lname})
			} else if err == nil && lname != "" {
				// success with a correct result is only possible if the lie did not matter for this call
				run.Sample(map[string]any{"case": c.name, "lie": lname, "accepted": true})
			}
		}
	}
	for _, mode := range []string{"other-sector", "shifted-offset", "shorter", "longer", "data-from-other-proof-from-this"} {
		for _, c := range cases {
			if len(c.name) < 4 || (c.name[:4] != "read" && c.name != "verify") {
				continue
			}
			w := c10WorldLyingSectors(mode)
			v, err := c.run(w)
			w.T.WaitIdle()
			w.Close()
			n++
			if v != "" {
				run.Violate("c10:success-not-bound:"+c.name+":lying-sectors", fmt.Sprintf("%s against a host whose sector store serves %s: %s", c.name, mode, v), map[string]any{"case": c.name, "lie": mode})
			}
			if c.name == "verify" && err == nil && (mode == "other-sector" || mode == "shifted-offset" || mode == "data-from-other-proof-from-this") {
				run.Violate("c10:success-not-bound:verify:lying-sectors", fmt.Sprintf("RPCVerifySector reported success although the host served %s", mode), map[string]any{"lie": mode})
			}
		}
	}
	run.Add(int64(n), int64(n), int64(n), int64(n))
	run.Extra["lying_host_runs"] = n
}

// c10WorldLyingSectors builds a world whose server reads through a lying sector store.
func c10WorldLyingSectors(mode string) *rhpx.World {
	w := newWorldWithSectors(func(s rhp.Sectors) rhp.Sectors { return &lyingSectors{Sectors: s, mode: mode} })
	w.Plant(4, types.Siacoins(500), types.Siacoins(300))
	w.Sec.EphemeralSectorStore.StoreSector(realSectorRoot, &realSector, nil, 1000)
	w.Sec.EphemeralSectorStore.StoreSector(otherSectorRoot, &otherSector, nil, 1000)
	w.Con.CreditAccountsWithContract([]proto4.AccountDeposit{{Account: acc(rhpx.Key("c10-account")), Amount: types.Siacoins(25)}}, w.Contract.ID, w.Contract.Revision, proto4.Usage{})
	w.Con.Take()
	return w
}
