package main

import (
	"bytes"
	"fmt"
	"os"
	"strings"
	"sync"
	"time"

	proto4 "go.sia.tech/core/rhp/v4"
	"go.sia.tech/core/types"
	rhp "go.sia.tech/coreutils/rhp/v4"
	"verif/internal/rhpx"
)

// one shared real sector (read-only) and its root
var (
	realSector     [proto4.SectorSize]byte
	realSectorRoot types.Hash256
	realOnce       sync.Once
)

func initSector() {
	realOnce.Do(func() {
		for i := range realSector {
			realSector[i] = byte(i*131 + i>>9)
		}
		realSectorRoot = proto4.SectorRoot(&realSector)
	})
}

type c15World struct {
	w        *rhpx.World
	contract rhp.ContractRevision
	keys     map[string]types.PrivateKey // A, B accounts; P, Q pools
	acct     map[string]types.Currency   // model balances
	attached map[string][]string
	readCost func(n uint64) types.Currency
}

func acc(k types.PrivateKey) proto4.Account { return proto4.Account(k.PublicKey()) }

func newC15World(trusting bool) *c15World {
	initSector()
	w := newWorldWith(trusting)
	w.Plant(0, types.Siacoins(1000), types.Siacoins(10))
	w.Sec.EphemeralSectorStore.StoreSector(realSectorRoot, &realSector, nil, 1000)
	cw := &c15World{w: w, contract: w.Contract, keys: map[string]types.PrivateKey{}, acct: map[string]types.Currency{}, attached: map[string][]string{}}
	for _, n := range []string{"A", "B", "P", "Q", "S"} {
		cw.keys[n] = rhpx.Key("verif-c15-" + n)
		cw.acct[n] = types.ZeroCurrency
	}
	cw.readCost = func(n uint64) types.Currency { return w.Prices.RPCReadSectorCost(n).RenterCost() }
	return cw
}

type c15op struct {
	name string
	run  func(c *c15World) string // returns "" or "sig|description"
}

// drawable returns own balance plus attached pools (in attachment order).
func (c *c15World) drawable(a string) types.Currency {
	d := c.acct[a]
	for _, p := range c.attached[a] {
		d = d.Add(c.acct[p])
	}
	return d
}

func (c *c15World) debit(a string, cost types.Currency) {
	rem := cost
	take := func(n string) {
		t := c.acct[n]
		if t.Cmp(rem) > 0 {
			t = rem
		}
		c.acct[n] = c.acct[n].Sub(t)
		rem = rem.Sub(t)
	}
	take(a)
	for _, p := range c.attached[a] {
		take(p)
	}
}

// checkLedger compares the model with what the host reports and audits the recorded calls of the last op.
func (c *c15World) checkLedger(op string, before rhpx.Snapshot) string {
	w := c.w
	if err := w.T.WaitIdle(); err != nil {
		return "c15:handler-stuck|" + err.Error()
	}
	calls := w.Con.Take()
	sops := w.Sec.Take()
	// every credit is matched by a renter-signed revision moving the same total from renter to host
	for _, call := range calls {
		switch call.Name {
		case "CreditAccountsWithContract", "CreditPoolsWithContract":
			var total types.Currency
			for _, d := range call.Deposits {
				total = total.Add(d.Amount)
			}
			prev := before.Revision
			rev := *call.Revision
			if call.Err == nil {
				if !prev.RenterOutput.Value.Sub(rev.RenterOutput.Value).Equals(total) || !rev.HostOutput.Value.Sub(prev.HostOutput.Value).Equals(total) {
					return fmt.Sprintf("c15:credit-not-matched-by-revision|%s: %s credits %v but the committed revision moves %v from the renter and %v to the host", op, call.Name, total, prev.RenterOutput.Value.Sub(rev.RenterOutput.Value), rev.HostOutput.Value.Sub(prev.HostOutput.Value))
				}
				h := w.CS.ContractSigHash(rev)
				if !w.RenterKey.PublicKey().VerifyHash(h, rev.RenterSignature) {
					return "c15:credit-without-renter-signature|" + op + ": credited accounts with a revision the renter did not sign"
				}
			}
		}
	}
	// debits: each successful debit is followed by the service; no service without a successful debit
	debits := 0
	for _, call := range calls {
		if call.Name == "DebitAccount" && call.Err == nil {
			debits++
		}
	}
	served := 0
	for _, s := range sops {
		if (s.Name == "ReadSector" || s.Name == "StoreSector") && s.Err == nil {
			served++
		}
	}
	if served > debits {
		return fmt.Sprintf("c15:service-without-payment|%s: %d sector operations carried out but only %d successful debits", op, served, debits)
	}
	if debits > served {
		return fmt.Sprintf("c15:payment-without-service|%s: %d successful debits but only %d sector operations carried out (%v)", op, debits, served, sops)
	}
	// balances
	accts := []proto4.Account{acc(c.keys["A"]), acc(c.keys["B"])}
	pools := []proto4.Account{acc(c.keys["P"]), acc(c.keys["Q"]), acc(c.keys["S"])}
	snap := w.Snap(c.contract.ID, accts, pools)
	for _, n := range []string{"A", "B"} {
		if got := snap.Accounts[acc(c.keys[n])]; !got.Equals(c.acct[n]) {
			return fmt.Sprintf("c15:balance|%s: account %s holds %v, ledger model says %v", op, n, got, c.acct[n])
		}
		// the balance RPC must agree
		if got, err := rhp.RPCAccountBalance(ctx, w.T, acc(c.keys[n])); err != nil || !got.Equals(c.acct[n]) {
			return fmt.Sprintf("c15:balance-rpc|%s: RPCAccountBalance(%s) = %v, %v; model %v", op, n, got, err, c.acct[n])
		}
	}
	for _, n := range []string{"P", "Q", "S"} {
		if got := snap.Pools[acc(c.keys[n])]; !got.Equals(c.acct[n]) {
			return fmt.Sprintf("c15:balance|%s: pool %s holds %v, ledger model says %v", op, n, got, c.acct[n])
		}
	}
	w.T.WaitIdle()
	w.Con.Take()
	return ""
}

func c15Ops() []c15op { return c15OpsExt(false) }

// c15OpsExt(true) appends the operations on a third pool S that the pool-order scenarios use.
func c15OpsExt(poolOrder bool) []c15op {
	var ops []c15op
	fund := func(name string, mul, delta int) c15op {
		return c15op{fmt.Sprintf("fund(%s,%dR%+d)", name, mul, delta), func(c *c15World) string {
			amt := c.readCost(64).Mul64(uint64(mul))
			if delta < 0 {
				amt = amt.Sub(types.NewCurrency64(uint64(-delta)))
			} else {
				amt = amt.Add(types.NewCurrency64(uint64(delta)))
			}
			res, err := rhp.RPCFundAccounts(ctx, c.w.T, c.w.CS, c.w.RenterKey, c.contract, []proto4.AccountDeposit{{Account: acc(c.keys[name]), Amount: amt}})
			if err != nil {
				return "c15:fund-failed|" + err.Error()
			}
			c.contract.Revision = res.Revision
			c.acct[name] = c.acct[name].Add(amt)
			if !res.Balances[0].Balance.Equals(c.acct[name]) {
				return fmt.Sprintf("c15:fund-balance|RPCFundAccounts reports balance %v, model %v", res.Balances[0].Balance, c.acct[name])
			}
			return ""
		}}
	}
	for _, n := range []string{"A", "B"} {
		for _, d := range []int{-1, 0, 1} {
			ops = append(ops, fund(n, 1, d))
		}
	}
	ops = append(ops, fund("A", 3, 0))
	replenish := func(pool bool, names []string, mul int) c15op {
		kind := "replenishAccounts"
		if pool {
			kind = "replenishPools"
		}
		return c15op{fmt.Sprintf("%s(%v,%dR)", kind, names, mul), func(c *c15World) string {
			target := c.readCost(64).Mul64(uint64(mul))
			var as []proto4.Account
			for _, n := range names {
				as = append(as, acc(c.keys[n]))
			}
			var rev types.V2FileContract
			var deposits []proto4.AccountDeposit
			var err error
			if pool {
				var res rhp.RPCReplenishPoolsResult
				res, err = rhp.RPCReplenishPools(ctx, c.w.T, rhp.RPCReplenishPoolsParams{Pools: as, Target: target, Contract: c.contract}, c.w.CS, c.w.RenterKey)
				rev, deposits = res.Revision, res.Deposits
			} else {
				var res rhp.RPCReplenishAccountsResult
				res, err = rhp.RPCReplenishAccounts(ctx, c.w.T, rhp.RPCReplenishAccountsParams{Accounts: as, Target: target, Contract: c.contract}, c.w.CS, c.w.RenterKey)
				rev, deposits = res.Revision, res.Deposits
			}
			if err != nil {
				return "c15:replenish-failed|" + err.Error()
			}
			var total types.Currency
			for i, n := range names {
				want := types.ZeroCurrency
				if c.acct[n].Cmp(target) < 0 {
					want = target.Sub(c.acct[n])
				}
				if i >= len(deposits) || !deposits[i].Amount.Equals(want) {
					return fmt.Sprintf("c15:replenish-amount|%s: deposit for %s is %v, topping up to the target needs %v", kind, n, deposits, want)
				}
				c.acct[n] = c.acct[n].Add(want)
				total = total.Add(want)
			}
			if !total.IsZero() {
				c.contract.Revision = rev
			}
			return ""
		}}
	}
	ops = append(ops, replenish(false, []string{"A", "B"}, 1), replenish(false, []string{"A"}, 2), replenish(true, []string{"P"}, 1), replenish(true, []string{"P", "Q"}, 2),
		// the same account / pool listed twice in one request
		replenish(false, []string{"A", "A"}, 2), replenish(true, []string{"P", "P"}, 1))
	attach := func(a, p, signer string, expired bool) c15op {
		return c15op{fmt.Sprintf("attach(%s<-%s,signedBy=%s,expired=%v)", a, p, signer, expired), func(c *c15World) string {
			at := proto4.PoolAttachment{Account: acc(c.keys[a]), Pool: acc(c.keys[p]), ValidUntil: time.Now().Add(time.Hour)}
			if expired {
				at.ValidUntil = time.Now().Add(-time.Hour)
			}
			at.Signature = c.keys[signer].SignHash(at.SigHash(c.w.HostKey.PublicKey()))
			req := proto4.RPCAttachPoolsRequest{Attachments: []proto4.PoolAttachment{at}}
			var resp proto4.RPCAttachPoolsResponse
			err := callRoundtrip(c.w, proto4.RPCAttachPoolsID, &req, &resp)
			valid := signer == p && !expired
			poolExists := !c.acct[p].IsZero() || c.everCredited(p)
			switch {
			case err == nil && !valid:
				return fmt.Sprintf("c15:attach-without-valid-signature|attachment of %s to %s signed by %s (expired=%v) was accepted", p, a, signer, expired)
			case err != nil && valid && poolExists:
				return "c15:valid-attach-rejected|" + err.Error()
			case err == nil:
				already := false
				for _, x := range c.attached[a] {
					already = already || x == p
				}
				if !already {
					c.attached[a] = append(c.attached[a], p)
				}
			}
			return ""
		}}
	}
	ops = append(ops, attach("A", "P", "P", false), attach("A", "Q", "Q", false), attach("B", "P", "P", false), attach("A", "P", "A", false), attach("A", "Q", "Q", true))
	detach := func(a, p, signer string) c15op {
		return c15op{fmt.Sprintf("detach(%s,%s,signedBy=%s)", a, p, signer), func(c *c15World) string {
			d := proto4.PoolDetachment{Account: acc(c.keys[a]), Pool: acc(c.keys[p]), ValidUntil: time.Now().Add(time.Hour)}
			d.Signature = c.keys[signer].SignHash(d.SigHash(c.w.HostKey.PublicKey()))
			req := proto4.RPCDetachPoolsRequest{Detachments: []proto4.PoolDetachment{d}}
			var resp proto4.RPCDetachPoolsResponse
			err := callRoundtrip(c.w, proto4.RPCDetachPoolsID, &req, &resp)
			valid := signer == a || signer == p
			if err == nil && !valid {
				return fmt.Sprintf("c15:detach-without-valid-signature|detachment of %s from %s signed by %s was accepted", p, a, signer)
			}
			if err != nil && valid {
				return "c15:valid-detach-rejected|" + err.Error()
			}
			if err == nil {
				var rest []string
				for _, x := range c.attached[a] {
					if x != p {
						rest = append(rest, x)
					}
				}
				c.attached[a] = rest
			}
			return ""
		}}
	}
	ops = append(ops, detach("A", "P", "A"), detach("A", "P", "P"), detach("A", "P", "B"))
	read := func(a string, off, n uint64) c15op {
		return c15op{fmt.Sprintf("read(%s,%d,%d)", a, off, n), func(c *c15World) string {
			token := proto4.NewAccountToken(c.keys[a], c.w.HostKey.PublicKey())
			var buf bytes.Buffer
			_, err := rhp.RPCReadSector(ctx, c.w.T, c.w.Prices, token, &buf, realSectorRoot, off, n)
			cost := c.readCost(n)
			if strings.Contains(fmt.Sprint(err), "invalid request") {
				return "" // rejected by the client before anything was sent
			}
			enough := c.drawable(a).Cmp(cost) >= 0
			switch {
			case err == nil && !enough:
				return fmt.Sprintf("c15:served-without-funds|read of %d bytes delivered although drawable funds %v < cost %v", n, c.drawable(a), cost)
			case err == nil:
				if !bytes.Equal(buf.Bytes(), realSector[off:off+n]) {
					return "c15:wrong-data|read returned bytes that differ from the stored sector"
				}
				c.debit(a, cost)
			case enough:
				// refused although funds suffice: nothing may have been debited (checked by the ledger comparison)
				if buf.Len() != 0 {
					return "c15:data-on-failed-read|bytes were delivered by a read that failed"
				}
			}
			return ""
		}}
	}
	for _, off := range []uint64{0, 32, 64} {
		for _, n := range []uint64{32, 64, 128} {
			ops = append(ops, read("A", off, n))
		}
	}
	ops = append(ops, read("B", 0, 64))
	ops = append(ops, c15op{"write(A,64)", func(c *c15World) string {
		token := proto4.NewAccountToken(c.keys["A"], c.w.HostKey.PublicKey())
		data := bytes.Repeat([]byte{7}, 64)
		res, err := rhp.RPCWriteSector(ctx, c.w.T, c.w.Prices, token, bytes.NewReader(data), 64)
		cost := c.w.Prices.RPCWriteSectorCost(64).RenterCost()
		enough := c.drawable("A").Cmp(cost) >= 0
		if err == nil && !enough {
			return "c15:served-without-funds|write accepted although drawable funds are insufficient"
		}
		if err == nil {
			c.debit("A", cost)
			if ok, _ := c.w.Sec.HasSector(res.Root); !ok {
				return "c15:write-not-stored|write reported success but the sector is not stored"
			}
		} else if enough {
			return "c15:write-failed|" + err.Error()
		}
		return ""
	}})
	ops = append(ops, c15op{"verify(A)", func(c *c15World) string {
		token := proto4.NewAccountToken(c.keys["A"], c.w.HostKey.PublicKey())
		_, err := rhp.RPCVerifySector(ctx, c.w.T, c.w.Prices, token, realSectorRoot)
		cost := c.w.Prices.RPCVerifySectorCost().RenterCost()
		enough := c.drawable("A").Cmp(cost) >= 0
		if err == nil && !enough {
			return "c15:served-without-funds|verify served although drawable funds are insufficient"
		}
		if err == nil {
			c.debit("A", cost)
		} else if enough {
			return "c15:verify-failed|" + err.Error()
		}
		return ""
	}})
	if poolOrder {
		ops = append(ops, replenish(true, []string{"P", "Q", "S"}, 1), attach("A", "S", "S", false), detach("A", "Q", "A"), detach("A", "S", "S"))
	}
	return ops
}

// c15PoolOrder: attachment order is what decides which pool pays. Three pools holding exactly one read each
// are attached to an empty account in every order; then every sequence of detach / re-attach / read
// operations of the given length is run and the individual pool balances are compared with the model after
// every step (a pool that is detached and attached again moves to the end of the order).
func c15PoolOrder() int {
	all := c15OpsExt(true)
	byName := map[string]c15op{}
	for _, o := range all {
		byName[o.name] = o
	}
	get := func(n string) c15op {
		o, ok := byName[n]
		if !ok {
			panic("c15: no op " + n)
		}
		return o
	}
	setup := get("replenishPools([P Q S],1R)")
	att := map[string]c15op{"P": get("attach(A<-P,signedBy=P,expired=false)"), "Q": get("attach(A<-Q,signedBy=Q,expired=false)"), "S": get("attach(A<-S,signedBy=S,expired=false)")}
	free := []c15op{get("detach(A,P,signedBy=A)"), get("detach(A,Q,signedBy=A)"), get("detach(A,S,signedBy=S)"), get("read(A,0,64)"), att["P"], att["Q"]}
	n := 3
	if run.Thorough() {
		n = 4
	}
	var seqs [][]c15op
	for _, perm := range [][]string{{"P", "Q", "S"}, {"P", "S", "Q"}, {"Q", "P", "S"}, {"Q", "S", "P"}, {"S", "P", "Q"}, {"S", "Q", "P"}} {
		prefix := []c15op{setup, att[perm[0]], att[perm[1]], att[perm[2]]}
		var rec func(seq []c15op)
		rec = func(seq []c15op) {
			if len(seq) == len(prefix)+n {
				seqs = append(seqs, append([]c15op(nil), seq...))
				return
			}
			for _, o := range free {
				rec(append(seq, o))
			}
		}
		rec(prefix)
	}
	// second family: one pool holding exactly one small read, attached once; then every sequence over
	// {attach it again, detach it, read 64, read 128}: an attachment that is repeated must not count twice
	// (a 128-byte read costs more than the pool holds, less than twice that)
	{
		prefix := []c15op{get("replenishPools([P],1R)"), att["P"]}
		free2 := []c15op{att["P"], get("detach(A,P,signedBy=A)"), get("read(A,0,64)"), get("read(A,0,128)")}
		var rec func(seq []c15op)
		rec = func(seq []c15op) {
			if len(seq) == len(prefix)+n {
				seqs = append(seqs, append([]c15op(nil), seq...))
				return
			}
			for _, o := range free2 {
				rec(append(seq, o))
			}
		}
		rec(prefix)
	}
	parallel(2*len(seqs), func(i2 int) {
		i, trusting := i2/2, i2%2 == 1
		if run.Expired() {
			run.Cap("time budget: not all pool-order sequences run")
			return
		}
		var names []string
		if trusting {
			names = append(names, "[trusting contractor]")
		}
		viol := ""
		func() {
			defer func() {
				if r := recover(); r != nil {
					viol = fmt.Sprintf("c15:panic|%v", r)
				}
			}()
			c := newC15World(trusting)
			defer c.w.Close()
			for _, o := range seqs[i] {
				names = append(names, o.name)
				before := c.w.Snap(c.contract.ID, nil, nil)
				c.w.Con.Take()
				c.w.Sec.Take()
				if v := o.run(c); v != "" {
					viol = v
					return
				}
				if v := c.checkLedger(o.name, before); v != "" {
					viol = v
					return
				}
			}
			run.Distinct("pool-order", fmt.Sprint(c.acct, c.attached))
		}()
		run.Add(int64(len(names)), int64(len(names)), 1, int64(len(names)))
		if viol != "" {
			parts := strings.SplitN(viol, "|", 2)
			run.Violate(parts[0], fmt.Sprintf("ops %v: %s", names, parts[1]), map[string]any{"ops": names})
		}
	})
	return len(seqs)
}

// everCredited: pools auto-create on first credit; a pool with zero balance that was credited exists.
func (c *c15World) everCredited(p string) bool { return false }

func callRoundtrip(w *rhpx.World, id types.Specifier, req, resp proto4.Object) error {
	s, err := w.T.DialStream(ctx)
	if err != nil {
		return err
	}
	defer s.Close()
	if err := proto4.WriteRequest(s, id, req); err != nil {
		return err
	}
	return proto4.ReadResponse(s, resp)
}

func c15() {
	ops := c15Ops()
	seqLen := 2
	if run.Thorough() {
		seqLen = 3
	}
	if os.Getenv("VERIF_C15_LEN") != "" {
		fmt.Sscan(os.Getenv("VERIF_C15_LEN"), &seqLen)
	}
	// every sequence: a funding prefix (so that balances sit at R-1 / R / R+1 / 3R) followed by seqLen free ops
	var seqs [][]int
	var rec func(prefix []int)
	rec = func(prefix []int) {
		if len(prefix) == seqLen+1 {
			seqs = append(seqs, append([]int(nil), prefix...))
			return
		}
		for i := range ops {
			if len(prefix) == 0 && !strings.HasPrefix(ops[i].name, "fund(A") && !strings.HasPrefix(ops[i].name, "replenishPools") {
				continue
			}
			rec(append(prefix, i))
		}
	}
	rec(nil)
	var mu sync.Mutex
	outcomes := map[string]bool{}
	parallel(2*len(seqs), func(i2 int) {
		i, trusting := i2/2, i2%2 == 1
		if run.Expired() {
			run.Cap("time budget: not all sequences run")
			return
		}
		var names []string
		if trusting {
			names = append(names, "[trusting contractor]")
		}
		viol := ""
		func() {
			defer func() {
				if r := recover(); r != nil {
					viol = fmt.Sprintf("c15:panic|%v", r)
				}
			}()
			c := newC15World(trusting)
			defer c.w.Close()
			for _, oi := range seqs[i] {
				names = append(names, ops[oi].name)
				before := c.w.Snap(c.contract.ID, nil, nil)
				c.w.Con.Take()
				c.w.Sec.Take()
				if v := ops[oi].run(c); v != "" {
					viol = v
					return
				}
				if v := c.checkLedger(ops[oi].name, before); v != "" {
					viol = v
					return
				}
			}
			mu.Lock()
			outcomes[fmt.Sprint(c.acct, c.attached)] = true
			mu.Unlock()
		}()
		run.Add(int64(len(names)), int64(len(names)), 1, int64(len(names)))
		if i%1999 == 0 {
			run.Sample(names)
		}
		if viol != "" {
			parts := strings.SplitN(viol, "|", 2)
			run.Violate(parts[0], fmt.Sprintf("ops %v: %s", names, parts[1]), map[string]any{"ops": names})
		}
	})
	run.Extra["pool_order_sequences"] = c15PoolOrder()
	run.DistinctN = int64(len(outcomes))
	run.Extra["sequences"] = len(seqs)
	run.Extra["alphabet"] = len(ops)
	run.Rule = fmt.Sprintf("every sequence of one funding step (fund A with R-1/R/R+1/3R where R is the price of a 64-byte read, or a pool replenish) followed by %d operations from a %d-entry alphabet: fund A/B at R-1,R,R+1, replenish accounts/pools to R or 2R, attach pool (valid, wrong signer, expired), detach (account key, pool key, wrong key), read for offsets {0,32,64} x lengths {32,64,128}, write, verify; against the real server with one real 4 MiB sector; plus pool-order scenarios: three pools holding one read each attached to an empty account in each of the 6 orders, followed by every sequence of 3 (thorough: 4) operations over {detach P, detach Q, detach S, read, attach P, attach Q}; distinct = distinct final (balances, attachments) ledgers", seqLen, len(ops))
	run.Explanation = "After every operation the double-entry ledger is rebuilt from the recorded Contractor/Sectors calls: every credit equals the renter->host transfer of the renter-signed revision committed in the same call; every successful debit is followed by exactly one sector read/store and vice versa; model balances (own balance first, then attached pools in attachment order) equal the host's and the RPCAccountBalance answers; insufficient drawable funds deliver no data and debit nothing; replenish tops up exactly to the target; attach/detach only with a valid signature by an allowed, unexpired key."
	run.Assumptions = []string{"go.sia.tech/core price arithmetic and request validation are trusted", "balances are probed at R-1/R/R+1 of the 64-byte read price; other prices follow the same code path"}
}
