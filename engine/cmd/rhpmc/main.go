// rhpmc decides the RHP4 properties (C08, C09, C10, C15, C16) by exhaustive enumeration of RPC
// sequences, request corruptions, abort points and response corruptions against the real server
// (through Serve over in-memory pipes) and the real client functions.
package main

import (
	"flag"
	"fmt"
	"os"
	"time"

	"verif/internal/ev"
)

var run *ev.Run

func main() {
	prop := flag.String("prop", "", "property id")
	tier := flag.String("tier", "", "quick|thorough")
	replay := flag.String("replay", "", "replay file: report only the violation it records")
	flag.Parse()
	checks := map[string]func(){"C09": c09, "C15": c15, "C08": c08, "C10": c10, "C16": c16}
	levels := map[string]string{"C08": "model_checking", "C09": "fault_enumeration", "C10": "fault_enumeration", "C15": "model_checking", "C16": "fault_enumeration"}
	fn, ok := checks[*prop]
	if !ok {
		fmt.Fprintln(os.Stderr, "unknown property", *prop)
		os.Exit(2)
	}
	run = ev.New(*prop, *tier, levels[*prop])
	run.SetBudget(5 * time.Minute)
	if run.Thorough() {
		run.SetBudget(25 * time.Minute)
	}
	if *replay != "" {
		run.SetReplay(*replay)
	}
	fn()
	run.Finish()
}
