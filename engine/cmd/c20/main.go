// c20 decides property C20 (seed phrases and derived keys round-trip exactly) by exhaustive
// enumeration of structured families of entropies and phrases against an independent
// big-integer BIP-39 reference.
package main

import (
	"bytes"
	"crypto/ed25519"
	"crypto/sha256"
	"encoding/binary"
	"encoding/hex"
	"flag"
	"fmt"
	"math/big"
	"strings"

	"go.sia.tech/core/types"
	"go.sia.tech/coreutils/wallet"
	"golang.org/x/crypto/blake2b"
	"verif/internal/ev"
)

const wordListSHA256 = "2f5eed53a4727b4bf8880d8f3f199efc90e58503646d9ff8eff3a2ed3b24dbda" // BIP-39 english.txt

var (
	words []string
	index map[string]int
)

// refEncode: entropy(128) || first 4 bits of SHA-256(entropy) -> twelve 11-bit groups, MSB first.
func refEncode(e [16]byte) string {
	h := sha256.Sum256(e[:])
	n := new(big.Int).SetBytes(e[:])
	n.Lsh(n, 4)
	n.Or(n, big.NewInt(int64(h[0]>>4)))
	out := make([]string, 12)
	mask := big.NewInt(2047)
	for i := 11; i >= 0; i-- {
		out[i] = words[new(big.Int).And(n, mask).Int64()]
		n.Rsh(n, 11)
	}
	return strings.Join(out, " ")
}

// refDecode returns entropy and whether the phrase (12 known words) has a valid checksum.
func refDecode(ws []string) (e [16]byte, ok bool) {
	n := new(big.Int)
	for _, w := range ws {
		n.Lsh(n, 11)
		n.Or(n, big.NewInt(int64(index[w])))
	}
	cs := new(big.Int).And(n, big.NewInt(15)).Int64()
	n.Rsh(n, 4)
	n.FillBytes(e[:])
	h := sha256.Sum256(e[:])
	return e, int64(h[0]>>4) == cs
}

func refKey(seed [32]byte, idx uint64) types.PrivateKey {
	buf := make([]byte, 40)
	copy(buf, seed[:])
	binary.LittleEndian.PutUint64(buf[32:], idx)
	h := blake2b.Sum256(buf)
	return types.PrivateKey(ed25519.NewKeyFromSeed(h[:]))
}

var r *ev.Run

func checkEntropy(e [16]byte, family string) {
	r.Add(0, 0, 0, 1)
	want := refEncode(e)
	got := wallet.VerifEncodePhrase(&e)
	if got != want {
		r.Violate("c20:encode", fmt.Sprintf("encode(%x) = %q, reference %q", e, got, want), map[string]any{"family": family, "entropy": hex.EncodeToString(e[:])})
		return
	}
	var back [16]byte
	if err := wallet.VerifDecodePhrase(&back, got); err != nil || back != e {
		r.Violate("c20:roundtrip", fmt.Sprintf("decode(encode(%x)) = %x, err %v", e, back, err), map[string]any{"family": family, "entropy": hex.EncodeToString(e[:])})
		return
	}
	var seed [32]byte
	if err := wallet.SeedFromPhrase(&seed, got); err != nil {
		r.Violate("c20:seedfromphrase", fmt.Sprintf("SeedFromPhrase(encode(%x)) failed: %v", e, err), map[string]any{"family": family, "entropy": hex.EncodeToString(e[:])})
		return
	}
	if want := blake2b.Sum256(e[:]); seed != want {
		r.Violate("c20:seed-derivation", fmt.Sprintf("SeedFromPhrase(%q) = %x, want blake2b(entropy) %x", got, seed, want), map[string]any{"family": family, "entropy": hex.EncodeToString(e[:])})
	}
	r.Distinct(e[:])
}

// checkPhrase checks an arbitrary string: the reference says whether it must decode.
func checkPhrase(phrase string, family string) {
	r.Add(0, 0, 0, 1)
	fields := strings.Fields(phrase)
	wantOK := len(fields) == 12
	for _, w := range fields {
		if _, ok := index[w]; !ok {
			wantOK = false
		}
	}
	var wantE [16]byte
	if wantOK {
		wantE, wantOK = refDecode(fields)
	}
	var gotE [16]byte
	err := wallet.VerifDecodePhrase(&gotE, phrase)
	var seed [32]byte
	err2 := wallet.SeedFromPhrase(&seed, phrase)
	rep := map[string]any{"family": family, "phrase": phrase}
	switch {
	case (err == nil) != wantOK:
		r.Violate("c20:decode-iff-checksum", fmt.Sprintf("decode(%q): err=%v but reference valid=%v", phrase, err, wantOK), rep)
	case (err2 == nil) != wantOK:
		r.Violate("c20:seedfromphrase-iff-checksum", fmt.Sprintf("SeedFromPhrase(%q): err=%v but reference valid=%v", phrase, err2, wantOK), rep)
	case wantOK && gotE != wantE:
		r.Violate("c20:decode-value", fmt.Sprintf("decode(%q) = %x, reference %x", phrase, gotE, wantE), rep)
	case wantOK && wallet.VerifEncodePhrase(&gotE) != strings.Join(fields, " "):
		r.Violate("c20:reencode", fmt.Sprintf("encode(decode(%q)) = %q", phrase, wallet.VerifEncodePhrase(&gotE)), rep)
	case wantOK && seed != blake2b.Sum256(wantE[:]):
		r.Violate("c20:seed-derivation", fmt.Sprintf("SeedFromPhrase(%q) != blake2b(entropy)", phrase), rep)
	}
	r.Distinct(phrase)
}

func main() {
	tier := flag.String("tier", "", "quick|thorough")
	replay := flag.String("replay", "", "replay file: report only the violation it records")
	flag.Parse()
	r = ev.New("C20", *tier, "exploration")
	if *replay != "" {
		r.SetReplay(*replay)
	}
	words = wallet.VerifWordList()
	if sum := sha256.Sum256([]byte(strings.Join(words, "\n") + "\n")); hex.EncodeToString(sum[:]) != wordListSHA256 || len(words) != 2048 {
		r.Violate("c20:wordlist", fmt.Sprintf("word list is not BIP-39 english (sha256 %x, %d words)", sum, len(words)), nil)
		r.Finish()
	}
	index = make(map[string]int)
	for i, w := range words {
		index[w] = i
	}
	// published BIP-39 vectors anchor the reference itself
	for _, v := range [][2]string{
		{"00000000000000000000000000000000", "abandon abandon abandon abandon abandon abandon abandon abandon abandon abandon abandon about"},
		{"7f7f7f7f7f7f7f7f7f7f7f7f7f7f7f7f", "legal winner thank year wave sausage worth useful legal winner thank yellow"},
		{"80808080808080808080808080808080", "letter advice cage absurd amount doctor acoustic avoid letter advice cage above"},
		{"ffffffffffffffffffffffffffffffff", "zoo zoo zoo zoo zoo zoo zoo zoo zoo zoo zoo wrong"},
	} {
		var e [16]byte
		hex.Decode(e[:], []byte(v[0]))
		if refEncode(e) != v[1] {
			ev.HarnessError("reference encoder disagrees with published BIP-39 vector %s", v[0])
		}
	}

	bases := [][16]byte{{}, {}, {}, {}, {}, {}, {}, {}}
	for i := range bases[1] {
		bases[1][i] = 0xff
		bases[2][i] = 0xaa
		bases[3][i] = 0x55
		bases[4][i] = byte(i * 17)
		bases[5][i] = byte(255 - i*13)
		bases[6][i] = byte(1 << (i % 8))
		bases[7][i] = byte(0x80 >> (i % 8))
	}
	flip := func(e [16]byte, bit int) [16]byte { e[bit/8] ^= 0x80 >> (bit % 8); return e }
	// family 1: base XOR every mask with <= 2 set bits (thorough: 3 bits on two bases)
	for bi, b := range bases {
		checkEntropy(b, "base")
		for i := 0; i < 128; i++ {
			checkEntropy(flip(b, i), "1bit")
			for j := i + 1; j < 128; j++ {
				checkEntropy(flip(flip(b, i), j), "2bit")
				if r.Thorough() && bi < 2 {
					for k := j + 1; k < 128; k++ {
						checkEntropy(flip(flip(flip(b, i), j), k), "3bit")
					}
				}
			}
		}
	}
	// family 2: every 11-bit window (bit offset 0..117) set to every value 0..2047, on two bases
	for _, b := range bases[:2] {
		n0 := new(big.Int).SetBytes(b[:])
		for off := 0; off <= 117; off++ {
			for v := 0; v < 2048; v++ {
				n := new(big.Int).Set(n0)
				for k := 0; k < 11; k++ {
					n.SetBit(n, off+k, uint((v>>k)&1))
				}
				var e [16]byte
				n.FillBytes(e[:])
				checkEntropy(e, "window")
			}
		}
	}
	// family 3: for each base phrase, every word position x every word (valid checksum or not)
	for _, b := range bases {
		base := strings.Fields(refEncode(b))
		for pos := 0; pos < 12; pos++ {
			for _, w := range words {
				ws := append([]string(nil), base...)
				ws[pos] = w
				checkPhrase(strings.Join(ws, " "), "wordpos")
			}
		}
	}
	// family 4: whitespace variants and malformed phrases
	for _, b := range bases[:4] {
		base := strings.Fields(refEncode(b))
		canon := strings.Join(base, " ")
		var e0 [16]byte
		wallet.VerifDecodePhrase(&e0, canon)
		for gap := 0; gap <= 12; gap++ {
			for _, sep := range []string{"  ", "\t", "\n", " \t \n ", "\r\n"} {
				var sb strings.Builder
				for i, w := range base {
					if i == gap {
						sb.WriteString(sep)
					} else if i > 0 {
						sb.WriteString(" ")
					}
					sb.WriteString(w)
				}
				if gap == 12 {
					sb.WriteString(sep)
				}
				checkPhrase(sb.String(), "whitespace")
				var s1, s2 [32]byte
				err1 := wallet.SeedFromPhrase(&s1, sb.String())
				err2 := wallet.SeedFromPhrase(&s2, canon)
				if err1 != nil || err2 != nil || s1 != s2 {
					r.Violate("c20:whitespace", fmt.Sprintf("whitespace variant %q derives a different seed (err %v/%v)", sb.String(), err1, err2), map[string]any{"phrase": sb.String()})
				}
			}
		}
		for _, bad := range []string{"", " ", strings.Join(base[:11], " "), canon + " " + base[0], strings.Replace(canon, base[3], "notaword", 1),
			strings.ToUpper(canon), strings.Replace(canon, " ", ",", 1), canon + "\x00", strings.Join(base[:11], " ") + " " + base[11] + "x"} {
			checkPhrase(bad, "malformed")
		}
	}
	// family 4b: a non-word at every position, in phrases that are valid when that position holds word 0
	// (index 0 is what a failed map lookup yields), word 2047 and a middle word
	for _, target := range []int{0, 2047, 1024} {
		for pos := 0; pos < 12; pos++ {
			ws := make([]string, 12)
			for i := range ws {
				ws[i] = words[(i*173+pos*31+7)%2048]
			}
			ws[pos] = words[target]
			vary := 11
			if pos == 11 {
				vary = 10
			}
			found := false
			for k := 0; k < 2048 && !found; k++ {
				ws[vary] = words[k]
				if _, ok := refDecode(ws); ok {
					found = true
				}
			}
			if !found {
				ev.HarnessError("c20: no valid phrase with word %d at position %d", target, pos)
			}
			checkPhrase(strings.Join(ws, " "), "nonword-base")
			for _, junk := range []string{"zzzzzz", strings.ToUpper(words[target][:1]) + words[target][1:], words[target][:len(words[target])-1], words[target] + "x", "0", "\u00e9"} {
				if _, isWord := index[junk]; isWord {
					continue
				}
				bad := append([]string(nil), ws...)
				bad[pos] = junk
				checkPhrase(strings.Join(bad, " "), "nonword")
			}
		}
	}
	// family 5: keys — independent derivation, determinism, distinctness across indices
	for _, b := range bases {
		var seed [32]byte
		if err := wallet.SeedFromPhrase(&seed, refEncode(b)); err != nil {
			continue // already reported above
		}
		seen := map[string]uint64{}
		for _, idx := range []uint64{0, 1, 2, 255, 256, 1 << 32, 1<<32 + 1, 1<<63 - 1, 1 << 63, ^uint64(0)} {
			r.Add(0, 0, 0, 1)
			k1 := wallet.KeyFromSeed(&seed, idx)
			k2 := wallet.KeyFromSeed(&seed, idx)
			want := refKey(seed, idx)
			if !bytes.Equal(k1, k2) || !bytes.Equal(k1, want) {
				r.Violate("c20:key", fmt.Sprintf("KeyFromSeed(%x,%d) unstable or != blake2b/ed25519 reference", seed, idx), map[string]any{"index": idx})
			}
			a1 := types.StandardUnlockHash(k1.PublicKey())
			if a1 != types.StandardUnlockHash(want.PublicKey()) {
				r.Violate("c20:address", fmt.Sprintf("address of KeyFromSeed(%x,%d) differs from reference", seed, idx), map[string]any{"index": idx})
			}
			if prev, dup := seen[string(k1)]; dup {
				r.Violate("c20:key-collision", fmt.Sprintf("indices %d and %d derive the same key", prev, idx), nil)
			}
			seen[string(k1)] = idx
			r.Distinct("key", seed[:], idx)
		}
	}
	// NewSeedPhrase must produce decodable phrases (frand-backed; 2000 draws, not a deciding step)
	for i := 0; i < 2000; i++ {
		checkPhrase(wallet.NewSeedPhrase(), "NewSeedPhrase")
	}
	r.Rule = "structured exhaustive families: 8 base entropies XOR all masks of <=2 bits (3 bits on two bases in thorough); every 11-bit window x 2048 values on two bases; for 8 base phrases every word position x all 2048 words; whitespace variants at every gap; malformed phrases; 10 key indices per base. distinct = distinct entropies/phrases/keys evaluated"
	r.Sample(map[string]any{"entropy": "aaaaaaaaaaaaaaaaaaaaaaaaaaaaaaaa", "phrase": refEncode(bases[2])})
	r.Sample(map[string]any{"family": "wordpos", "phrase": strings.Replace(refEncode(bases[1]), "zoo", "abandon", 1)})
	r.Explanation = "All families were enumerated completely (exhaustive within the families, which are a structured subset of the 2^128 / 2048^12 spaces). Reference = big.Int packing + SHA-256 checksum written from the BIP-39 text, anchored on 4 published vectors and the english.txt SHA-256."
	r.Assumptions = []string{"the full 2^128 entropy space is not enumerable; claim is exhaustive only within the listed families", "crypto/sha256, x/crypto/blake2b, crypto/ed25519 trusted"}
	r.States, r.Transitions = r.Evaluations, r.Evaluations
	r.Finish()
}
