// c17 decides property C17: all key-value backends behave identically, including before a flush.
package main

import (
	"flag"
	"fmt"
	"os"
	"runtime"
	"sync"
	"sync/atomic"
	"time"

	"verif/internal/ev"
	"verif/internal/kvx"
)

func main() {
	tier := flag.String("tier", "", "quick|thorough")
	replay := flag.String("replay", "", "replay file: report only the violation it records")
	flag.Parse()
	r := ev.New("C17", *tier, "model_checking")
	if *replay != "" {
		r.SetReplay(*replay)
	}
	r.SetBudget(8 * time.Minute)
	if r.Thorough() {
		r.SetBudget(30 * time.Minute)
	}
	base := os.Getenv("TMPDIR")
	if st, err := os.Stat("/dev/shm"); err == nil && st.IsDir() {
		base = "/dev/shm"
	}
	tmp, err := os.MkdirTemp(base, "verif-c17-")
	if err != nil {
		ev.HarnessError("mkdtemp: %v", err)
	}
	defer os.RemoveAll(tmp)

	memLen, boltLen := 5, 4
	if r.Thorough() {
		// (length 7 in memory was the bound before nil values and iterate-and-delete joined the alphabet; with 26
		// operations it no longer fits any budget and starved the backends that come later in the loop)
		memLen, boltLen = 6, 5
	}
	type bound struct {
		Backend string
		Len     int
		Seqs    int64
		Done    bool
	}
	var bounds []bound
	outcomes := map[string]struct{}{}
	var omu sync.Mutex
	for _, be := range kvx.Backends() {
		n := memLen
		if be.Reopen {
			n = boltLen
		}
		alpha := kvx.Alphabet(be.Reopen)
		var seqs, ops int64
		var incomplete atomic.Bool
		// iterate the length bound: all sequences of length 1..n (prefix-closed, shortest counterexample first)
		for l := 1; l <= n && r.NumViolations() == 0; l++ {
			// shard on the first op
			var wg sync.WaitGroup
			sem := make(chan struct{}, runtime.NumCPU())
			var prefixes [][]kvx.Op
			if l == 1 {
				for _, a := range alpha {
					prefixes = append(prefixes, []kvx.Op{a})
				}
			} else {
				for _, a := range alpha {
					for _, b := range alpha {
						prefixes = append(prefixes, []kvx.Op{a, b})
					}
				}
			}
			for wi, first := range prefixes {
				wg.Add(1)
				sem <- struct{}{}
				go func() {
					defer wg.Done()
					defer func() { <-sem }()
					dir := fmt.Sprintf("%s/w%d", tmp, wi)
					os.MkdirAll(dir, 0o755)
					local := map[string]struct{}{}
					kvx.Enumerate(alpha, first, l, func(seq []kvx.Op) bool {
						if r.Expired() {
							incomplete.Store(true)
							return false
						}
						atomic.AddInt64(&seqs, 1)
						atomic.AddInt64(&ops, int64(len(seq)))
						if mm := kvx.RunSeq(be, dir, seq); mm != nil {
							var names []string
							for _, o := range seq[:mm.Step+1] {
								names = append(names, o.String())
							}
							last := seq[mm.Step]
							sig := fmt.Sprintf("c17:%s:%s-after-%s", be.Name, mm.Kind, last.Kind)
							r.Violate(sig, fmt.Sprintf("%s: after %v: %s mismatch: got %s want %s", be.Name, names, mm.Kind, mm.Got, mm.Want),
								map[string]any{"backend": be.Name, "ops": names, "got": mm.Got, "want": mm.Want})
							return r.NumViolations() < 12
						}
						if l == n {
							m := kvx.NewModel()
							for _, o := range seq {
								m.Apply(o)
							}
							local[m.Observe()] = struct{}{}
						}
						return true
					})
					omu.Lock()
					for k := range local {
						outcomes[k] = struct{}{}
					}
					omu.Unlock()
				}()
			}
			wg.Wait()
		}
		complete := !incomplete.Load()
		if !complete {
			r.Cap(fmt.Sprintf("%s: time budget hit before all sequences of length %d were run", be.Name, n))
		}
		r.Add(ops, ops, seqs, seqs)
		bounds = append(bounds, bound{be.Name, n, seqs, complete})
	}
	r.DistinctN = int64(len(outcomes))
	r.Extra["bounds"] = bounds
	r.Rule = "every applicable operation sequence of length 1..L over 2 buckets x 2 keys x 3 values (create, put, delete, flush, cancel; close+reopen for Bolt), executed on a fresh instance of each backend, all Bucket/Get/Iter observations compared with a two-map reference after every operation; distinct = distinct final reference states reached by length-L sequences"
	r.Sample([]string{"create(B1)", "put(B1,k1,\"a\")", "flush", "del(B1,k1)"})
	r.Sample([]string{"create(B1)", "put(B1,k2,\"\")", "cancel", "create(B1)"})
	r.Explanation = fmt.Sprintf("Explicit enumeration without state merging (hidden backend state such as the CacheDB overlay is exactly what could differ). Length bound L=%d for in-memory backends, L=%d for Bolt-backed ones.", memLen, boltLen)
	r.Assumptions = []string{"nil-valued puts are outside the alphabet; Get results are compared as byte strings (nil == empty)", "bbolt's atomic commit trusted (NoSync files on tmpfs)", "the chain-level clause (same chain store behaviour on every backend) is exercised by the C02/C03 backend replays, not here"}
	r.Finish()
}
