package main

import (
	"fmt"
	"os"
	"strings"
	"sync"
	"time"

	"go.sia.tech/core/consensus"
	"go.sia.tech/core/gateway"
	"go.sia.tech/core/types"

	"verif/internal/univ"
)

// syncUniverse builds the fork tree for the convergence scenarios (RegimeS: v2 allowed from 2, required
// from 8, final cut 10): a trunk of trunkLen blocks and, for each (forkHeight, length), a side branch.
// Returns the universe and named tips.
func syncUniverse(name string, trunkLen int, branches [][2]int) (*univ.Universe, map[string]int) {
	return syncUniverseIn(univ.RegimeS, name, trunkLen, branches)
}

func syncUniverseIn(reg univ.Regime, name string, trunkLen int, branches [][2]int) (*univ.Universe, map[string]int) {
	u := univ.NewUniverse(name, reg)
	tips := map[string]int{"G": 0}
	trunk := []int{0}
	k := 0
	for h := 1; h <= trunkLen; h++ {
		k = u.Add(k, 0, nil, nil, fmt.Sprintf("T%d", h))
		if !u.Nodes[k].Valid {
			panic("trunk block invalid: " + u.Nodes[k].Err)
		}
		trunk = append(trunk, k)
	}
	tips[fmt.Sprintf("T%d", trunkLen)] = k
	for bi, br := range branches {
		f, n := br[0], br[1]
		k := trunk[f]
		for i := 1; i <= n; i++ {
			k = u.Add(k, 1+bi%3, nil, nil, fmt.Sprintf("B%d@%d+%d", bi, f, i))
			if !u.Nodes[k].Valid {
				panic("branch block invalid: " + u.Nodes[k].Err)
			}
		}
		tips[fmt.Sprintf("B@%d+%d", f, n)] = k
	}
	return u, tips
}

type c12cfg struct {
	U     string
	Tips  []string // per member
	Ckpt  []string // per member: "" or the name of a trunk height to bootstrap from
	Edges [][2]int // dial order: from -> to
	MaxIn int
	Send  uint64
}

func (c c12cfg) String() string {
	return fmt.Sprintf("universe %s tips %v checkpoints %v dials %v maxInbound %d maxSendBlocks %d", c.U, c.Tips, c.Ckpt, c.Edges, c.MaxIn, c.Send)
}

// best returns the member tip that is sufficiently heavier than every other distinct tip, or -1.
func best(u *univ.Universe, ks []int) int {
	for _, a := range ks {
		ok := true
		for _, b := range ks {
			if a != b && !heavier(u, a, b) {
				ok = false
			}
		}
		if ok {
			return a
		}
	}
	return -1
}

var convergeWait = 60 * time.Second

func runC12(u *univ.Universe, tips map[string]int, trunk func(h int) int, cfg c12cfg) (sig, what string) {
	var specs []memberSpec
	var ks []int
	for i, t := range cfg.Tips {
		sp := memberSpec{Tip: tips[t], MaxInbound: cfg.MaxIn, SendBlocks: cfg.Send}
		if i < len(cfg.Ckpt) && cfg.Ckpt[i] != "" {
			var h int
			fmt.Sscanf(cfg.Ckpt[i], "T%d", &h)
			sp.Checkpoint = trunk(h)
		}
		specs = append(specs, sp)
		ks = append(ks, sp.Tip)
	}
	want := best(u, ks)
	if want < 0 {
		return "skip", ""
	}
	c, err := newCluster(u, specs)
	if err != nil {
		return "harness:setup", err.Error()
	}
	defer func() {
		if hung := c.close(); len(hung) > 0 && (sig == "" || sig == "skip") {
			sig, what = "c12:member-cannot-be-shut-down", fmt.Sprintf("%v: %s", cfg, hung[0])
		}
	}()
	for _, e := range cfg.Edges {
		if err := c.connect(e[0], e[1]); err != nil {
			return "c12:connect-failed", fmt.Sprintf("%v: member %d cannot connect to member %d: %v", cfg, e[0], e[1], err)
		}
	}
	wait := convergeWait
	if cfg.Send > 0 && cfg.Send < 100 && wait > 10*time.Second {
		wait = 10 * time.Second // recorded finding: these cannot converge; no need to wait a minute
	}
	if !c.awaitTips(want, wait) {
		var got []string
		for _, m := range c.mem {
			k := u.ByID[m.cm.Tip().ID]
			got = append(got, fmt.Sprintf("%d:%s(h%d)", m.idx, u.Nodes[k].Label, m.cm.Tip().Height))
		}
		var bans []string
		for _, m := range c.mem {
			bans = append(bans, m.ps.Bans()...)
		}
		sig := "c12:no-convergence"
		// structural cause: a checkpoint-bootstrapped member is involved and no member's history sample (what
		// it offers a peer to find the common block) contains a block of another member's best chain
		ckpt, common := false, false
		for _, sp := range specs {
			ckpt = ckpt || sp.Checkpoint != 0
		}
		for _, a := range c.mem {
			hist, _ := a.cm.History()
			for _, b := range c.mem {
				if a == b {
					continue
				}
				for _, id := range hist {
					if id == (types.BlockID{}) {
						continue
					}
					if st, ok := b.cm.State(id); ok {
						if idx, ok := b.cm.BestIndex(st.Index.Height); ok && idx.ID == id {
							common = true
						}
					}
				}
			}
		}
		if ckpt && !common && len(bans) == 0 {
			sig = "c12:no-convergence:no-common-block-in-history-samples"
		}
		return sig, fmt.Sprintf("%v: after %v the members are on %v, the heaviest chain among them ends at %s (h%d); bans: %v", cfg, wait, got, u.Nodes[want].Label, u.Nodes[want].Height, bans)
	}
	for _, m := range c.mem {
		if v := m.audit(); v != "" {
			parts := strings.SplitN(v, "|", 2)
			return parts[0], fmt.Sprintf("%v: %s", cfg, parts[1])
		}
		if b := m.ps.Bans(); len(b) > 0 {
			return "c12:honest-peer-banned", fmt.Sprintf("%v: member %d banned an honest peer: %v", cfg, m.idx, b)
		}
	}
	return "", ""
}

// runC12Switch: the member syncs from a scripted *honest* peer whose best chain changes at a chosen moment
// of the exchange, exactly as a real node's does when it reorgs: from then on it serves its new best chain,
// and it announces the new tip (RelayV2Header) to the member. Moments: while the member waits for the
// headers answer, while it waits for the blocks answer, or after the sync has completed. The announcement
// is fully processed by the member (its handler has returned) before the pending answer is delivered, so
// the schedule is fixed by the driver.
func runC12Switch(u *univ.Universe, tips map[string]int, start, first, second, moment string) (sig, what string) {
	desc := fmt.Sprintf("member on %s syncing from a peer on %s that reorgs to %s %s", start, first, second, moment)
	if !heavier(u, tips[second], tips[first]) || !heavier(u, tips[first], tips[start]) {
		return "skip", ""
	}
	c, err := newCluster(u, []memberSpec{{Tip: tips[start]}})
	if err != nil {
		return "harness:setup", err.Error()
	}
	defer func() {
		if hung := c.close(); len(hung) > 0 && sig == "" {
			sig, what = "c12:member-cannot-be-shut-down", desc+": "+hung[0]
		}
	}()
	v := c.mem[0]
	b := newByz(u, tips[first], nil)
	defer b.close()
	var once sync.Once
	announce := func(b *byz) {
		once.Do(func() {
			b.setChain(tips[second])
			hdr := u.Nodes[tips[second]].Block.Header()
			b.call(&gateway.RPCRelayV2Header{Header: hdr}, 10*time.Second)
		})
	}
	switch moment {
	case "before-headers-answer":
		b.beforeWrite = func(b *byz, name string, nth int) {
			if name == "SendHeaders" {
				announce(b)
			}
		}
	case "before-blocks-answer":
		b.beforeWrite = func(b *byz, name string, nth int) {
			if name == "SendV2Blocks" {
				announce(b)
			}
		}
	}
	if err := b.dial(c.mn, "10.77.0.1", v.addr); err != nil {
		return "harness:dial", err.Error()
	}
	if moment == "after-sync" {
		if !c.awaitTips(tips[first], 60*time.Second) {
			return "c12:no-convergence", desc + ": the member did not even reach the peer's first chain within 60 s"
		}
		time.Sleep(50 * time.Millisecond) // let the member mark the peer synced (not observable from outside)
		announce(b)
	}
	if !c.awaitTips(tips[second], convergeWait) {
		k := u.ByID[v.cm.Tip().ID]
		return "c12:no-convergence:announcement-during-sync-lost", fmt.Sprintf("%s: after %v the member is on %s (h%d); the peer announced and serves %s; requests seen: %v", desc, convergeWait, u.Nodes[k].Label, v.cm.Tip().Height, second, b.requests())
	}
	if a := v.audit(); a != "" {
		parts := strings.SplitN(a, "|", 2)
		return parts[0], desc + ": " + parts[1]
	}
	if bans := v.ps.Bans(); len(bans) > 0 {
		return "c12:honest-peer-banned", fmt.Sprintf("%s: the member banned the honest peer: %v", desc, bans)
	}
	return "", ""
}

// runC12SideOutline: a member on `start` is connected to an honest peer on `side` (same work, so the member
// fetches and stores the peer's blocks as a side chain without adopting them). The peer then extends its chain
// by one block and relays the block outline, as a syncer does for a block it mined. The outline extends a block
// that is not the member's tip. The member must end on the peer's chain and must not ban the peer.
func runC12SideOutline(u *univ.Universe, tips map[string]int, start, side, next string) (sig, what string) {
	desc := fmt.Sprintf("[%s] member on %s, honest peer on %s extends it to %s and relays the outline", u.Regime, start, side, next)
	c, err := newCluster(u, []memberSpec{{Tip: tips[start]}})
	if err != nil {
		return "harness:setup", err.Error()
	}
	defer func() {
		if hung := c.close(); len(hung) > 0 && sig == "" {
			sig, what = "c12:member-cannot-be-shut-down", desc+": "+hung[0]
		}
	}()
	v := c.mem[0]
	b := newByz(u, tips[side], nil)
	defer b.close()
	if err := b.dial(c.mn, "10.77.0.1", v.addr); err != nil {
		return "harness:dial", err.Error()
	}
	// positive event: the member has fetched and stored the peer's tip
	sideID := u.Nodes[tips[side]].Block.ID()
	deadline := time.Now().Add(60 * time.Second)
	for {
		if _, ok := v.cm.Block(sideID); ok {
			break
		}
		if time.Now().After(deadline) {
			return "c12:side-chain-not-fetched", desc + ": the member did not fetch the peer's blocks within 60 s; requests seen: " + fmt.Sprint(b.requests())
		}
		time.Sleep(2 * time.Millisecond)
	}
	b.setChain(tips[next])
	blk := u.Nodes[tips[next]].Block
	if os.Getenv("VERIF_DEBUG") != "" {
		pcs, _ := v.cm.State(blk.ParentID)
		ol := gateway.OutlineBlock(blk, nil, nil)
		fmt.Println("DBG outline id from member's parent state:", ol.ID(pcs), "true id:", blk.ID(), "parent on path:", u.Nodes[u.ByID[blk.ParentID]].Label, "member tip:", v.cm.Tip())
	}
	b.call(&gateway.RPCRelayV2BlockOutline{Block: gateway.OutlineBlock(blk, nil, nil)}, 10*time.Second)
	converged := c.awaitTips(tips[next], convergeWait)
	if os.Getenv("VERIF_DEBUG") != "" {
		fmt.Println("DBG side-outline", desc, "converged:", converged, "bans:", v.ps.Bans(), "requests:", b.requests(), "target:", u.Nodes[tips[side]].L.State.PoWTarget())
	}
	if bans := v.ps.Bans(); len(bans) > 0 {
		return "c12:honest-peer-banned:outline-on-side-block", fmt.Sprintf("%s: the member banned the honest peer: %v", desc, bans)
	}
	if !converged {
		k := u.ByID[v.cm.Tip().ID]
		return "c12:no-convergence:outline-on-side-block", fmt.Sprintf("%s: after %v the member is on %s (h%d); requests seen: %v", desc, convergeWait, u.Nodes[k].Label, v.cm.Tip().Height, b.requests())
	}
	if a := v.audit(); a != "" {
		parts := strings.SplitN(a, "|", 2)
		return parts[0], desc + ": " + parts[1]
	}
	return "", ""
}

// runC12HonestCheckpoints: an honest node that knows a side chain (submitted the way its syncer stores fetched
// blocks) is asked for the checkpoint of every block it knows. Each answer must be one an honest requester
// accepts - the block with its true parent state (commitment matches, block valid) - or a refusal; an answer
// that fails the requester's validation gets the honest node banned by parallelSync.
func runC12HonestCheckpoints(u *univ.Universe, tips map[string]int, best, side string) (sig, what string) {
	desc := fmt.Sprintf("[%s] honest node on %s that also stores the side chain %s, asked for checkpoints", u.Regime, best, side)
	c, err := newCluster(u, []memberSpec{{Tip: tips[best]}})
	if err != nil {
		return "harness:setup", err.Error()
	}
	defer func() {
		if hung := c.close(); len(hung) > 0 && sig == "" {
			sig, what = "c12:member-cannot-be-shut-down", desc+": "+hung[0]
		}
	}()
	h := c.mem[0]
	h.cm.AddBlocks(u.Blocks(u.PathTo(tips[side]))) // not heavier: stored, not applied
	if h.cm.Tip().ID != u.Nodes[tips[best]].Block.ID() {
		return "skip", ""
	}
	b := newByz(u, 0, nil)
	defer b.close()
	if err := b.dial(c.mn, "10.77.0.2", h.addr); err != nil {
		return "harness:dial", err.Error()
	}
	for _, k := range append(u.PathTo(tips[best]), u.PathTo(tips[side])...) {
		nd := u.Nodes[k]
		if nd.Height < u.Net.HardforkV2.RequireHeight || nd.Block.V2 == nil {
			continue
		}
		req := &gateway.RPCSendCheckpoint{Index: types.ChainIndex{Height: nd.Height, ID: nd.Block.ID()}}
		if err := b.call(req, 10*time.Second); err != nil {
			continue // refused
		}
		run.Add(1, 1, 1, 1)
		st := req.State
		st.Network = u.Net
		bad := ""
		switch {
		case req.Block.ID() != nd.Block.ID() || len(req.Block.MinerPayouts) != 1 || req.Block.V2 == nil:
			bad = "another block"
		case req.Block.V2.Commitment != st.Commitment(req.Block.MinerPayouts[0].Address, req.Block.Transactions, req.Block.V2Transactions()):
			bad = "a state that does not match the block's commitment"
		default:
			if err := consensus.ValidateBlock(st, req.Block, consensus.V1BlockSupplement{}); err != nil {
				bad = "a state the block is not valid against: " + err.Error()
			}
		}
		if bad != "" {
			return "c12:honest-node-serves-invalid-checkpoint", fmt.Sprintf("%s: SendCheckpoint(%s, height %d) is answered with %s; an honest requester rejects this as an invalid checkpoint and bans the node", desc, nd.Label, nd.Height, bad)
		}
	}
	return "", ""
}

func c12() {
	type uni struct {
		u     *univ.Universe
		tips  map[string]int
		trunk []int
	}
	build := func(name string, trunkLen int, branches [][2]int) *uni {
		u, tips := syncUniverse(name, trunkLen, branches)
		x := &uni{u: u, tips: tips}
		k := tips[fmt.Sprintf("T%d", trunkLen)]
		x.trunk = append([]int{0}, u.PathTo(k)...)
		for h := 1; h < trunkLen; h++ {
			tips[fmt.Sprintf("T%d", h)] = x.trunk[h]
		}
		return x
	}
	// short universe: fork points before the v2 allow height, between allow and require, at and after the
	// require height (8) where sync switches to checkpoints; branches lighter and heavier than the trunk
	short := build("S", 16, [][2]int{{0, 3}, {0, 19}, {1, 4}, {4, 2}, {4, 15}, {7, 3}, {7, 12}, {8, 1}, {8, 11}, {9, 10}, {11, 2}, {11, 8}, {15, 3}})
	unis := map[string]*uni{"S": short}
	var cfgs []c12cfg
	shortTips := []string{"G", "T3", "T7", "T8", "T9", "T16", "B@0+3", "B@0+19", "B@1+4", "B@4+2", "B@4+15", "B@7+3", "B@7+12", "B@8+1", "B@8+11", "B@9+10", "B@11+2", "B@11+8", "B@15+3"}
	// two members: every ordered pair of distinct tips, both dial directions
	for _, a := range shortTips {
		for _, b := range shortTips {
			if a == b {
				continue
			}
			cfgs = append(cfgs, c12cfg{U: "S", Tips: []string{a, b}, Edges: [][2]int{{0, 1}}})
		}
	}
	// three members: a line (middle member given by position 1) and a triangle, every dial order and direction
	// pattern from a fixed menu, over a reduced tip set
	three := []string{"T7", "T16", "B@0+19", "B@4+15", "B@7+3", "B@8+11", "B@11+8"}
	if !run.Thorough() {
		three = []string{"T16", "B@0+19", "B@7+3", "B@8+11"}
	}
	topologies := [][][2]int{
		{{0, 1}, {1, 2}}, {{1, 2}, {0, 1}}, {{1, 0}, {2, 1}}, {{2, 1}, {1, 0}}, {{0, 1}, {2, 1}}, {{1, 0}, {1, 2}}, // lines through member 1
		{{0, 1}, {1, 2}, {2, 0}}, {{2, 0}, {1, 2}, {0, 1}}, // triangles
	}
	for _, a := range three {
		for _, b := range three {
			for _, c := range three {
				if a == b || b == c || a == c {
					continue
				}
				for _, t := range topologies {
					cfgs = append(cfgs, c12cfg{U: "S", Tips: []string{a, b, c}, Edges: t})
				}
			}
		}
	}
	// peer limits: a hub that accepts a single inbound peer; the others reach each other only through it
	for _, a := range three {
		for _, b := range three {
			if a != b {
				cfgs = append(cfgs, c12cfg{U: "S", Tips: []string{a, b, "T3"}, Edges: [][2]int{{0, 2}, {2, 1}}, MaxIn: 1})
			}
		}
	}
	// checkpoint-bootstrapped members (checkpoint on the trunk at or above the require height, below the fork)
	for _, ck := range []string{"T8", "T9", "T11"} {
		for _, other := range []string{"T16", "B@11+8", "B@15+3", "B@9+10", "B@8+11"} {
			for _, mine := range []string{ck, "T16", "B@11+2"} {
				var hc, hm int
				fmt.Sscanf(ck, "T%d", &hc)
				if strings.HasPrefix(other, "B@") {
					var f, n int
					fmt.Sscanf(other, "B@%d+%d", &f, &n)
					if f < hc {
						continue // the fork point lies below the checkpoint: the member cannot follow by construction
					}
				}
				if strings.HasPrefix(mine, "B@") {
					var f, n int
					fmt.Sscanf(mine, "B@%d+%d", &f, &n)
					if f < hc {
						continue
					}
				} else {
					fmt.Sscanf(mine, "T%d", &hm)
					if hm < hc {
						continue
					}
				}
				if mine == other {
					continue
				}
				cfgs = append(cfgs, c12cfg{U: "S", Tips: []string{mine, other}, Ckpt: []string{ck, ""}, Edges: [][2]int{{0, 1}}},
					c12cfg{U: "S", Tips: []string{mine, other}, Ckpt: []string{ck, ""}, Edges: [][2]int{{1, 0}}})
			}
		}
	}
	// a genesis-synced member and a checkpoint-bootstrapped member whose common fork point lies above the
	// checkpoint: forks of 5 blocks (inside the dense part of the history sample) and of 16 blocks
	{
		unis["K"] = build("K", 20, [][2]int{{20, 5}, {20, 16}, {20, 30}})
		for _, mine := range []string{"B@20+5", "B@20+16"} {
			cfgs = append(cfgs, c12cfg{U: "K", Tips: []string{mine, "B@20+30"}, Ckpt: []string{"", "T17"}, Edges: [][2]int{{0, 1}}},
				c12cfg{U: "K", Tips: []string{mine, "B@20+30"}, Ckpt: []string{"", "T17"}, Edges: [][2]int{{1, 0}}})
		}
	}
	// long universe: gaps across the 100-block request split and the history sample's exponential part
	if run.Thorough() || true {
		long := build("L", 215, [][2]int{{0, 5}, {95, 130}, {100, 120}, {101, 3}, {101, 125}, {150, 70}, {205, 12}, {214, 3}})
		unis["L"] = long
		longTips := []string{"G", "T50", "T99", "T100", "T101", "T115", "T215", "B@0+5", "B@95+130", "B@100+120", "B@101+3", "B@101+125", "B@150+70", "B@205+12", "B@214+3"}
		for _, a := range longTips {
			for _, b := range longTips {
				if a == b {
					continue
				}
				if !run.Thorough() && !(strings.HasPrefix(a, "B@") || strings.HasPrefix(b, "B@") || a == "G" || b == "G") {
					continue
				}
				cfgs = append(cfgs, c12cfg{U: "L", Tips: []string{a, b}, Edges: [][2]int{{0, 1}}})
			}
		}
		// serving fewer blocks per request than the client asks for
		for _, send := range []uint64{3, 99} {
			cfgs = append(cfgs, c12cfg{U: "L", Tips: []string{"T50", "T215"}, Edges: [][2]int{{0, 1}}, Send: send},
				c12cfg{U: "S", Tips: []string{"T3", "T16"}, Edges: [][2]int{{0, 1}}, Send: send})
		}
	}
	if f := os.Getenv("VERIF_C12_FILTER"); f != "" {
		convergeWait = 5 * time.Second
		if w := os.Getenv("VERIF_C12_WAIT"); w != "" {
			convergeWait, _ = time.ParseDuration(w)
		}
		var keep []c12cfg
		for _, c := range cfgs {
			if strings.Contains(c.String(), f) {
				keep = append(keep, c)
			}
		}
		cfgs = keep
	}
	// scripted honest peer that reorgs during the exchange
	type swJob struct{ start, first, second, moment string }
	var swJobs []swJob
	for _, start := range []string{"G", "T3", "T7", "T9", "B@7+3"} {
		for _, pair := range [][2]string{{"T16", "B@11+8"}, {"T16", "B@0+19"}, {"T16", "B@8+11"}, {"B@7+12", "B@4+15"}, {"T9", "T16"}, {"T15", "T16"}, {"T8", "T9"}} {
			for _, moment := range []string{"before-headers-answer", "before-blocks-answer", "after-sync"} {
				swJobs = append(swJobs, swJob{start, pair[0], pair[1], moment})
			}
		}
	}
	var mu sync.Mutex
	skipped, converged := 0, 0
	var wg sync.WaitGroup
	sem := make(chan struct{}, 64)
	for i, cfg := range cfgs {
		if run.Expired() {
			run.Cap("time budget: not all configurations run")
			break
		}
		wg.Add(1)
		sem <- struct{}{}
		go func() {
			defer wg.Done()
			defer func() { <-sem }()
			x := unis[cfg.U]
			sig, what := runC12(x.u, x.tips, func(h int) int { return x.trunk[h] }, cfg)
			if sig == "skip" {
				mu.Lock()
				skipped++
				mu.Unlock()
				return
			}
			if strings.HasPrefix(sig, "harness:") {
				run.Violate(sig, what, nil) // reported loudly; never silently ignored
				return
			}
			run.Add(int64(len(cfg.Tips)), int64(len(cfg.Edges)), 1, 1)
			run.Distinct(cfg.String())
			if sig != "" && os.Getenv("VERIF_C12_FILTER") != "" {
				fmt.Println("FAIL", sig, what)
			}
			if sig != "" {
				if cfg.Send > 0 && cfg.Send < 100 && sig == "c12:no-convergence" {
					// structural: the serving side caps SendV2Blocks below what parallelSync asks for
					sig = "c12:no-convergence:server-sends-fewer-blocks-than-requested"
				}
				run.Violate(sig, what, map[string]any{"config": cfg})
			} else {
				mu.Lock()
				converged++
				mu.Unlock()
			}
			if i%211 == 0 {
				run.Sample(cfg.String())
			}
		}()
	}
	for _, j := range swJobs {
		if os.Getenv("VERIF_C12_FILTER") != "" && !strings.Contains("switch "+j.moment, os.Getenv("VERIF_C12_FILTER")) {
			continue
		}
		wg.Add(1)
		sem <- struct{}{}
		go func() {
			defer wg.Done()
			defer func() { <-sem }()
			x := unis["S"]
			sig, what := runC12Switch(x.u, x.tips, j.start, j.first, j.second, j.moment)
			if sig == "skip" {
				return
			}
			if strings.HasPrefix(sig, "harness:") {
				run.Violate(sig, what, nil)
				return
			}
			run.Add(2, 1, 1, 1)
			run.Distinct("switch", j)
			if sig != "" {
				if os.Getenv("VERIF_C12_FILTER") != "" {
					fmt.Println("FAIL", sig, what)
				}
				run.Violate(sig+":"+j.moment, what, map[string]any{"switch": j})
			}
		}()
	}
	wg.Wait()
	// honest answers and relays that involve side chains (states the node never applied)
	if f := os.Getenv("VERIF_C12_FILTER"); f == "" || strings.Contains("side", f) {
		hu, ht := syncUniverseIn(univ.RegimeH, "H", 7, [][2]int{{5, 1}, {5, 2}, {5, 3}, {3, 3}, {3, 4}})
		for h := 1; h < 7; h++ {
			ht[fmt.Sprintf("T%d", h)] = hu.PathTo(ht["T7"])[h-1]
		}
		side := 0
		// "<tip>-1": the parent of a branch tip
		for _, name := range []string{"B@5+2", "B@5+3", "B@3+4"} {
			p := hu.PathTo(ht[name])
			ht[name+"-1"] = p[len(p)-2]
		}
		for _, sc := range [][3]string{{"T6", "B@5+2-1", "B@5+2"}, {"T7", "B@5+3-1", "B@5+3"}, {"T6", "B@3+4-1", "B@3+4"}} {
			// the peer's first chain has the same height as the member's (not adopted), its next one is heavier
			sig, what := runC12SideOutline(hu, ht, sc[0], sc[1], sc[2])
			run.Add(2, 1, 1, 1)
			run.Distinct("side-outline", sc)
			side++
			if sig != "" {
				run.Violate(sig, what, map[string]any{"scenario": sc})
			}
		}
		su := unis["S"]
		for _, sc := range [][2]string{{"T16", "B@8+1"}, {"T16", "B@9+10"}, {"B@0+19", "T16"}, {"B@4+15", "T16"}, {"T16", "B@11+2"}, {"B@8+11", "T16"}} {
			sig, what := runC12HonestCheckpoints(su.u, su.tips, sc[0], sc[1])
			if sig == "skip" {
				continue
			}
			run.Distinct("honest-checkpoints", sc)
			side++
			if sig != "" {
				run.Violate(sig, what, map[string]any{"scenario": sc})
			}
		}
		run.Extra["side_chain_scenarios"] = side
	}
	run.Extra["peer_reorg_during_sync_scenarios"] = len(swJobs)
	run.Extra["configurations"] = len(cfgs)
	run.Extra["skipped_no_unique_heaviest"] = skipped
	run.Extra["converged"] = converged
	run.Rule = "every configuration of the bounded menu: 2 members on every ordered pair of 19 fork-tree tips (forks before/between/after the v2 allow and require heights, lighter and heavier than the trunk) and of 15 tips of a 215-block tree (gaps across the 100-block request split and the exponential part of the history sample); 3 members on every ordered triple of a reduced tip set x 8 topologies/dial orders (lines, triangles); single-inbound hubs; checkpoint-bootstrapped members; reduced MaxSendBlocks. Each configuration runs real Syncers + Managers over an in-memory network until all tips equal the unique sufficiently-heavier tip (60 s bound), then audits every member. distinct = configurations run"
	run.Explanation = "The goroutine and message schedule inside one configuration is the Go runtime's (not enumerated); the enumeration is over fork shapes, assignments, topologies, dial orders and limits. Oracles: convergence to the heaviest valid tip, every announced tip valid and strictly heavier than the previous one (from Manager.OnReorg), final state equal to the independent ledger replay, full best-chain audit (C01) of every genesis-synced member, no honest peer banned."
	run.Assumptions = []string{"schedules inside a configuration are not controlled", "configurations without a unique sufficiently-heavier tip are skipped (nodes may legitimately stay apart)", "reference ledger from go.sia.tech/core/consensus"}
}
