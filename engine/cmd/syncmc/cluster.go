package main

import (
	"bytes"
	"context"
	"fmt"
	"os"
	"runtime/pprof"
	"strings"

	"go.uber.org/zap"
	"sync"
	"time"

	"go.sia.tech/core/gateway"
	"go.sia.tech/core/types"
	"go.sia.tech/coreutils/chain"
	"go.sia.tech/coreutils/syncer"

	"verif/internal/memnet"
	"verif/internal/node"
	"verif/internal/univ"
)

// peerStore records bans; nothing is ever banned from connecting here (a ban is an observation).
type peerStore struct {
	mu    sync.Mutex
	peers map[string]syncer.PeerInfo
	bans  []string
}

func newPeerStore() *peerStore { return &peerStore{peers: map[string]syncer.PeerInfo{}} }
func (ps *peerStore) AddPeer(a string) error {
	ps.mu.Lock()
	defer ps.mu.Unlock()
	if _, ok := ps.peers[a]; !ok {
		ps.peers[a] = syncer.PeerInfo{Address: a, FirstSeen: time.Now()}
	}
	return nil
}
func (ps *peerStore) Peers() ([]syncer.PeerInfo, error) {
	ps.mu.Lock()
	defer ps.mu.Unlock()
	var out []syncer.PeerInfo
	for _, p := range ps.peers {
		out = append(out, p)
	}
	return out, nil
}
func (ps *peerStore) PeerInfo(a string) (syncer.PeerInfo, error) {
	ps.mu.Lock()
	defer ps.mu.Unlock()
	p, ok := ps.peers[a]
	if !ok {
		return p, syncer.ErrPeerNotFound
	}
	return p, nil
}
func (ps *peerStore) UpdatePeerInfo(a string, fn func(*syncer.PeerInfo)) error {
	ps.mu.Lock()
	defer ps.mu.Unlock()
	p, ok := ps.peers[a]
	if !ok {
		return syncer.ErrPeerNotFound
	}
	fn(&p)
	ps.peers[a] = p
	return nil
}
func (ps *peerStore) Ban(a string, _ time.Duration, reason string) error {
	ps.mu.Lock()
	defer ps.mu.Unlock()
	ps.bans = append(ps.bans, a+": "+reason)
	return nil
}
func (ps *peerStore) Banned(string) (bool, error) { return false, nil }
func (ps *peerStore) Bans() []string {
	ps.mu.Lock()
	defer ps.mu.Unlock()
	return append([]string(nil), ps.bans...)
}

// member is one honest node of a cluster.
type member struct {
	idx     int
	u       *univ.Universe
	n       *node.Node // nil for checkpoint-bootstrapped members
	cm      *chain.Manager
	s       *syncer.Syncer
	ps      *peerStore
	addr    string
	runDone chan error
	mu      sync.Mutex
	tips    []types.ChainIndex // every tip the manager announced, in order
	startK  int
}

// heavier reports whether universe node a has strictly more total work than b.
func heavier(u *univ.Universe, a, b int) bool {
	return u.Nodes[a].L.State.SufficientlyHeavierThan(u.Nodes[b].L.State)
}

type cluster struct {
	u          *univ.Universe
	mn         *memnet.Net
	mem        []*member
	edges      [][2]int
	lastDial   map[[2]int]time.Time
	Reconnects int
}

type memberSpec struct {
	Tip        int // universe node the member starts on
	Checkpoint int // >0: bootstrapped from the checkpoint at this universe node (an ancestor of Tip)
	MaxInbound int // 0 = default
	SendBlocks uint64
	Extra      []syncer.Option
}

func newCluster(u *univ.Universe, specs []memberSpec) (*cluster, error) {
	c := &cluster{u: u, mn: memnet.New()}
	for i, sp := range specs {
		m := &member{idx: i, u: u, ps: newPeerStore(), addr: fmt.Sprintf("10.%d.0.1:9000", i+1), runDone: make(chan error, 1), startK: sp.Tip}
		path := u.PathTo(sp.Tip)
		if sp.Checkpoint > 0 {
			ck := u.Nodes[sp.Checkpoint]
			parent := u.Nodes[ck.Parent]
			store, tipState, err := chain.NewDBStoreAtCheckpoint(chain.NewMemDB(), parent.L.State, ck.Block, nil)
			if err != nil {
				return nil, fmt.Errorf("checkpoint bootstrap: %w", err)
			}
			m.cm = chain.NewManager(store, tipState)
			var rest []int
			for _, k := range path {
				if u.Nodes[k].Height > ck.Height {
					rest = append(rest, k)
				}
			}
			path = rest
		} else {
			m.n = node.New(u)
			m.cm = m.n.CM
		}
		if len(path) > 0 {
			if err := m.cm.AddBlocks(u.Blocks(path)); err != nil {
				return nil, fmt.Errorf("member %d setup: %w", i, err)
			}
		}
		m.cm.OnReorg(func(idx types.ChainIndex) {
			m.mu.Lock()
			m.tips = append(m.tips, idx)
			m.mu.Unlock()
		})
		opts := []syncer.Option{syncer.WithSyncInterval(15 * time.Millisecond), syncer.WithPeerDiscoveryInterval(time.Hour), syncer.WithMaxOutboundPeers(0),
			syncer.WithDialer(&memnet.Dialer{N: c.mn, FromIP: fmt.Sprintf("10.%d.0.1", i+1)})}
		if os.Getenv("VERIF_DEBUG") != "" {
			lg, _ := zap.NewDevelopment()
			opts = append(opts, syncer.WithLogger(lg.Named(fmt.Sprintf("m%d", i))))
		}
		if sp.MaxInbound > 0 {
			opts = append(opts, syncer.WithMaxInboundPeers(sp.MaxInbound))
		}
		if sp.SendBlocks > 0 {
			opts = append(opts, syncer.WithMaxSendBlocks(sp.SendBlocks))
		}
		opts = append(opts, sp.Extra...)
		m.s = syncer.New(c.mn.Listen(m.addr), m.cm, m.ps, gateway.Header{GenesisID: u.Genesis.ID(), UniqueID: gateway.GenerateUniqueID(), NetAddress: m.addr}, opts...)
		go func() { m.runDone <- m.s.Run() }()
		c.mem = append(c.mem, m)
	}
	return c, nil
}

func (c *cluster) connect(from, to int) error {
	ctx, cancel := context.WithTimeout(context.Background(), 20*time.Second)
	defer cancel()
	_, err := c.mem[from].s.Connect(ctx, c.mem[to].addr)
	if err == nil {
		c.edges = append(c.edges, [2]int{from, to})
	}
	return err
}

// maintain re-dials edges whose connection has gone away (what each node's peerLoop does for its outbound
// peers), at most once per 50 ms and edge.
func (c *cluster) maintain() {
	if c.lastDial == nil {
		c.lastDial = map[[2]int]time.Time{}
	}
	for _, e := range c.edges {
		linked := false
		for _, p := range c.mem[e[0]].s.Peers() {
			linked = linked || p.Addr() == c.mem[e[1]].addr
		}
		for _, p := range c.mem[e[1]].s.Peers() {
			linked = linked || p.Addr() == c.mem[e[0]].addr
		}
		if linked || time.Since(c.lastDial[e]) < 50*time.Millisecond {
			continue
		}
		c.lastDial[e] = time.Now()
		ctx, cancel := context.WithTimeout(context.Background(), 5*time.Second)
		if _, err := c.mem[e[0]].s.Connect(ctx, c.mem[e[1]].addr); err == nil {
			c.Reconnects++
		}
		cancel()
	}
}

// close shuts every member down. A member whose Close does not return within a minute (every connection of
// the in-memory network is closed by then, so nothing outside the member can be holding it) is reported.
func (c *cluster) close() (hung []string) {
	type res struct {
		idx  int
		done chan struct{}
	}
	var rs []res
	for _, m := range c.mem {
		r := res{m.idx, make(chan struct{})}
		go func() { m.s.Close(); close(r.done) }()
		rs = append(rs, r)
	}
	deadline := time.After(60 * time.Second)
	for _, r := range rs {
		select {
		case <-r.done:
		case <-deadline:
			var buf bytes.Buffer
			pprof.Lookup("goroutine").WriteTo(&buf, 1)
			dump := buf.String()
			if j := strings.Index(dump, "syncer.(*Syncer).parallelSync"); j >= 0 {
				lo, hi := max(0, j-700), min(len(dump), j+900)
				dump = dump[lo:hi]
			} else if j := strings.Index(dump, "syncer.(*Syncer).Close"); j >= 0 {
				lo, hi := max(0, j-700), min(len(dump), j+900)
				dump = dump[lo:hi]
			} else if len(dump) > 1500 {
				dump = dump[:1500]
			}
			hung = append(hung, fmt.Sprintf("member %d: Syncer.Close did not return within 60 s: %s", r.idx, dump))
			return hung
		}
	}
	for _, m := range c.mem {
		select {
		case <-m.runDone:
		case <-time.After(30 * time.Second):
			hung = append(hung, fmt.Sprintf("member %d: Run did not return within 30 s after Close", m.idx))
		}
	}
	return hung
}

// awaitTips waits until every member's tip is want (universe node) or the deadline passes.
func (c *cluster) awaitTips(want int, d time.Duration) bool {
	id := c.u.Nodes[want].Block.ID()
	deadline := time.Now().Add(d)
	for {
		all := true
		for _, m := range c.mem {
			if m.cm.Tip().ID != id {
				all = false
			}
		}
		if all {
			return true
		}
		if time.Now().After(deadline) {
			return false
		}
		c.maintain()
		time.Sleep(2 * time.Millisecond)
	}
}

// audit checks one member: every announced tip is a valid universe block heavier than the one before, the
// final state equals the independent replay, and (genesis-synced members) the full best-chain audit passes.
func (m *member) audit() string {
	u := m.u
	m.mu.Lock()
	tips := append([]types.ChainIndex(nil), m.tips...)
	m.mu.Unlock()
	prev := m.startK
	for _, t := range tips {
		k, ok := u.ByID[t.ID]
		if !ok {
			return fmt.Sprintf("c12:unknown-tip|member %d announced a tip %v that is not a block of the universe", m.idx, t)
		}
		if !u.Nodes[k].Valid {
			return fmt.Sprintf("c12:invalid-tip|member %d adopted invalid block %d (%s)", m.idx, k, u.Nodes[k].Err)
		}
		if !heavier(u, k, prev) {
			return fmt.Sprintf("c12:tip-work-lowered|member %d moved its tip from node %d to node %d which is not heavier", m.idx, prev, k)
		}
		prev = k
	}
	ts := m.cm.TipState()
	k, ok := u.ByID[ts.Index.ID]
	if !ok || !u.Nodes[k].Valid {
		return fmt.Sprintf("c12:invalid-tip|member %d ends on a tip %v that is not a valid universe block", m.idx, ts.Index)
	}
	if string(node.StateBytes(ts)) != string(node.StateBytes(u.Nodes[k].L.State)) {
		return fmt.Sprintf("c12:state-differs|member %d: TipState differs from the independent replay of node %d", m.idx, k)
	}
	if m.n != nil {
		if err := m.n.Audit(); err != nil {
			return fmt.Sprintf("c12:audit|member %d: %v", m.idx, err)
		}
	}
	return ""
}
