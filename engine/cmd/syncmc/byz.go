package main

import (
	"context"
	"fmt"
	"sync"
	"time"

	"go.sia.tech/core/consensus"
	"go.sia.tech/core/gateway"
	"go.sia.tech/core/types"

	"verif/internal/memnet"
	"verif/internal/univ"
)

// byz is a scripted peer. It speaks the gateway protocol by hand and answers from a "claimed chain": a
// path of a universe that may contain invalid or header-only blocks. A mutation can rewrite the n-th
// answer to one kind of request, or replace it by closing the stream or by silence.
type byz struct {
	u    *univ.Universe
	path []int // genesis .. claimed tip (universe node indices)
	pos  map[types.BlockID]int
	t    *gateway.Transport
	addr string
	mut  *mutation
	// onRequest, if set, runs before the n-th request of a kind is answered (the answer is computed
	// afterwards, from whatever chain the hook left in place)
	onRequest func(b *byz, name string, nth int)
	// beforeWrite, if set, runs after the n-th answer of a kind has been computed and before it is sent
	beforeWrite   func(b *byz, name string, nth int)
	mu            sync.Mutex
	counts        map[string]int
	last          time.Time // last request served
	seen          []string
	applied       bool // the mutation fired
	refuseHeaders int  // number of SendHeaders requests still to be refused (stream closed without an answer)
	servedInvalid bool // a block that is invalid on a valid parent was handed out
	closed        bool
}

// mutation rewrites one answer.
type mutation struct {
	Name string
	RPC  string // SendHeaders, SendV2Blocks, SendCheckpoint, SendTransactions
	Nth  int    // 0-based occurrence to corrupt (-1: every occurrence)
	// Apply edits the honest answer in place; returning "close" ends the stream without an answer,
	// "stall" leaves the stream open without an answer, "" sends the (edited) answer.
	Apply func(b *byz, obj gateway.Object) string
}

func newByz(u *univ.Universe, tip int, mut *mutation) *byz {
	b := &byz{u: u, mut: mut, counts: map[string]int{}, pos: map[types.BlockID]int{}}
	b.path = append([]int{0}, u.PathTo(tip)...)
	for i, k := range b.path {
		b.pos[u.Nodes[k].Block.ID()] = i
	}
	return b
}

// dial connects the scripted peer to a listener of mn and starts serving.
func (b *byz) dial(mn *memnet.Net, fromIP, to string) error {
	conn, err := mn.Dial(context.Background(), fromIP, to)
	if err != nil {
		return err
	}
	b.addr = fromIP + ":7777"
	conn.SetDeadline(time.Now().Add(10 * time.Second))
	t, err := gateway.Dial(conn, gateway.Header{GenesisID: b.u.Genesis.ID(), UniqueID: gateway.GenerateUniqueID(), NetAddress: b.addr})
	if err != nil {
		return err
	}
	conn.SetDeadline(time.Time{})
	b.t = t
	go b.serve()
	return nil
}

// setChain switches the claimed chain.
func (b *byz) setChain(tip int) {
	path := append([]int{0}, b.u.PathTo(tip)...)
	pos := map[types.BlockID]int{}
	for i, k := range path {
		pos[b.u.Nodes[k].Block.ID()] = i
	}
	b.mu.Lock()
	b.path, b.pos = path, pos
	b.mu.Unlock()
}

func (b *byz) close() {
	b.mu.Lock()
	b.closed = true
	b.mu.Unlock()
	if b.t != nil {
		b.t.Close()
	}
}

func (b *byz) idleFor() time.Duration {
	b.mu.Lock()
	defer b.mu.Unlock()
	if b.last.IsZero() {
		return 0
	}
	return time.Since(b.last)
}

func (b *byz) requests() []string {
	b.mu.Lock()
	defer b.mu.Unlock()
	return append([]string(nil), b.seen...)
}

// stateBefore returns the best state B can offer for the parent of node k.
func (b *byz) stateOf(k int) consensus.State {
	n := b.u.Nodes[k]
	if n.L != nil {
		return n.L.State
	}
	return n.HS
}

func (b *byz) serve() {
	for {
		s, err := b.t.AcceptStream()
		if err != nil {
			return
		}
		go b.handle(s)
	}
}

func (b *byz) handle(s *gateway.Stream) {
	defer s.Close()
	s.SetDeadline(time.Now().Add(20 * time.Second))
	id, err := s.ReadID()
	if err != nil {
		return
	}
	obj := gateway.ObjectForID(id)
	if obj == nil {
		return
	}
	if err := s.ReadRequest(obj); err != nil {
		return
	}
	name := fmt.Sprintf("%T", obj)[len("*gateway.RPC"):]
	b.mu.Lock()
	nth := b.counts[name]
	b.counts[name]++
	b.last = time.Now()
	b.seen = append(b.seen, name)
	m := b.mut
	hook := b.onRequest
	b.mu.Unlock()
	if hook != nil {
		hook(b, name, nth)
	}
	b.mu.Lock()
	path, pos := b.path, b.pos
	b.mu.Unlock()
	ok := true
	switch r := obj.(type) {
	case *gateway.RPCSendHeaders:
		b.mu.Lock()
		refuse := b.refuseHeaders > 0
		if refuse {
			b.refuseHeaders--
		}
		b.mu.Unlock()
		if refuse {
			ok = false
			break
		}
		i, known := pos[r.Index.ID]
		if !known || b.u.Nodes[path[i]].Height != r.Index.Height {
			ok = false // honest nodes fail with "not on our best chain": the stream just ends
			break
		}
		rest := path[i+1:]
		n := uint64(len(rest))
		if r.Max < n {
			n = r.Max
		}
		for _, k := range rest[:n] {
			r.Headers = append(r.Headers, b.u.Nodes[k].Block.Header())
		}
		r.Remaining = uint64(len(rest)) - n
	case *gateway.RPCSendV2Blocks:
		at := 0
		for _, h := range r.History {
			if i, known := pos[h]; known {
				at = i
				break
			}
		}
		rest := path[at+1:]
		n := uint64(len(rest))
		if r.Max < n {
			n = r.Max
		}
		if n > 100 {
			n = 100
		}
		for _, k := range rest[:n] {
			r.Blocks = append(r.Blocks, b.u.Nodes[k].Block)
			if nd := b.u.Nodes[k]; !nd.Valid && b.u.Nodes[nd.Parent].Valid {
				b.mu.Lock()
				b.servedInvalid = true
				b.mu.Unlock()
			}
		}
		r.Remaining = uint64(len(rest)) - n
	case *gateway.RPCSendCheckpoint:
		k, known := b.u.ByID[r.Index.ID]
		if !known || k == 0 {
			ok = false
			break
		}
		r.Block = b.u.Nodes[k].Block
		r.State = b.stateOf(b.u.Nodes[k].Parent)
	case *gateway.RPCSendTransactions:
		if k, known := b.u.ByID[r.Index.ID]; known {
			want := map[types.Hash256]bool{}
			for _, h := range r.Hashes {
				want[h] = true
			}
			blk := b.u.Nodes[k].Block
			for _, txn := range blk.Transactions {
				if want[txn.MerkleLeafHash()] {
					r.Transactions = append(r.Transactions, txn)
				}
			}
			for _, txn := range blk.V2Transactions() {
				if want[txn.MerkleLeafHash()] {
					r.V2Transactions = append(r.V2Transactions, txn)
				}
			}
		}
	}
	action := ""
	if ok && m != nil && m.RPC == name && (m.Nth == nth || m.Nth < 0) {
		action = m.Apply(b, obj)
		if action == "noop" {
			action = ""
		} else {
			b.mu.Lock()
			b.applied = true
			b.mu.Unlock()
		}
	}
	switch {
	case !ok || action == "close":
		return
	case action == "stall":
		// hold the stream open until the transport goes away (bounded by the stream deadline above)
		s.ReadID()
		return
	}
	switch obj.(type) {
	case *gateway.RPCRelayV2Header, *gateway.RPCRelayV2BlockOutline, *gateway.RPCRelayV2TransactionSet:
		return // no response
	}
	b.mu.Lock()
	bw := b.beforeWrite
	b.mu.Unlock()
	if bw != nil {
		bw(b, name, nth)
	}
	s.WriteResponse(obj)
}

// call sends one request to the victim and returns its answer (or the error).
func (b *byz) call(obj gateway.Object, timeout time.Duration) error {
	s, err := b.t.DialStream()
	if err != nil {
		return err
	}
	defer s.Close()
	s.SetDeadline(time.Now().Add(timeout))
	if err := s.WriteID(obj); err != nil {
		return err
	}
	if err := s.WriteRequest(obj); err != nil {
		return err
	}
	switch obj.(type) {
	case *gateway.RPCRelayV2Header, *gateway.RPCRelayV2BlockOutline, *gateway.RPCRelayV2TransactionSet:
		// no response: wait for the victim to close its side (handler finished) or the deadline
		s.ReadID()
		return nil
	}
	return s.ReadResponse(obj)
}
