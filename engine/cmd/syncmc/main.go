// syncmc decides the syncer properties C11 (Byzantine peers) and C12 (convergence) by exhaustive
// enumeration of bounded configurations against real syncer.Syncer + chain.Manager instances joined by an
// in-memory network.
package main

import (
	"flag"
	"time"

	"verif/internal/ev"
)

var run *ev.Run

func main() {
	tier := flag.String("tier", "", "quick|thorough")
	replay := flag.String("replay", "", "replay file: report only the violation it records")
	prop := flag.String("prop", "", "C11|C12")
	child := flag.String("c11-child", "", "internal: run a shard (i/n) or one scenario (only:i) of C11 and print JSON lines")
	flag.Parse()
	if *child != "" {
		c11Child(*child)
	}
	checks := map[string]func(){"C11": c11, "C12": c12}
	f, ok := checks[*prop]
	if !ok {
		ev.HarnessError("syncmc: unknown property %q", *prop)
	}
	run = ev.New(*prop, *tier, "model_checking")
	run.SetBudget(10 * time.Minute)
	if run.Thorough() {
		run.SetBudget(40 * time.Minute)
	}
	if *replay != "" {
		run.SetReplay(*replay)
	}
	f()
	run.Finish()
}
