package main

import (
	"bytes"
	"fmt"
	"time"

	"go.sia.tech/core/consensus"
	"go.sia.tech/core/gateway"
	"go.sia.tech/core/types"

	"verif/internal/ledger"
	"verif/internal/univ"
)

func cloneBlock(b types.Block) types.Block {
	var buf bytes.Buffer
	e := types.NewEncoder(&buf)
	types.V2Block(b).EncodeTo(e)
	e.Flush()
	var out types.V2Block
	d := types.NewBufDecoder(buf.Bytes())
	out.DecodeFrom(d)
	return types.Block(out)
}

// badWork returns h with a nonce under which it does not meet the target of its parent state.
func badWork(cs consensus.State, h types.BlockHeader) (types.BlockHeader, bool) {
	f := cs.NonceFactor()
	h.Nonce = 0
	for i := 0; i < 1<<20; i++ {
		if h.ID().CmpWork(cs.PoWTarget()) < 0 {
			return h, true
		}
		h.Nonce += f
	}
	return h, false
}

// c11Mutations lists the single-answer corruptions.
func c11Mutations(u *univ.Universe, tips map[string]int) []mutation {
	var ms []mutation
	hdr := func(name string, nth int, f func(b *byz, r *gateway.RPCSendHeaders) string) {
		ms = append(ms, mutation{Name: name, RPC: "SendHeaders", Nth: nth, Apply: func(b *byz, o gateway.Object) string { return f(b, o.(*gateway.RPCSendHeaders)) }})
	}
	parentState := func(b *byz, h types.BlockHeader) consensus.State {
		if k, ok := b.u.ByID[h.ParentID]; ok {
			return b.stateOf(k)
		}
		return b.u.Nodes[0].HS
	}
	hdr("hdr-drop-first", 0, func(b *byz, r *gateway.RPCSendHeaders) string {
		if len(r.Headers) > 1 {
			r.Headers = r.Headers[1:]
		}
		return ""
	})
	hdr("hdr-drop-middle", 0, func(b *byz, r *gateway.RPCSendHeaders) string {
		if n := len(r.Headers); n > 2 {
			r.Headers = append(append([]types.BlockHeader(nil), r.Headers[:n/2]...), r.Headers[n/2+1:]...)
		}
		return ""
	})
	hdr("hdr-swap", 0, func(b *byz, r *gateway.RPCSendHeaders) string {
		if len(r.Headers) > 1 {
			r.Headers[0], r.Headers[1] = r.Headers[1], r.Headers[0]
		}
		return ""
	})
	hdr("hdr-dup-last", 0, func(b *byz, r *gateway.RPCSendHeaders) string {
		if n := len(r.Headers); n > 0 {
			r.Headers = append(r.Headers, r.Headers[n-1])
		}
		return ""
	})
	for _, where := range []string{"first", "middle", "last"} {
		hdr("hdr-insufficient-work-"+where, 0, func(b *byz, r *gateway.RPCSendHeaders) string {
			n := len(r.Headers)
			if n == 0 {
				return ""
			}
			i := map[string]int{"first": 0, "middle": n / 2, "last": n - 1}[where]
			h, ok := badWork(parentState(b, r.Headers[i]), r.Headers[i])
			if !ok {
				return "noop" // the target at this height is so easy that no nonce fails it
			}
			r.Headers[i] = h
			return ""
		})
	}
	hdr("hdr-timestamp-past", 0, func(b *byz, r *gateway.RPCSendHeaders) string {
		if n := len(r.Headers); n > 0 {
			r.Headers[n/2].Timestamp = b.u.Genesis.Timestamp.Add(-time.Hour)
		}
		return ""
	})
	hdr("hdr-empty-with-remaining", 0, func(b *byz, r *gateway.RPCSendHeaders) string {
		r.Headers, r.Remaining = nil, 5
		return ""
	})
	hdr("hdr-remaining-huge", 0, func(b *byz, r *gateway.RPCSendHeaders) string {
		r.Remaining = 1 << 62
		return ""
	})
	hdr("hdr-garbage-tail", 0, func(b *byz, r *gateway.RPCSendHeaders) string {
		r.Headers = append(r.Headers, types.BlockHeader{ParentID: types.BlockID{1, 2, 3}, Timestamp: time.Now()})
		return ""
	})
	hdr("hdr-close", 0, func(b *byz, r *gateway.RPCSendHeaders) string { return "close" })

	blk := func(name string, nth int, f func(b *byz, r *gateway.RPCSendV2Blocks) string) {
		ms = append(ms, mutation{Name: name, RPC: "SendV2Blocks", Nth: nth, Apply: func(b *byz, o gateway.Object) string { return f(b, o.(*gateway.RPCSendV2Blocks)) }})
	}
	for _, nth := range []int{0, -1} {
		sfx := ""
		if nth < 0 {
			sfx = "-always"
		}
		blk("blk-fewer"+sfx, nth, func(b *byz, r *gateway.RPCSendV2Blocks) string {
			if n := len(r.Blocks); n > 0 {
				r.Blocks = r.Blocks[:n-1]
			}
			return ""
		})
		blk("blk-more"+sfx, nth, func(b *byz, r *gateway.RPCSendV2Blocks) string {
			if n := len(r.Blocks); n > 0 {
				r.Blocks = append(r.Blocks, r.Blocks[n-1])
			}
			return ""
		})
		blk("blk-swap"+sfx, nth, func(b *byz, r *gateway.RPCSendV2Blocks) string {
			if len(r.Blocks) > 1 {
				r.Blocks[0], r.Blocks[1] = r.Blocks[1], r.Blocks[0]
			}
			return ""
		})
		blk("blk-foreign-first"+sfx, nth, func(b *byz, r *gateway.RPCSendV2Blocks) string {
			if len(r.Blocks) > 0 {
				if k, ok := b.u.ByID[r.Blocks[0].ParentID]; ok {
					for _, c := range b.u.Nodes[k].Children {
						if b.u.Nodes[c].Block.ID() != r.Blocks[0].ID() {
							r.Blocks[0] = b.u.Nodes[c].Block
						}
					}
				}
			}
			return ""
		})
		for _, where := range []string{"first", "last"} {
			blk("blk-tamper-payout-address-"+where+sfx, nth, func(b *byz, r *gateway.RPCSendV2Blocks) string {
				n := len(r.Blocks)
				if n == 0 {
					return ""
				}
				i := map[string]int{"first": 0, "last": n - 1}[where]
				c := cloneBlock(r.Blocks[i])
				c.MinerPayouts[0].Address = types.Address{0xEE}
				r.Blocks[i] = c
				return ""
			})
		}
		blk("blk-empty"+sfx, nth, func(b *byz, r *gateway.RPCSendV2Blocks) string {
			r.Blocks = nil
			return ""
		})
		blk("blk-close"+sfx, nth, func(b *byz, r *gateway.RPCSendV2Blocks) string { return "close" })
	}
	blk("blk-stall", 0, func(b *byz, r *gateway.RPCSendV2Blocks) string { return "stall" })

	ck := func(name string, f func(b *byz, r *gateway.RPCSendCheckpoint) string) {
		ms = append(ms, mutation{Name: name, RPC: "SendCheckpoint", Nth: 0, Apply: func(b *byz, o gateway.Object) string { return f(b, o.(*gateway.RPCSendCheckpoint)) }})
	}
	// every 24th byte of the encoded state perturbed (covers every encoded field at least once)
	var probe bytes.Buffer
	pe := types.NewEncoder(&probe)
	u.Nodes[tips["T9"]].L.State.EncodeTo(pe)
	pe.Flush()
	for off := 0; off < probe.Len(); off += 24 {
		ck(fmt.Sprintf("ck-state-byte-%d", off), func(b *byz, r *gateway.RPCSendCheckpoint) string {
			var buf bytes.Buffer
			e := types.NewEncoder(&buf)
			r.State.EncodeTo(e)
			e.Flush()
			raw := buf.Bytes()
			if off < len(raw) {
				raw[off] ^= 1
			}
			var st consensus.State
			st.Network = r.State.Network
			d := types.NewBufDecoder(raw)
			st.DecodeFrom(d)
			if d.Err() == nil {
				st.Network = r.State.Network
				r.State = st
			}
			return ""
		})
	}
	ck("ck-other-block", func(b *byz, r *gateway.RPCSendCheckpoint) string {
		if k, ok := b.u.ByID[r.Block.ID()]; ok && len(b.u.Nodes[k].Children) > 0 {
			r.Block = b.u.Nodes[b.u.Nodes[k].Children[0]].Block
		}
		return ""
	})
	ck("ck-state-of-other-block", func(b *byz, r *gateway.RPCSendCheckpoint) string {
		if k, ok := b.u.ByID[r.Block.ID()]; ok {
			r.State = b.stateOf(k)
		}
		return ""
	})
	ck("ck-v1-block", func(b *byz, r *gateway.RPCSendCheckpoint) string {
		c := cloneBlock(r.Block)
		c.V2 = nil
		r.Block = c
		return ""
	})
	ck("ck-two-payouts", func(b *byz, r *gateway.RPCSendCheckpoint) string {
		c := cloneBlock(r.Block)
		c.MinerPayouts = append(c.MinerPayouts, c.MinerPayouts[0])
		r.Block = c
		return ""
	})
	ck("ck-close", func(b *byz, r *gateway.RPCSendCheckpoint) string { return "close" })
	ck("ck-stall", func(b *byz, r *gateway.RPCSendCheckpoint) string { return "stall" })
	return ms
}

// c11Announcements: the scripted peer is on the victim's tip (T9) and relays headers, outlines and
// transaction sets for the next block.
func c11Announcements(u *univ.Universe, tips map[string]int, thorough bool) []c11scn {
	var out []c11scn
	t9, t10 := tips["T9"], tips["T10"]
	type ann struct {
		name      string
		withH     bool
		send      func(r *c11rig) // what the scripted peer sends
		mut       *mutation       // how it answers SendTransactions
		universe  *univ.Universe
		wantTip   int    // universe node the victim must end on (-1: any valid)
		expectBan string // non-empty: the peer must be reported
	}
	var anns []ann
	t10hdr := u.Nodes[t10].Block.Header()
	anns = append(anns, ann{name: "header valid", universe: u, wantTip: t9, send: func(r *c11rig) {
		r.b.call(&gateway.RPCRelayV2Header{Header: t10hdr}, 5*time.Second)
	}})
	if bad, ok := badWork(u.Nodes[t9].L.State, t10hdr); ok {
		anns = append(anns, ann{name: "header insufficient-work", universe: u, wantTip: t9, expectBan: "relayed a header with insufficient work", send: func(r *c11rig) {
			r.b.call(&gateway.RPCRelayV2Header{Header: bad}, 5*time.Second)
		}})
	}
	anns = append(anns, ann{name: "header unknown-parent", universe: u, wantTip: t9, send: func(r *c11rig) {
		h := t10hdr
		h.ParentID = types.BlockID{9, 9, 9}
		r.b.call(&gateway.RPCRelayV2Header{Header: h}, 5*time.Second)
	}})
	// outlines of the valid T10 (which carries one v2 transaction), complete and with the transaction left out
	t10blk := u.Nodes[t10].Block
	anns = append(anns, ann{name: "outline valid complete", universe: u, wantTip: t10, send: func(r *c11rig) {
		r.b.call(&gateway.RPCRelayV2BlockOutline{Block: gateway.OutlineBlock(t10blk, nil, nil)}, 5*time.Second)
	}})
	missing := func() gateway.V2BlockOutline { return gateway.OutlineBlock(t10blk, nil, t10blk.V2Transactions()) }
	anns = append(anns, ann{name: "outline missing-txn answered-honestly", universe: u, wantTip: t10, send: func(r *c11rig) {
		r.b.setChain(t10) // it has the block it announces
		r.b.call(&gateway.RPCRelayV2BlockOutline{Block: missing()}, 8*time.Second)
	}})
	other := univ.V2Attestation(u.Nodes[t9].L.State, u.As[0], "unrelated")
	anns = append(anns, ann{name: "outline missing-txn answered-with-wrong-txn", universe: u, wantTip: t9, expectBan: "sent wrong missing transactions for an outline it relayed",
		mut: &mutation{Name: "txns-wrong", RPC: "SendTransactions", Nth: -1, Apply: func(b *byz, o gateway.Object) string {
			r := o.(*gateway.RPCSendTransactions)
			r.Transactions, r.V2Transactions = nil, []types.V2Transaction{other}
			return ""
		}},
		send: func(r *c11rig) {
			r.b.setChain(t10)
			r.b.call(&gateway.RPCRelayV2BlockOutline{Block: missing()}, 8*time.Second)
		}})
	anns = append(anns, ann{name: "outline missing-txn answered-with-nothing", universe: u, wantTip: t9, expectBan: "sent no missing transactions for an outline it relayed",
		mut: &mutation{Name: "txns-none", RPC: "SendTransactions", Nth: -1, Apply: func(b *byz, o gateway.Object) string {
			r := o.(*gateway.RPCSendTransactions)
			r.Transactions, r.V2Transactions = nil, nil
			return ""
		}},
		send: func(r *c11rig) {
			r.b.setChain(t10)
			r.b.call(&gateway.RPCRelayV2BlockOutline{Block: missing()}, 8*time.Second)
		}})
	anns = append(anns, ann{name: "outline missing-txn stream-closed", universe: u, wantTip: -1,
		mut: &mutation{Name: "txns-close", RPC: "SendTransactions", Nth: 0, Apply: func(b *byz, o gateway.Object) string { return "close" }},
		send: func(r *c11rig) {
			r.b.setChain(t10)
			r.b.call(&gateway.RPCRelayV2BlockOutline{Block: missing()}, 8*time.Second)
		}})
	// outlines of corrupted children of T9: what the victim reconstructs is added to the universe and
	// classified by the reference
	for _, kind := range univ.Corruptions {
		cu, ok := univ.Corrupt(u, t10, kind)
		if !ok || cu.Nodes[t10].Block.V2 == nil || len(cu.Nodes[t10].Block.MinerPayouts) == 0 {
			continue
		}
		bo := gateway.OutlineBlock(cu.Nodes[t10].Block, nil, nil)
		// an outline carries no payouts, commitment or v2 height of its own: the victim rebuilds them, which
		// heals some corruptions. The rebuilt block is what counts; it is classified in the original universe.
		rebuilt, _ := bo.Complete(u.Nodes[t9].L.State, nil, nil)
		_, _, aerr := u.Nodes[t9].L.ApplyBlock(rebuilt)
		valid := aerr == nil && consensus.ValidateOrphan(u.Nodes[t9].L.State, rebuilt) == nil && !rebuilt.Timestamp.After(u.Nodes[t9].L.State.MaxFutureTimestamp(time.Now()))
		k := t9
		if _, exists := u.ByID[rebuilt.ID()]; valid || !exists {
			// (an invalid block whose id collides with a valid one - the id does not cover the v2 height -
			// cannot be a node of its own; the victim must simply stay where it is)
			k = u.AddRaw(t9, rebuilt, "outline-of-"+kind)
		}
		a := ann{name: "outline of corrupted block " + kind, universe: u, send: func(r *c11rig) {
			r.b.call(&gateway.RPCRelayV2BlockOutline{Block: bo}, 8*time.Second)
		}}
		if valid {
			a.wantTip = k
		} else {
			a.wantTip = t9
			a.expectBan = "relayed an outline of an invalid block (" + kind + ")"
		}
		anns = append(anns, a)
	}
	// transaction sets
	t10txns := t10blk.V2Transactions()
	basis := types.ChainIndex{ID: u.Nodes[t9].Block.ID(), Height: 9}
	anns = append(anns, ann{name: "txnset valid", universe: u, wantTip: t9, send: func(r *c11rig) {
		r.b.call(&gateway.RPCRelayV2TransactionSet{Index: basis, Transactions: t10txns}, 5*time.Second)
	}})
	anns = append(anns, ann{name: "txnset empty", universe: u, wantTip: t9, expectBan: "relayed an empty transaction set", send: func(r *c11rig) {
		r.b.call(&gateway.RPCRelayV2TransactionSet{Index: basis}, 5*time.Second)
	}})
	badTxn := t10txns[0].DeepCopy()
	badTxn.SiacoinInputs[0].SatisfiedPolicy.Signatures[0][3] ^= 1
	anns = append(anns, ann{name: "txnset bad-signature", universe: u, wantTip: t9, send: func(r *c11rig) {
		r.b.call(&gateway.RPCRelayV2TransactionSet{Index: basis, Transactions: []types.V2Transaction{badTxn}}, 5*time.Second)
	}})
	anns = append(anns, ann{name: "txnset unknown-basis", universe: u, wantTip: t9, send: func(r *c11rig) {
		r.b.call(&gateway.RPCRelayV2TransactionSet{Index: types.ChainIndex{ID: types.BlockID{7}, Height: 9}, Transactions: t10txns}, 5*time.Second)
	}})
	for _, a := range anns {
		for _, withH := range []bool{false, true} {
			if withH && !thorough && a.expectBan == "" {
				continue
			}
			name := fmt.Sprintf("announcement %s honestPeer=%v", a.name, withH)
			out = append(out, c11scn{name, func() (string, string) {
				hTip := -1
				if withH {
					hTip = tips["T12"]
				}
				r, err := newC11Rig(a.universe, t9, hTip, t9, a.mut, "B")
				if err != nil {
					return "harness:setup", err.Error()
				}
				defer r.close()
				// let the victim find the scripted peer in sync first
				deadline := time.Now().Add(20 * time.Second)
				for len(r.b.requests()) == 0 && time.Now().Before(deadline) {
					time.Sleep(2 * time.Millisecond)
				}
				time.Sleep(30 * time.Millisecond)
				a.send(r)
				if withH {
					if err := r.c.connect(0, 1); err != nil {
						return "harness:connect", err.Error()
					}
				}
				reached := r.settle(hTip, 60*time.Second)
				if !withH && a.wantTip >= 0 {
					want := a.universe.Nodes[a.wantTip].Block.ID()
					ok := false
					for end := time.Now().Add(20 * time.Second); time.Now().Before(end); time.Sleep(2 * time.Millisecond) {
						if r.v.cm.Tip().ID == want {
							ok = true
							break
						}
					}
					if !ok {
						k := a.universe.ByID[r.v.cm.Tip().ID]
						return "c11:announcement-outcome", fmt.Sprintf("%s: the victim is on %s, expected %s; requests seen: %v; bans: %v", name, a.universe.Nodes[k].Label, a.universe.Nodes[a.wantTip].Label, r.b.requests(), r.v.ps.Bans())
					}
				}
				return r.judge(name, hTip, reached, a.expectBan)
			}})
		}
	}
	return out
}

// c11Rewrites: the scripted peer claims the victim's own chain, makes the victim re-download blocks it already
// has (by failing the header request that starts at the victim's tip, so that the victim falls back to an
// older history entry) and serves them with the right ids but altered bodies. A v2 block id does not bind
// the payout value or the v2 height, so only validation stands between such a block and the store.
func c11Rewrites(u *univ.Universe, tips map[string]int) []c11scn {
	var out []c11scn
	tampers := []struct {
		name string
		f    func(b *types.Block)
	}{
		{"payout-value-x1000", func(b *types.Block) { b.MinerPayouts[0].Value = b.MinerPayouts[0].Value.Mul64(1000) }},
		{"payout-value-zero", func(b *types.Block) { b.MinerPayouts[0].Value = types.ZeroCurrency }},
		{"second-payout", func(b *types.Block) { b.MinerPayouts = append(b.MinerPayouts, b.MinerPayouts[0]) }},
		{"v2-height+1", func(b *types.Block) {
			if b.V2 != nil {
				b.V2.Height++
			}
		}},
		{"drop-transactions", func(b *types.Block) {
			b.Transactions = nil
			if b.V2 != nil {
				b.V2.Transactions = nil
			}
		}},
	}
	for _, start := range []string{"T6", "T11", "T12", "C3", "A6"} {
		for _, fails := range []int{1, 2, 3} {
			for _, tm := range tampers {
				for _, withH := range []bool{false, true} {
					name := fmt.Sprintf("rewrite-known-blocks %s start=%s failedHeaderRequests=%d honestPeer=%v", tm.name, start, fails, withH)
					out = append(out, c11scn{name, func() (string, string) {
						hTip := -1
						if withH {
							hTip = tips["T12"]
							if !heavier(u, hTip, tips[start]) {
								hTip = -1
							}
						}
						mut := &mutation{Name: "blk-" + tm.name, RPC: "SendV2Blocks", Nth: -1, Apply: func(b *byz, o gateway.Object) string {
							r := o.(*gateway.RPCSendV2Blocks)
							for i := range r.Blocks {
								c := cloneBlock(r.Blocks[i])
								tm.f(&c)
								r.Blocks[i] = c
							}
							return ""
						}}
						r, err := newC11Rig(u, tips[start], hTip, tips[start], mut, "")
						if err != nil {
							return "harness:setup", err.Error()
						}
						defer r.close()
						// the first header requests (starting at the victim's most recent blocks) are refused
						r.b.onRequest = nil
						refuse := fails
						r.b.mu.Lock()
						r.b.refuseHeaders = refuse
						r.b.mu.Unlock()
						if err := r.b.dial(r.c.mn, "10.66.0.1", r.v.addr); err != nil {
							return "harness:dial", err.Error()
						}
						if hTip >= 0 {
							if err := r.c.connect(0, 1); err != nil {
								return "harness:connect", err.Error()
							}
						}
						reached := r.settle(hTip, 60*time.Second)
						return r.judge(name, hTip, reached, "")
					}})
				}
			}
		}
	}
	return out
}

// c11Requests: requests with out-of-range parameters sent to the victim; afterwards an honest peer connects
// and the victim must still sync.
func c11Requests(u *univ.Universe, tips map[string]int) []c11scn {
	var out []c11scn
	t9 := tips["T9"]
	genesis := types.ChainIndex{ID: u.Genesis.ID(), Height: 0}
	var ids []types.BlockID
	for i := 0; i < 2000; i++ {
		ids = append(ids, types.BlockID{byte(i), byte(i >> 8), 0x55})
	}
	var hashes []types.Hash256
	for i := 0; i < 2000; i++ {
		hashes = append(hashes, types.Hash256{byte(i), byte(i >> 8), 0x66})
	}
	reqs := []struct {
		name string
		obj  func() gateway.Object
	}{
		{"SendHeaders unknown-index", func() gateway.Object {
			return &gateway.RPCSendHeaders{Index: types.ChainIndex{ID: types.BlockID{5}, Height: 3}, Max: 10}
		}},
		{"SendHeaders wrong-height", func() gateway.Object {
			return &gateway.RPCSendHeaders{Index: types.ChainIndex{ID: u.Genesis.ID(), Height: 7}, Max: 10}
		}},
		{"SendHeaders max-0", func() gateway.Object { return &gateway.RPCSendHeaders{Index: genesis, Max: 0} }},
		{"SendHeaders max-huge", func() gateway.Object { return &gateway.RPCSendHeaders{Index: genesis, Max: 1 << 63} }},
		{"SendV2Blocks no-history max-huge", func() gateway.Object { return &gateway.RPCSendV2Blocks{Max: 1 << 63} }},
		{"SendV2Blocks 2000-unknown-ids", func() gateway.Object { return &gateway.RPCSendV2Blocks{History: ids, Max: 100} }},
		{"SendV2Blocks max-0", func() gateway.Object {
			return &gateway.RPCSendV2Blocks{History: []types.BlockID{u.Genesis.ID()}, Max: 0}
		}},
		{"SendCheckpoint genesis", func() gateway.Object { return &gateway.RPCSendCheckpoint{Index: genesis} }},
		{"SendCheckpoint unknown", func() gateway.Object {
			return &gateway.RPCSendCheckpoint{Index: types.ChainIndex{ID: types.BlockID{4}, Height: 4}}
		}},
		{"SendCheckpoint v1-block", func() gateway.Object {
			return &gateway.RPCSendCheckpoint{Index: types.ChainIndex{ID: u.Nodes[tips["T1"]].Block.ID(), Height: 1}}
		}},
		{"SendTransactions unknown-block 2000-hashes", func() gateway.Object {
			return &gateway.RPCSendTransactions{Index: types.ChainIndex{ID: types.BlockID{3}, Height: 3}, Hashes: hashes}
		}},
		{"SendTransactions known-block no-hashes", func() gateway.Object {
			return &gateway.RPCSendTransactions{Index: types.ChainIndex{ID: u.Nodes[t9].Block.ID(), Height: 9}}
		}},
		{"ShareNodes", func() gateway.Object { return &gateway.RPCShareNodes{} }},
	}
	for _, rq := range reqs {
		name := "request " + rq.name
		out = append(out, c11scn{name, func() (string, string) {
			r, err := newC11Rig(u, t9, tips["T12"], t9, nil, "B")
			if err != nil {
				return "harness:setup", err.Error()
			}
			defer r.close()
			for i := 0; i < 3; i++ {
				r.b.call(rq.obj(), 5*time.Second)
			}
			if err := r.c.connect(0, 1); err != nil {
				return "harness:connect", err.Error()
			}
			reached := r.settle(tips["T12"], 60*time.Second)
			return r.judge(name, tips["T12"], reached, "")
		}})
	}
	return out
}

// c11ForgedCheckpoints: above the v2 require height the victim asks the peer for a "checkpoint" (a block and the
// state before it) and validates the following blocks against the state derived from it.
//
//	forged-body: the checkpoint block is one the victim already has, served with an inflated miner payout. Neither
//	  the block id nor the commitment covers the payout value, and the attacker has mined its own blocks on top
//	  of the state that results from the forged body.
//	foreign-state: block number 100 of a 101-block attacker chain commits to a state that is not its parent's
//	  (the second 100-block request uses it as its checkpoint).
func c11ForgedCheckpoints(u0 *univ.Universe, tips0 map[string]int) []c11scn {
	var out []c11scn
	for _, withH := range []bool{false, true} {
		name := fmt.Sprintf("forged-checkpoint body (miner payout x2, same id) honestPeer=%v", withH)
		out = append(out, c11scn{name, func() (string, string) {
			u, tips := c11Universe()
			t9 := tips["T9"]
			forged := cloneBlock(u.Nodes[t9].Block)
			forged.MinerPayouts[0].Value = forged.MinerPayouts[0].Value.Mul64(2)
			st, _ := consensus.ApplyBlock(u.Nodes[tips["T8"]].L.State, forged, consensus.V1BlockSupplement{}, time.Time{})
			parent := t9
			for i := 1; i <= 5; i++ {
				b := univ.BuildBlock(&ledger.Ledger{State: st}, univ.TS(u.Net, st.Index.Height+1, 3), u.As[3].Addr, nil, nil)
				parent = u.AddRaw(parent, b, fmt.Sprintf("F%d", i))
				st, _ = consensus.ApplyBlock(st, b, consensus.V1BlockSupplement{}, time.Time{})
			}
			if u.Nodes[parent].Valid || !u.Nodes[parent].HeaderOK {
				return "harness:forged-chain", fmt.Sprintf("forged chain classified valid=%v headerOK=%v", u.Nodes[parent].Valid, u.Nodes[parent].HeaderOK)
			}
			t9id := u.Nodes[t9].Block.ID()
			mut := &mutation{Name: "ck-forged-body", RPC: "SendCheckpoint", Nth: -1, Apply: func(b *byz, o gateway.Object) string {
				r := o.(*gateway.RPCSendCheckpoint)
				if r.Block.ID() == t9id {
					r.Block = forged
				}
				return ""
			}}
			hTip := -1
			if withH {
				hTip = tips["T12"]
			}
			r, err := newC11Rig(u, t9, hTip, parent, mut, "BH")
			if err != nil {
				return "harness:setup", err.Error()
			}
			defer r.close()
			reached := r.settle(hTip, 60*time.Second)
			return r.judge(name, hTip, reached, "")
		}})
	}
	out = append(out, c11scn{"forged-checkpoint foreign-state (block 100 of 101 commits to a state that is not its parent's)", func() (string, string) {
		u, tips := c11Universe()
		k := tips["T9"]
		for i := 1; i <= 101; i++ {
			if i == 100 {
				// commitment over the state of T8 (not the parent's), parent id and proof of work as the header chain demands
				p := u.Nodes[k]
				b := univ.BuildBlock(&ledger.Ledger{State: u.Nodes[tips["T8"]].L.State}, univ.TS(u.Net, p.Height+1, 0), u.As[3].Addr, nil, nil)
				b.ParentID = p.Block.ID()
				b.V2.Height = p.Height + 1
				univ.Mine(p.HS, &b)
				k = u.AddRaw(k, b, "X100")
				continue
			}
			if i < 100 {
				k = u.Add(k, 0, nil, nil, fmt.Sprintf("X%d", i)) // valid, so that the first request goes through
			} else {
				k = u.AddHeaderOnly(k, 0, fmt.Sprintf("X%d", i))
			}
		}
		if !u.Nodes[k].HeaderOK {
			return "harness:forged-chain", "the 101-block header chain is not header-valid: " + u.Nodes[k].Err
		}
		x100 := u.Nodes[u.Nodes[k].Parent]
		mut := &mutation{Name: "ck-foreign-state", RPC: "SendCheckpoint", Nth: -1, Apply: func(b *byz, o gateway.Object) string {
			r := o.(*gateway.RPCSendCheckpoint)
			if r.Block.ID() == x100.Block.ID() {
				r.State = u.Nodes[tips["T8"]].L.State
			}
			return ""
		}}
		r, err := newC11Rig(u, tips["T9"], -1, k, mut, "B")
		if err != nil {
			return "harness:setup", err.Error()
		}
		defer r.close()
		// a second scripted peer with the same chain and the same lie: the victim hands the second 100-block
		// request (whose checkpoint is X100) to its second worker
		b2 := newByz(u, k, mut)
		if err := b2.dial(r.c.mn, "10.67.0.1", r.v.addr); err != nil {
			return "harness:setup", err.Error()
		}
		defer b2.close()
		r.settle(-1, 20*time.Second)
		return r.judge("forged-checkpoint foreign-state", -1, true, "")
	}})
	for _, inv := range []string{"difficulty set to zero", "total work set to the maximum"} {
	out = append(out, c11scn{"forged-checkpoint invented-state (block 100 of 101 commits to its parent state with the " + inv + ")", func() (string, string) {
		u, tips := c11Universe()
		k := tips["T9"]
		var invented consensus.State
		for i := 1; i <= 101; i++ {
			if i == 100 {
				// the peer invents a state - the true parent state with Difficulty = 0 - and commits its block to it
				p := u.Nodes[k]
				invented = p.L.State
				if inv == "difficulty set to zero" {
					invented.Difficulty = consensus.Work{}
				} else {
					invented.TotalWork.DecodeFrom(types.NewBufDecoder(bytes.Repeat([]byte{0xFF}, 32)))
				}
				b := univ.BuildBlock(p.L, univ.TS(u.Net, p.Height+1, 0), u.As[3].Addr, nil, nil)
				b.V2.Commitment = invented.Commitment(b.MinerPayouts[0].Address, b.Transactions, b.V2Transactions())
				univ.Mine(p.HS, &b)
				k = u.AddRaw(k, b, "X100")
				continue
			}
			if i < 100 {
				k = u.Add(k, 0, nil, nil, fmt.Sprintf("X%d", i))
			} else {
				k = u.AddHeaderOnly(k, 0, fmt.Sprintf("X%d", i))
			}
		}
		if !u.Nodes[k].HeaderOK {
			return "harness:forged-chain", "the 101-block header chain is not header-valid: " + u.Nodes[k].Err
		}
		x100 := u.Nodes[u.Nodes[k].Parent]
		mut := &mutation{Name: "ck-invented-state", RPC: "SendCheckpoint", Nth: -1, Apply: func(b *byz, o gateway.Object) string {
			r := o.(*gateway.RPCSendCheckpoint)
			if r.Block.ID() == x100.Block.ID() {
				r.State = invented
			}
			return ""
		}}
		r, err := newC11Rig(u, tips["T9"], -1, k, mut, "B")
		if err != nil {
			return "harness:setup", err.Error()
		}
		defer r.close()
		b2 := newByz(u, k, mut)
		if err := b2.dial(r.c.mn, "10.67.0.1", r.v.addr); err != nil {
			return "harness:setup", err.Error()
		}
		defer b2.close()
		r.settle(-1, 20*time.Second)
		return r.judge("forged-checkpoint invented-state", -1, true, "")
	}})
	}
	return out
}
