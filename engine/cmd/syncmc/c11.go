package main

import (
	"bufio"
	"bytes"
	"encoding/json"
	"fmt"
	"os"
	"os/exec"
	"runtime/pprof"
	"strings"
	"sync"
	"time"

	"go.sia.tech/core/types"
	"go.sia.tech/coreutils/syncer"

	"verif/internal/ev"
	"verif/internal/univ"
)

// ---- universe ---------------------------------------------------------------------------------------------

// c11Universe: trunk T1..T12 (the honest peer's chain), and the attacker's branch A1..A14 forking after T6
// (heights 7..20: across the v2 require height 8), heavier than the trunk. A1 carries a v1 spend, A3 and A6
// v2 spends, so that every corruption kind has a block it applies to. T10 carries a v2 spend (outlines).
func c11Universe() (*univ.Universe, map[string]int) {
	u := univ.NewUniverse("Z", univ.RegimeS)
	tips := map[string]int{"G": 0}
	k := 0
	for h := 1; h <= 12; h++ {
		var v2 []types.V2Transaction
		if h == 10 {
			L := u.Nodes[k].L
			own := univ.OwnedSC(L, u.As[2].Addr)
			v2 = append(v2, univ.V2Spend(L.State, u.As[2], own[0], u.As[0].Addr, univ.SC(3), univ.SC(1)))
		}
		k = u.Add(k, 0, nil, v2, fmt.Sprintf("T%d", h))
		if !u.Nodes[k].Valid {
			panic("c11 trunk invalid: " + u.Nodes[k].Err)
		}
		tips[fmt.Sprintf("T%d", h)] = k
	}
	k = tips["T6"]
	for i := 1; i <= 14; i++ {
		L := u.Nodes[k].L
		var v1 []types.Transaction
		var v2 []types.V2Transaction
		switch i {
		case 1:
			own := univ.OwnedSC(L, u.As[1].Addr)
			v1 = append(v1, univ.V1Spend(L.State, u.As[1], own[0], u.As[0].Addr, univ.SC(5), univ.SC(1)))
		case 3, 6:
			own := univ.OwnedSC(L, u.As[1].Addr)
			v2 = append(v2, univ.V2Spend(L.State, u.As[1], own[0], u.As[0].Addr, univ.SC(4), univ.SC(1)))
		}
		k = u.Add(k, 1, v1, v2, fmt.Sprintf("A%d", i))
		if !u.Nodes[k].Valid {
			panic("c11 branch invalid: " + u.Nodes[k].Err)
		}
		tips[fmt.Sprintf("A%d", i)] = k
	}
	// second attacker branch forking above the require height (sync of it goes through checkpoints)
	k = tips["T9"]
	for i := 1; i <= 10; i++ {
		L := u.Nodes[k].L
		var v2 []types.V2Transaction
		if i == 2 {
			own := univ.OwnedSC(L, u.As[0].Addr)
			v2 = append(v2, univ.V2Spend(L.State, u.As[0], own[0], u.As[1].Addr, univ.SC(4), univ.SC(1)))
		}
		k = u.Add(k, 2, nil, v2, fmt.Sprintf("C%d", i))
		if !u.Nodes[k].Valid {
			panic("c11 branch C invalid: " + u.Nodes[k].Err)
		}
		tips[fmt.Sprintf("C%d", i)] = k
	}
	return u, tips
}

// ---- one victim + optional honest peer + one scripted peer -----------------------------------------------------

type c11rig struct {
	name string // set by judge
	c    *cluster
	v    *member
	h    *member
	b    *byz
}

func victimOpts() []syncer.Option {
	return []syncer.Option{syncer.WithSendBlocksTimeout(2 * time.Second), syncer.WithSendBlockTimeout(2 * time.Second), syncer.WithSendTransactionsTimeout(2 * time.Second),
		syncer.WithRelayHeaderTimeout(2 * time.Second), syncer.WithRelayBlockOutlineTimeout(2 * time.Second), syncer.WithRelayTransactionSetTimeout(2 * time.Second)}
}

// newC11Rig starts the victim on vStart, optionally an honest peer on hTip, and the scripted peer claiming
// bTip with the mutation. order: "BH" (scripted peer connects first) or "HB".
func newC11Rig(u *univ.Universe, vStart, hTip, bTip int, mut *mutation, order string) (*c11rig, error) {
	specs := []memberSpec{{Tip: vStart, Extra: victimOpts()}}
	if hTip >= 0 {
		specs = append(specs, memberSpec{Tip: hTip})
	}
	c, err := newCluster(u, specs)
	if err != nil {
		return nil, err
	}
	r := &c11rig{c: c, v: c.mem[0]}
	if hTip >= 0 {
		r.h = c.mem[1]
	}
	r.b = newByz(u, bTip, mut)
	for _, who := range order {
		switch who {
		case 'B':
			if err := r.b.dial(c.mn, "10.66.0.1", r.v.addr); err != nil {
				c.close()
				return nil, err
			}
		case 'H':
			if r.h != nil {
				if err := c.connect(0, 1); err != nil {
					c.close()
					return nil, err
				}
			}
		}
	}
	return r, nil
}

func (r *c11rig) close() {
	r.b.close()
	if hung := r.c.close(); len(hung) > 0 {
		c11hung.Store(r.name, hung[0])
	}
}

// c11hung: scenario name -> why a member could not be shut down (filled by close, read by the runner)
var c11hung sync.Map

// settle waits until the victim has reached at least the work of `atLeast` (universe node, -1: none) and the
// scripted peer has seen no request for 1.3 s (more than one worker tick of parallelSync) or is disconnected;
// bounded by d. Returns false if the work target was not reached.
func (r *c11rig) settle(atLeast int, d time.Duration) bool {
	deadline := time.Now().Add(d)
	u := r.c.u
	for {
		reached := atLeast < 0
		if !reached {
			k, ok := u.ByID[r.v.cm.Tip().ID]
			reached = ok && u.Nodes[k].Valid && !heavier(u, atLeast, k)
		}
		gone := len(r.v.s.Peers()) == 0 || (r.h != nil && len(r.v.s.Peers()) == 1 && r.peerIsHonestOnly())
		quiet := r.b.idleFor() > 1300*time.Millisecond || (gone && time.Since(deadline.Add(-d)) > 1500*time.Millisecond)
		if reached && quiet {
			return true
		}
		if time.Now().After(deadline) {
			return reached
		}
		r.c.maintain()
		time.Sleep(5 * time.Millisecond)
	}
}

func (r *c11rig) peerIsHonestOnly() bool {
	for _, p := range r.v.s.Peers() {
		if p.Addr() == r.b.addr {
			return false
		}
	}
	return true
}

// c11info collects per-scenario facts for the evidence (did the corruption fire, was the peer reported, ...).
var c11info sync.Map

// judge applies the common oracles.
func (r *c11rig) judge(desc string, hTip int, reached bool, expectBan string) (string, string) {
	u := r.c.u
	r.name = desc
	r.b.mu.Lock()
	info := map[string]bool{"mutation_fired": r.b.applied, "served_invalid_block": r.b.servedInvalid, "ban_expected": expectBan != "", "peer_requests_seen": len(r.b.seen) > 0}
	r.b.mu.Unlock()
	for _, ban := range r.v.ps.Bans() {
		if strings.HasPrefix(ban, "10.66.0.1") {
			info["scripted_peer_banned"] = true
		}
	}
	if k, ok := u.ByID[r.v.cm.Tip().ID]; ok && k != r.v.startK {
		info["victim_moved"] = true
	}
	c11info.Store(desc, info)
	if a := r.v.audit(); a != "" {
		parts := strings.SplitN(a, "|", 2)
		return strings.Replace(parts[0], "c12:", "c11:", 1), desc + ": " + parts[1]
	}
	if hTip >= 0 && !reached {
		k := u.ByID[r.v.cm.Tip().ID]
		return "c11:honest-chain-not-reached", fmt.Sprintf("%s: after 60 s the victim is on %s (h%d) although its honest peer offers %s (h%d); requests the scripted peer saw: %v; bans: %v", desc, u.Nodes[k].Label, u.Nodes[k].Height, u.Nodes[hTip].Label, u.Nodes[hTip].Height, r.b.requests(), r.v.ps.Bans())
	}
	if r.h != nil {
		for _, ban := range r.v.ps.Bans() {
			if strings.HasPrefix(ban, "10.2.0.1") {
				return "c11:honest-peer-banned", desc + ": the victim banned its honest peer: " + ban
			}
		}
	}
	if expectBan != "" {
		banned := false
		for _, ban := range r.v.ps.Bans() {
			banned = banned || strings.HasPrefix(ban, "10.66.0.1")
		}
		if !banned {
			return "c11:provable-misbehaviour-not-reported:" + expectBan, fmt.Sprintf("%s: the scripted peer %s, but was not reported to the peer store for banning (bans: %v; requests seen: %v)", desc, expectBan, r.v.ps.Bans(), r.b.requests())
		}
	}
	return "", ""
}

// ---- scenarios ----------------------------------------------------------------------------------------------

type c11scn struct {
	Name string
	Run  func() (string, string)
}

func c11Scenarios(thorough bool) []c11scn {
	u, tips := c11Universe()
	var out []c11scn
	type chainT struct {
		tip       string
		positions []string
		starts    []string
	}
	chains := []chainT{{"A14", []string{"A1", "A2", "A3", "A6", "A14"}, []string{"G", "T6", "T9"}}, {"C10", []string{"C1", "C2", "C5", "C10"}, []string{"T9", "T11"}}}
	// S1: the scripted peer claims (and serves honestly) a heavier chain that contains one invalid block
	for _, kind := range univ.Corruptions {
		for _, ch := range chains {
			starts := ch.starts
			for _, pos := range ch.positions {
				cu, ok := univ.Corrupt(u, tips[pos], kind)
				if !ok {
					continue
				}
				for _, start := range starts {
					for _, withH := range []bool{true, false} {
						for _, order := range []string{"BH", "HB"} {
							if !withH && order == "HB" {
								continue
							}
							if !thorough && order == "HB" && pos != "A3" && pos != "C2" {
								continue
							}
							name := fmt.Sprintf("invalid-chain %s@%s start=%s honestPeer=%v order=%s", kind, pos, start, withH, order)
							out = append(out, c11scn{name, func() (string, string) {
								hTip := -1
								if withH {
									hTip = tips["T12"]
								}
								r, err := newC11Rig(cu, tips[start], hTip, tips[ch.tip], nil, order)
								if err != nil {
									return "harness:setup", err.Error()
								}
								defer r.close()
								reached := r.settle(hTip, 60*time.Second)
								expect := ""
								r.b.mu.Lock()
								served := r.b.servedInvalid
								r.b.mu.Unlock()
								if served && !withH {
									// (with an honest peer around, a block request for the honest chain may land on the scripted
									// peer, whose answer is then discarded as not matching - unproven, hence no report expected)
									expect = "served-an-invalid-block"
								}
								return r.judge(name, hTip, reached, expect)
							}})
						}
					}
				}
			}
		}
	}
	// S2: the scripted peer holds a valid heavier chain but corrupts one answer
	for _, m := range c11Mutations(u, tips) {
		for _, ch := range chains {
			if m.RPC == "SendCheckpoint" && ch.tip != "C10" {
				continue // only the branch above the require height is synced through checkpoints
			}
			for _, start := range ch.starts {
				for _, withH := range []bool{true, false} {
					if !thorough && !withH && start != "T6" && start != "T9" {
						continue
					}
					name := fmt.Sprintf("answer-mutation %s (%s #%d) chain=%s start=%s honestPeer=%v", m.Name, m.RPC, m.Nth, ch.tip, start, withH)
					out = append(out, c11scn{name, func() (string, string) {
						hTip := -1
						if withH {
							hTip = tips["T12"]
						}
						mm := m
						r, err := newC11Rig(u, tips[start], hTip, tips[ch.tip], &mm, "BH")
						if err != nil {
							return "harness:setup", err.Error()
						}
						defer r.close()
						reached := r.settle(hTip, 60*time.Second)
						expect := ""
						r.b.mu.Lock()
						fired := r.b.applied
						r.b.mu.Unlock()
						if fired && !withH && (strings.HasPrefix(m.Name, "hdr-insufficient-work") || m.Name == "hdr-timestamp-past") {
							expect = "sent a header that violates consensus (" + m.Name + ")"
						}
						return r.judge(name, hTip, reached, expect)
					}})
				}
			}
		}
	}
	out = append(out, c11Announcements(u, tips, thorough)...)
	out = append(out, c11Rewrites(u, tips)...)
	out = append(out, c11ForgedCheckpoints(u, tips)...)
	out = append(out, c11Requests(u, tips)...)
	return out
}

// ---- runner (child processes, so that a crash of the victim is a reported violation) -------------------------------

type c11line struct {
	Start *int            `json:"start,omitempty"`
	Done  *int            `json:"done,omitempty"`
	Sig   string          `json:"sig,omitempty"`
	What  string          `json:"what,omitempty"`
	Name  string          `json:"name,omitempty"`
	Info  map[string]bool `json:"info,omitempty"`
}

func c11Child(spec string) {
	var shard, of, only int
	only = -1
	if strings.HasPrefix(spec, "only:") {
		fmt.Sscanf(spec, "only:%d", &only)
	} else {
		fmt.Sscanf(spec, "%d/%d", &shard, &of)
	}
	scns := c11Scenarios(os.Getenv("VERIF_TIER_CHILD") == "thorough")
	enc := json.NewEncoder(os.Stdout)
	var mu sync.Mutex
	emit := func(l c11line) { mu.Lock(); enc.Encode(l); mu.Unlock() }
	var wg sync.WaitGroup
	sem := make(chan struct{}, 12)
	for i := range scns {
		if (only >= 0 && i != only) || (only < 0 && i%of != shard) {
			continue
		}
		if f := os.Getenv("VERIF_C11_FILTER"); f != "" && !strings.Contains(scns[i].Name, f) {
			continue
		}
		wg.Add(1)
		sem <- struct{}{}
		go func() {
			defer wg.Done()
			defer func() { <-sem }()
			emit(c11line{Start: &i, Name: scns[i].Name})
			// every wait inside a scenario is bounded except the victim's own Close; a scenario that does
			// not return is a victim that cannot be shut down (or a blocked handler holding it open)
			type res struct{ sig, what string }
			ch := make(chan res, 1)
			go func() {
				sig, what := scns[i].Run()
				ch <- res{sig, what}
			}()
			var sig, what string
			select {
			case r := <-ch:
				sig, what = r.sig, r.what
			case <-time.After(4 * time.Minute):
				var buf bytes.Buffer
				pprof.Lookup("goroutine").WriteTo(&buf, 1)
				dump := buf.String()
				if j := strings.Index(dump, "syncer.(*Syncer).Close"); j >= 0 {
					lo := j - 600
					if lo < 0 {
						lo = 0
					}
					hi := j + 1200
					if hi > len(dump) {
						hi = len(dump)
					}
					dump = dump[lo:hi]
				} else if len(dump) > 2000 {
					dump = dump[:2000]
				}
				sig, what = "c11:scenario-stalled", scns[i].Name+": the scenario did not finish within 4 minutes (all harness waits are bounded; the victim's Close is not): "+dump
			}
			if h, ok := c11hung.Load(scns[i].Name); ok && sig == "" {
				sig, what = "c11:victim-cannot-be-shut-down", scns[i].Name+": "+h.(string)
			}
			var info map[string]bool
			if v, ok := c11info.Load(scns[i].Name); ok {
				info = v.(map[string]bool)
			}
			emit(c11line{Done: &i, Sig: sig, What: what, Name: scns[i].Name, Info: info})
		}()
	}
	wg.Wait()
	os.Exit(0)
}

func c11() {
	exe, err := os.Executable()
	if err != nil {
		ev.HarnessError("c11: %v", err)
	}
	scns := c11Scenarios(run.Thorough())
	const shards = 6
	type res struct {
		started, done map[int]bool
		crashed       bool
		stderr        string
	}
	stats := map[string]int{}
	var smu sync.Mutex
	handle := func(l c11line) {
		if l.Done == nil {
			return
		}
		smu.Lock()
		for k, v := range l.Info {
			if v {
				stats[k]++
			}
		}
		smu.Unlock()
		if strings.HasPrefix(l.Sig, "harness:") {
			run.Violate(l.Sig, l.Name+": "+l.What, nil)
			return
		}
		run.Add(3, 1, 1, 1)
		run.Distinct(l.Name)
		if *l.Done%97 == 0 {
			run.Sample(l.Name)
		}
		if l.Sig != "" {
			run.Violate(l.Sig, l.What, map[string]any{"scenario": l.Name, "index": *l.Done})
		}
	}
	runChild := func(spec string) *res {
		cmd := exec.Command(exe, "-prop", "C11", "-c11-child", spec)
		cmd.Env = append(os.Environ(), "VERIF_TIER_CHILD="+run.Tier)
		var stderr bytes.Buffer
		cmd.Stderr = &stderr
		stdout, _ := cmd.StdoutPipe()
		r := &res{started: map[int]bool{}, done: map[int]bool{}}
		if err := cmd.Start(); err != nil {
			ev.HarnessError("c11 child: %v", err)
		}
		sc := bufio.NewScanner(stdout)
		sc.Buffer(make([]byte, 1<<20), 1<<24)
		for sc.Scan() {
			var l c11line
			if json.Unmarshal(sc.Bytes(), &l) != nil {
				continue
			}
			if l.Start != nil {
				r.started[*l.Start] = true
			}
			if l.Done != nil {
				r.done[*l.Done] = true
				handle(l)
			}
		}
		if err := cmd.Wait(); err != nil {
			r.crashed = true
			r.stderr = stderr.String()
		}
		return r
	}
	var wg sync.WaitGroup
	var mu sync.Mutex
	var suspects []int
	for s := 0; s < shards; s++ {
		wg.Add(1)
		go func() {
			defer wg.Done()
			r := runChild(fmt.Sprintf("%d/%d", s, shards))
			if r.crashed {
				mu.Lock()
				for i := range scns {
					if i%shards == s && !r.done[i] {
						suspects = append(suspects, i)
					}
				}
				mu.Unlock()
			}
		}()
	}
	wg.Wait()
	// scenarios that were in flight (or never reached) when a child died are re-run alone to pin the crash down
	for _, i := range suspects {
		if run.Expired() {
			run.Cap("time budget: not all scenarios of a crashed shard re-run")
			break
		}
		r := runChild(fmt.Sprintf("only:%d", i))
		if r.crashed {
			tail := r.stderr
			if j := strings.Index(tail, "panic:"); j >= 0 {
				tail = tail[j:]
			} else if j := strings.Index(tail, "fatal error:"); j >= 0 {
				tail = tail[j:]
			}
			if len(tail) > 1200 {
				tail = tail[:1200]
			}
			run.Violate("c11:process-crash:"+strings.Fields(scns[i].Name)[0]+" "+strings.Fields(scns[i].Name)[1], fmt.Sprintf("%s: the process running the victim died: %s", scns[i].Name, tail), map[string]any{"scenario": scns[i].Name, "index": i})
		}
	}
	run.Extra["scenarios"] = len(scns)
	run.Extra["scenario_facts"] = stats
	run.Rule = "every scenario of the bounded menu, each against a real victim Syncer+Manager (optionally with a real honest peer on the 12-block trunk) and one scripted peer over an in-memory network: (S1) the scripted peer claims and serves a heavier 14-block branch (forking below the v2 require height, crossing it) in which one block at position 1,2,3,6 or 14 carries one of 17 corruptions (PoW, timestamps, payouts, v2 height/commitment, v1/v2 transactions before/after their heights, bad signatures, double spends, missing parents); victim starting at genesis, at the fork point, or above the require height on the trunk; both connection orders. (S2) a valid heavier branch with exactly one corrupted answer: headers (dropped/swapped/duplicated/insufficient work/foreign/empty with remaining), blocks (fewer/more/swapped/foreign/tampered/empty), checkpoints (every encoded state field perturbed, wrong block, v1 block), closed stream, silence. (S3) announcements: headers/outlines/transaction sets, valid and corrupted, outlines with missing transactions answered honestly/wrongly/not at all. (S4) malformed or out-of-range requests to the victim. (S5) the scripted peer claims the victim's own chain, refuses the first 1-3 header requests so that the victim re-downloads blocks it already has, and serves them with the right ids but altered bodies (payout value, extra payout, v2 height, transactions dropped). distinct = scenarios run"
	run.Explanation = "Oracles: every tip the victim announces (Manager.OnReorg) is a valid block of the universe and strictly heavier than the previous one; the final state equals an independent ledger replay and passes the full best-chain audit; with an honest peer connected the victim ends with at least the honest chain's work within 60 s; the honest peer is never banned; a peer that served a provably invalid block / insufficient work / wrong missing transactions is reported to PeerStore.Ban; the victim process survives (scenarios run in child processes, a crash is attributed by re-running the in-flight scenarios alone). The goroutine schedule inside a scenario is the runtime's; the scripted peer's behaviour is fixed by the scenario."
	run.Assumptions = []string{"one deviation (corrupted block or answer) per scenario", "schedules inside a scenario are not controlled", "reference validity from go.sia.tech/core/consensus via the ledger"}
}
