// overlaygen builds the `go build -overlay` file that binds the verification
// hooks to /repo's *current* working tree. Nothing under /repo is modified.
//
//   - hooks/vsync, hooks/vtime      -> virtual packages go.sia.tech/coreutils/{vsync,vtime}
//   - hooks/export/<pkgdir>/*.go   -> added files <repo>/<pkgdir>/zz_verif_<name>.go (read-only observers)
//   - hooks/rewrites.txt           -> per listed file, a copy of the current repository file in which only
//     the import path of "sync" / "time" is re-pointed at the virtual package
package main

import (
	"encoding/json"
	"fmt"
	"go/parser"
	"go/token"
	"os"
	"path/filepath"
	"strings"
)

func die(format string, a ...any) {
	fmt.Fprintf(os.Stderr, "overlaygen: "+format+"\n", a...)
	os.Exit(2)
}

func main() {
	root := "/verif"
	repo := "/repo"
	if v := os.Getenv("VERIF_ROOT"); v != "" {
		root = v
	}
	if v := os.Getenv("VERIF_REPO"); v != "" {
		repo = v
	}
	out := filepath.Join(root, ".build")
	if len(os.Args) > 1 {
		out = os.Args[1]
	}
	os.MkdirAll(filepath.Join(out, "rewritten"), 0o755)
	replace := map[string]string{}

	for _, vp := range []string{"vsync", "vtime"} {
		files, _ := filepath.Glob(filepath.Join(root, "hooks", vp, "*.go"))
		for _, f := range files {
			replace[filepath.Join(repo, vp, filepath.Base(f))] = f
		}
	}
	filepath.Walk(filepath.Join(root, "hooks", "export"), func(p string, info os.FileInfo, err error) error {
		if err != nil || info.IsDir() || !strings.HasSuffix(p, ".go") {
			return nil
		}
		rel, _ := filepath.Rel(filepath.Join(root, "hooks", "export"), p)
		dir := filepath.Dir(rel)
		if _, err := os.Stat(filepath.Join(repo, dir)); err != nil {
			die("export hook %s targets missing package dir %s", p, dir)
		}
		replace[filepath.Join(repo, dir, "zz_verif_"+filepath.Base(rel))] = p
		return nil
	})

	buf, err := os.ReadFile(filepath.Join(root, "hooks", "rewrites.txt"))
	if err != nil {
		die("%v", err)
	}
	for _, line := range strings.Split(string(buf), "\n") {
		fields := strings.Fields(line)
		if len(fields) < 2 || strings.HasPrefix(fields[0], "#") {
			continue
		}
		src := filepath.Join(repo, fields[0])
		code, err := os.ReadFile(src)
		if err != nil {
			die("rewrite target missing: %v", err)
		}
		fset := token.NewFileSet()
		f, err := parser.ParseFile(fset, src, code, parser.ImportsOnly)
		if err != nil {
			die("rewrite target does not parse: %v", err)
		}
		type edit struct {
			start, end int
			text       string
		}
		var edits []edit
		for _, pkg := range fields[1:] {
			found := false
			for _, imp := range f.Imports {
				if imp.Path.Value == `"`+pkg+`"` {
					if imp.Name != nil {
						die("%s imports %q under a name; unsupported", src, pkg)
					}
					edits = append(edits, edit{fset.Position(imp.Path.Pos()).Offset, fset.Position(imp.Path.End()).Offset,
						pkg + ` "go.sia.tech/coreutils/v` + pkg + `"`})
					found = true
				}
			}
			if !found {
				// the file no longer imports the package: nothing to re-point, keep the file as is
				fmt.Fprintf(os.Stderr, "overlaygen: note: %s does not import %q\n", fields[0], pkg)
			}
		}
		if len(edits) == 0 {
			continue
		}
		// apply edits back to front
		for i := 0; i < len(edits); i++ {
			for j := i + 1; j < len(edits); j++ {
				if edits[j].start > edits[i].start {
					edits[i], edits[j] = edits[j], edits[i]
				}
			}
		}
		for _, e := range edits {
			code = append(code[:e.start:e.start], append([]byte(e.text), code[e.end:]...)...)
		}
		dst := filepath.Join(out, "rewritten", strings.ReplaceAll(fields[0], "/", "__"))
		tmp := dst + fmt.Sprintf(".%d", os.Getpid())
		if err := os.WriteFile(tmp, code, 0o644); err != nil {
			die("%v", err)
		}
		os.Rename(tmp, dst)
		replace[src] = dst
	}
	js, _ := json.MarshalIndent(map[string]any{"Replace": replace}, "", " ")
	tmp := filepath.Join(out, fmt.Sprintf("overlay.json.%d", os.Getpid()))
	if err := os.WriteFile(tmp, js, 0o644); err != nil {
		die("%v", err)
	}
	os.Rename(tmp, filepath.Join(out, "overlay.json"))
}
