module verif

go 1.26.0

require go.sia.tech/coreutils v0.0.0

replace go.sia.tech/coreutils => /repo
