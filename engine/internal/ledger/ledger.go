// Package ledger is the reference ledger: a linear replay of blocks using only
// go.sia.tech/core/consensus and Go maps. It is independent of everything under
// /repo. The same fold (ApplyDiffs/RevertDiffs) is used as the "shadow ledger"
// that a subscriber builds from nothing but the update stream.
package ledger

import (
	"bytes"
	"encoding/hex"
	"fmt"
	"sort"
	"strings"
	"sync"
	"time"

	"go.sia.tech/core/consensus"
	"go.sia.tech/core/types"
)

// Diffs is the part of consensus.ApplyUpdate / RevertUpdate the fold needs.
type Diffs interface {
	SiacoinElementDiffs() []consensus.SiacoinElementDiff
	SiafundElementDiffs() []consensus.SiafundElementDiff
	FileContractElementDiffs() []consensus.FileContractElementDiff
	V2FileContractElementDiffs() []consensus.V2FileContractElementDiff
	UpdateElementProof(e *types.StateElement)
	ChainIndexElement() types.ChainIndexElement
}

// Ledger is the full element state as of State.Index.
type Ledger struct {
	State  consensus.State
	SCEs   map[types.SiacoinOutputID]types.SiacoinElement
	SFEs   map[types.SiafundOutputID]types.SiafundElement
	FCEs   map[types.FileContractID]types.FileContractElement
	V2FCEs map[types.FileContractID]types.V2FileContractElement
	CIEs   map[types.ChainIndex]types.ChainIndexElement
	Exp    map[uint64][]types.FileContractID // v1 expiration lists (append / swap-remove), only maintained by ApplyBlock
	Path   []types.ChainIndex                // indices from genesis to State.Index
	GenTS  time.Time
}

// New returns the ledger before genesis.
func New(n *consensus.Network) *Ledger {
	return &Ledger{
		State:  n.GenesisState(),
		SCEs:   map[types.SiacoinOutputID]types.SiacoinElement{},
		SFEs:   map[types.SiafundOutputID]types.SiafundElement{},
		FCEs:   map[types.FileContractID]types.FileContractElement{},
		V2FCEs: map[types.FileContractID]types.V2FileContractElement{},
		CIEs:   map[types.ChainIndex]types.ChainIndexElement{},
		Exp:    map[uint64][]types.FileContractID{},
	}
}

// Clone deep-copies the ledger (proof slices included).
func (l *Ledger) Clone() *Ledger {
	c := &Ledger{State: l.State, GenTS: l.GenTS,
		SCEs:   make(map[types.SiacoinOutputID]types.SiacoinElement, len(l.SCEs)),
		SFEs:   make(map[types.SiafundOutputID]types.SiafundElement, len(l.SFEs)),
		FCEs:   make(map[types.FileContractID]types.FileContractElement, len(l.FCEs)),
		V2FCEs: make(map[types.FileContractID]types.V2FileContractElement, len(l.V2FCEs)),
		CIEs:   make(map[types.ChainIndex]types.ChainIndexElement, len(l.CIEs)),
		Exp:    make(map[uint64][]types.FileContractID, len(l.Exp)),
		Path:   append([]types.ChainIndex(nil), l.Path...),
	}
	for k, v := range l.SCEs {
		c.SCEs[k] = v.Copy()
	}
	for k, v := range l.SFEs {
		c.SFEs[k] = v.Copy()
	}
	for k, v := range l.FCEs {
		c.FCEs[k] = v.Copy()
	}
	for k, v := range l.V2FCEs {
		c.V2FCEs[k] = v.Copy()
	}
	for k, v := range l.CIEs {
		c.CIEs[k] = v.Copy()
	}
	for k, v := range l.Exp {
		c.Exp[k] = append([]types.FileContractID(nil), v...)
	}
	return c
}

// ApplyDiffs folds the effects of applying a block; next is the post-state.
func (l *Ledger) ApplyDiffs(d Diffs, next consensus.State) {
	for _, sce := range d.SiacoinElementDiffs() {
		switch {
		case sce.Created && sce.Spent:
		case sce.Created:
			l.SCEs[sce.SiacoinElement.ID] = sce.SiacoinElement.Copy()
		case sce.Spent:
			delete(l.SCEs, sce.SiacoinElement.ID)
		}
	}
	for _, sfe := range d.SiafundElementDiffs() {
		switch {
		case sfe.Created && sfe.Spent:
		case sfe.Created:
			l.SFEs[sfe.SiafundElement.ID] = sfe.SiafundElement.Copy()
		case sfe.Spent:
			delete(l.SFEs, sfe.SiafundElement.ID)
		}
	}
	for _, fce := range d.FileContractElementDiffs() {
		switch {
		case fce.Created && fce.Resolved:
		case fce.Resolved:
			delete(l.FCEs, fce.FileContractElement.ID)
		case fce.Revision != nil:
			rev, _ := fce.RevisionElement()
			l.FCEs[fce.FileContractElement.ID] = rev.Copy()
		default:
			l.FCEs[fce.FileContractElement.ID] = fce.FileContractElement.Copy()
		}
	}
	for _, fce := range d.V2FileContractElementDiffs() {
		switch {
		case fce.Created && fce.Resolution != nil:
		case fce.Resolution != nil:
			delete(l.V2FCEs, fce.V2FileContractElement.ID)
		case fce.Revision != nil:
			rev, _ := fce.V2RevisionElement()
			l.V2FCEs[fce.V2FileContractElement.ID] = rev.Copy()
		default:
			l.V2FCEs[fce.V2FileContractElement.ID] = fce.V2FileContractElement.Copy()
		}
	}
	l.updateProofs(d)
	cie := d.ChainIndexElement()
	l.CIEs[cie.ChainIndex] = cie.Copy()
	l.State = next
	l.Path = append(l.Path, next.Index)
}

// RevertDiffs folds the effects of reverting a block; prev is the pre-state.
func (l *Ledger) RevertDiffs(d Diffs, prev consensus.State) {
	for _, sce := range d.SiacoinElementDiffs() {
		switch {
		case sce.Created && sce.Spent:
		case sce.Created:
			delete(l.SCEs, sce.SiacoinElement.ID)
		case sce.Spent:
			l.SCEs[sce.SiacoinElement.ID] = sce.SiacoinElement.Copy()
		}
	}
	for _, sfe := range d.SiafundElementDiffs() {
		switch {
		case sfe.Created && sfe.Spent:
		case sfe.Created:
			delete(l.SFEs, sfe.SiafundElement.ID)
		case sfe.Spent:
			l.SFEs[sfe.SiafundElement.ID] = sfe.SiafundElement.Copy()
		}
	}
	for _, fce := range d.FileContractElementDiffs() {
		switch {
		case fce.Created && fce.Resolved:
		case fce.Resolved, fce.Revision != nil:
			l.FCEs[fce.FileContractElement.ID] = fce.FileContractElement.Copy()
		default:
			delete(l.FCEs, fce.FileContractElement.ID)
		}
	}
	for _, fce := range d.V2FileContractElementDiffs() {
		switch {
		case fce.Created && fce.Resolution != nil:
		case fce.Resolution != nil, fce.Revision != nil:
			l.V2FCEs[fce.V2FileContractElement.ID] = fce.V2FileContractElement.Copy()
		default:
			delete(l.V2FCEs, fce.V2FileContractElement.ID)
		}
	}
	delete(l.CIEs, l.State.Index)
	l.updateProofs(d)
	l.State = prev
	if len(l.Path) > 0 {
		l.Path = l.Path[:len(l.Path)-1]
	}
}

func (l *Ledger) updateProofs(d Diffs) {
	for id, e := range l.SCEs {
		d.UpdateElementProof(&e.StateElement)
		l.SCEs[id] = e
	}
	for id, e := range l.SFEs {
		d.UpdateElementProof(&e.StateElement)
		l.SFEs[id] = e
	}
	for id, e := range l.FCEs {
		d.UpdateElementProof(&e.StateElement)
		l.FCEs[id] = e
	}
	for id, e := range l.V2FCEs {
		d.UpdateElementProof(&e.StateElement)
		l.V2FCEs[id] = e
	}
	for id, e := range l.CIEs {
		d.UpdateElementProof(&e.StateElement)
		l.CIEs[id] = e
	}
}

// AncestorTimestamp is the target timestamp consensus.ApplyBlock needs for a child of the tip.
func (l *Ledger) AncestorTimestamp() time.Time {
	if l.State.Index.Height > l.State.Network.HardforkOak.Height {
		return time.Time{}
	}
	return l.GenTS // chains here are far shorter than the ancestor depth
}

// TxnSupplement builds the v1 supplement for txn from the ledger's own maps.
func (l *Ledger) TxnSupplement(txn types.Transaction) (ts consensus.V1TransactionSupplement) {
	if l.State.Index.Height+1 > l.State.Network.HardforkV2.RequireHeight || l.State.Index.Height >= l.State.Network.HardforkV2.RequireHeight {
		return
	}
	for _, sci := range txn.SiacoinInputs {
		if e, ok := l.SCEs[sci.ParentID]; ok {
			ts.SiacoinInputs = append(ts.SiacoinInputs, e.Copy())
		}
	}
	for _, sfi := range txn.SiafundInputs {
		if e, ok := l.SFEs[sfi.ParentID]; ok {
			ts.SiafundInputs = append(ts.SiafundInputs, e.Copy())
		}
	}
	for _, fcr := range txn.FileContractRevisions {
		if e, ok := l.FCEs[fcr.ParentID]; ok {
			ts.RevisedFileContracts = append(ts.RevisedFileContracts, e.Copy())
		}
	}
	for _, sp := range txn.StorageProofs {
		if e, ok := l.FCEs[sp.ParentID]; ok {
			if h := e.FileContract.WindowStart - 1; h < uint64(len(l.Path)) {
				ts.StorageProofs = append(ts.StorageProofs, consensus.V1StorageProofSupplement{FileContract: e.Copy(), WindowID: l.Path[h].ID})
			}
		}
	}
	return
}

// Supplement builds the v1 block supplement for a child block b of the tip.
func (l *Ledger) Supplement(b types.Block) consensus.V1BlockSupplement {
	bs := consensus.V1BlockSupplement{Transactions: make([]consensus.V1TransactionSupplement, len(b.Transactions))}
	// consensus requires an empty supplement for every block at or above the require height (child height!):
	// v1 contracts whose window ends there are never expired
	if l.State.Index.Height+1 >= l.State.Network.HardforkV2.RequireHeight && len(l.Path) > 0 {
		return bs
	}
	for i, txn := range b.Transactions {
		bs.Transactions[i] = l.TxnSupplement(txn)
	}
	for _, id := range l.Exp[l.State.Index.Height+1] {
		if e, ok := l.FCEs[id]; ok {
			bs.ExpiringFileContracts = append(bs.ExpiringFileContracts, e.Copy())
		}
	}
	return bs
}

// ApplyBlock validates b against the tip and returns the successor ledger.
func (l *Ledger) ApplyBlock(b types.Block) (*Ledger, consensus.ApplyUpdate, error) {
	n := l.Clone()
	if len(l.Path) == 0 { // genesis
		bs := consensus.V1BlockSupplement{Transactions: make([]consensus.V1TransactionSupplement, len(b.Transactions))}
		cs, cau := consensus.ApplyBlock(l.State, b, bs, time.Time{})
		n.GenTS = b.Timestamp
		n.applyExp(cau)
		n.ApplyDiffs(cau, cs)
		return n, cau, nil
	}
	bs := l.Supplement(b)
	if err := consensus.ValidateBlock(l.State, b, bs); err != nil {
		return nil, consensus.ApplyUpdate{}, err
	}
	cs, cau := consensus.ApplyBlock(l.State, b, bs, l.AncestorTimestamp())
	n.applyExp(cau)
	n.ApplyDiffs(cau, cs)
	return n, cau, nil
}

// applyExp maintains the expiration lists with the linear discipline:
// creation appends, removal is swap-remove.
func (l *Ledger) applyExp(cau consensus.ApplyUpdate) {
	if l.State.Index.Height+1 > l.State.Network.HardforkV2.RequireHeight && len(l.Path) > 0 {
		return
	}
	remove := func(h uint64, id types.FileContractID) {
		lst := l.Exp[h]
		for i := range lst {
			if lst[i] == id {
				lst[i] = lst[len(lst)-1]
				l.Exp[h] = lst[:len(lst)-1]
				return
			}
		}
	}
	for _, d := range cau.FileContractElementDiffs() {
		fc := d.FileContractElement
		switch {
		case d.Created && d.Resolved:
		case d.Resolved:
			// the diff of a block that revises and resolves the contract carries the revised
			// contract: the entry is filed under the window end the contract had before the block
			for h, lst := range l.Exp {
				for _, id := range lst {
					if id == fc.ID {
						remove(h, fc.ID)
						break
					}
				}
			}
		case d.Revision != nil:
			if d.Revision.WindowEnd != fc.FileContract.WindowEnd {
				remove(fc.FileContract.WindowEnd, fc.ID)
				l.Exp[d.Revision.WindowEnd] = append(l.Exp[d.Revision.WindowEnd], fc.ID)
			}
		default:
			l.Exp[fc.FileContract.WindowEnd] = append(l.Exp[fc.FileContract.WindowEnd], fc.ID)
		}
	}
}

func enc(v types.EncoderTo) []byte {
	var buf bytes.Buffer
	e := types.NewEncoder(&buf)
	v.EncodeTo(e)
	e.Flush()
	return buf.Bytes()
}

// Canon renders the element sets canonically (sorted by id, proofs included). Ledgers held by a
// universe are immutable, so the result may be cached by the caller (see CanonCached).
func (l *Ledger) Canon(withProofs bool) string {
	var lines []string
	var buf bytes.Buffer
	e := types.NewEncoder(&buf)
	add := func(kind byte, id []byte, se types.StateElement, body types.EncoderTo, extra uint64) {
		buf.Reset()
		e.Reset(&buf)
		e.WriteUint8(kind)
		e.Write(id)
		e.WriteUint64(se.LeafIndex)
		body.EncodeTo(e)
		e.WriteUint64(extra)
		if withProofs {
			e.WriteUint64(uint64(len(se.MerkleProof)))
			for _, h := range se.MerkleProof {
				h.EncodeTo(e)
			}
		}
		e.Flush()
		lines = append(lines, hex.EncodeToString(buf.Bytes()))
	}
	for id, el := range l.SCEs {
		add('c', id[:], el.StateElement, types.V2SiacoinOutput(el.SiacoinOutput), el.MaturityHeight)
	}
	for id, el := range l.SFEs {
		add('f', id[:], el.StateElement, types.EncoderFunc(func(e *types.Encoder) {
			types.V2SiafundOutput(el.SiafundOutput).EncodeTo(e)
			types.V2Currency(el.ClaimStart).EncodeTo(e)
		}), 0)
	}
	for id, el := range l.FCEs {
		add('1', id[:], el.StateElement, el.FileContract, 0)
	}
	for id, el := range l.V2FCEs {
		add('2', id[:], el.StateElement, el.V2FileContract, 0)
	}
	sort.Strings(lines)
	return fmt.Sprintf("tip=%v leaves=%d\n", l.State.Index, l.State.Elements.NumLeaves) + strings.Join(lines, "\n") + "\n"
}

var canonCache sync.Map // *Ledger -> string

// CanonCached is Canon(true) memoised per ledger pointer (only for ledgers that are never mutated).
func (l *Ledger) CanonCached() string {
	if v, ok := canonCache.Load(l); ok {
		return v.(string)
	}
	s := l.Canon(true)
	canonCache.Store(l, s)
	return s
}

// VerifyProofs checks every stored element against the tip accumulator by building
// a v2 transaction that references it and calling ValidateTransactionElements.
func (l *Ledger) VerifyProofs() error {
	for id, e := range l.SCEs {
		txn := types.V2Transaction{SiacoinInputs: []types.V2SiacoinInput{{Parent: e.Copy()}}}
		if err := l.State.Elements.ValidateTransactionElements(txn); err != nil {
			return fmt.Errorf("siacoin element %v: %w", id, err)
		}
	}
	for id, e := range l.SFEs {
		txn := types.V2Transaction{SiafundInputs: []types.V2SiafundInput{{Parent: e.Copy()}}}
		if err := l.State.Elements.ValidateTransactionElements(txn); err != nil {
			return fmt.Errorf("siafund element %v: %w", id, err)
		}
	}
	for id, e := range l.V2FCEs {
		txn := types.V2Transaction{FileContractRevisions: []types.V2FileContractRevision{{Parent: e.Copy()}}}
		if err := l.State.Elements.ValidateTransactionElements(txn); err != nil {
			return fmt.Errorf("v2 contract element %v: %w", id, err)
		}
	}
	return nil
}
