// Package kvx enumerates operation sequences over chain.DB backends and compares
// every observation with a two-map reference model (committed + session view).
package kvx

import (
	"fmt"
	"os"
	"path/filepath"
	"sort"
	"strings"
	"time"

	bolt "go.etcd.io/bbolt"
	"go.sia.tech/coreutils"
	"go.sia.tech/coreutils/chain"
)

var (
	Buckets = []string{"B1", "B2"}
	Keys    = []string{"k1", "k2"}
	Values  = []string{"a", "b", "", nilValue}
)

// Op is one operation of the alphabet.
type Op struct {
	Kind   string // create put del iterdel flush cancel reopen
	Bucket int
	Key    int
	Val    int
}

func (o Op) String() string {
	switch o.Kind {
	case "create":
		return "create(" + Buckets[o.Bucket] + ")"
	case "put":
		return fmt.Sprintf("put(%s,%s,%q)", Buckets[o.Bucket], Keys[o.Key], Values[o.Val])
	case "del":
		return fmt.Sprintf("del(%s,%s)", Buckets[o.Bucket], Keys[o.Key])
	case "iterdel":
		return "iterate-and-delete(" + Buckets[o.Bucket] + ")"
	}
	return o.Kind
}

// nilValue marks a put with a nil slice.
const nilValue = "<nil>"

// Alphabet returns the operation alphabet, simplest first.
func Alphabet(reopen bool) []Op {
	var ops []Op
	for b := range Buckets {
		ops = append(ops, Op{Kind: "create", Bucket: b})
	}
	ops = append(ops, Op{Kind: "flush"}, Op{Kind: "cancel"})
	for b := range Buckets {
		for k := range Keys {
			for v := range Values {
				ops = append(ops, Op{Kind: "put", Bucket: b, Key: k, Val: v})
			}
		}
	}
	for b := range Buckets {
		for k := range Keys {
			ops = append(ops, Op{Kind: "del", Bucket: b, Key: k})
		}
	}
	// delete every key while iterating over the bucket (the pattern of chain/migrate.go)
	for b := range Buckets {
		ops = append(ops, Op{Kind: "iterdel", Bucket: b})
	}
	if reopen {
		ops = append(ops, Op{Kind: "reopen"})
	}
	return ops
}

// Model is the reference: committed state and the session's view.
type Model struct {
	committed map[string]map[string]string
	view      map[string]map[string]string
	visited   []string // keys the last iterate-and-delete must have visited
}

func cloneKV(m map[string]map[string]string) map[string]map[string]string {
	c := make(map[string]map[string]string, len(m))
	for b, kv := range m {
		c[b] = make(map[string]string, len(kv))
		for k, v := range kv {
			c[b][k] = v
		}
	}
	return c
}

// NewModel returns an empty model.
func NewModel() *Model {
	return &Model{committed: map[string]map[string]string{}, view: map[string]map[string]string{}}
}

// Applicable reports whether op can be issued (put/del need an existing bucket).
func (m *Model) Applicable(o Op) bool {
	if o.Kind == "put" || o.Kind == "del" || o.Kind == "iterdel" {
		return m.view[Buckets[o.Bucket]] != nil
	}
	return true
}

// Apply applies op to the model; returns whether an error is expected.
func (m *Model) Apply(o Op) (wantErr bool) {
	switch o.Kind {
	case "create":
		if m.view[Buckets[o.Bucket]] != nil {
			return true
		}
		m.view[Buckets[o.Bucket]] = map[string]string{}
	case "put":
		v := Values[o.Val]
		if v == nilValue {
			v = ""
		}
		m.view[Buckets[o.Bucket]][Keys[o.Key]] = v
	case "del":
		delete(m.view[Buckets[o.Bucket]], Keys[o.Key])
	case "iterdel":
		m.visited = m.visited[:0]
		for k := range m.view[Buckets[o.Bucket]] {
			m.visited = append(m.visited, k)
		}
		sort.Strings(m.visited)
		m.view[Buckets[o.Bucket]] = map[string]string{}
	case "flush", "reopen":
		m.committed = cloneKV(m.view)
	case "cancel":
		m.view = cloneKV(m.committed)
	}
	return false
}

// Observe renders everything observable through the DB interface.
func (m *Model) Observe() string {
	var sb strings.Builder
	for _, b := range Buckets {
		kv := m.view[b]
		if kv == nil {
			sb.WriteString(b + ":nil;")
			continue
		}
		sb.WriteString(b + ":{get:")
		for _, k := range Keys {
			fmt.Fprintf(&sb, "%s=%q,", k, kv[k])
		}
		sb.WriteString("iter:")
		var ks []string
		for k := range kv {
			ks = append(ks, k)
		}
		sort.Strings(ks)
		for _, k := range ks {
			fmt.Fprintf(&sb, "%s=%q,", k, kv[k])
		}
		sb.WriteString("};")
	}
	return sb.String()
}

// ObserveDB renders the same for a backend. Get results are compared as byte
// strings (nil and empty are not distinguished: the DBBucket contract does not);
// Iter results as a sorted list, duplicates kept (a duplicate key is a defect).
func ObserveDB(db chain.DB) string {
	var sb strings.Builder
	for _, b := range Buckets {
		bk := db.Bucket([]byte(b))
		if bk == nil {
			sb.WriteString(b + ":nil;")
			continue
		}
		sb.WriteString(b + ":{get:")
		for _, k := range Keys {
			fmt.Fprintf(&sb, "%s=%q,", k, string(bk.Get([]byte(k))))
		}
		sb.WriteString("iter:")
		var kvs []string
		for k, v := range bk.Iter() {
			kvs = append(kvs, fmt.Sprintf("%s=%q,", string(k), string(v)))
		}
		sort.Strings(kvs)
		for _, s := range kvs {
			sb.WriteString(s)
		}
		sb.WriteString("};")
	}
	return sb.String()
}

// Backend is a DB under test.
type Backend struct {
	Name   string
	New    func(dir string) (chain.DB, func(), error)
	Reopen bool
}

func openBolt(path string) (*coreutils.BoltChainDB, error) {
	bdb, err := bolt.Open(path, 0o600, &bolt.Options{NoSync: true, NoFreelistSync: true, Timeout: 10 * time.Second})
	if err != nil {
		return nil, err
	}
	return coreutils.NewBoltChainDB(bdb), nil
}

// boltHandle lets "reopen" swap the underlying database.
type boltHandle struct {
	path  string
	db    *coreutils.BoltChainDB
	cache bool
	chain.DB
}

func (h *boltHandle) reopen() error {
	// BoltChainDB.Close commits the open transaction; a CacheDB has no Close of its
	// own, so its overlay is flushed first (this is what "close" means for the wrapper).
	if h.cache {
		if err := h.DB.Flush(); err != nil {
			return err
		}
	}
	if err := h.db.Close(); err != nil {
		return err
	}
	db, err := openBolt(h.path)
	if err != nil {
		return err
	}
	h.db = db
	h.DB = db
	if h.cache {
		h.DB = chain.NewCacheDB(db)
	}
	return nil
}

// Backends lists the backends under test.
func Backends() []Backend {
	mem := func(wrap int) func(string) (chain.DB, func(), error) {
		return func(string) (chain.DB, func(), error) {
			var db chain.DB = chain.NewMemDB()
			for i := 0; i < wrap; i++ {
				db = chain.NewCacheDB(db)
			}
			return db, func() {}, nil
		}
	}
	bolt := func(cache bool) func(string) (chain.DB, func(), error) {
		return func(dir string) (chain.DB, func(), error) {
			path := filepath.Join(dir, "kv.db")
			os.Remove(path)
			db, err := openBolt(path)
			if err != nil {
				return nil, nil, err
			}
			h := &boltHandle{path: path, db: db, cache: cache, DB: db}
			if cache {
				h.DB = chain.NewCacheDB(db)
			}
			return h, func() { h.db.Cancel(); h.db.Close(); os.Remove(path) }, nil
		}
	}
	return []Backend{
		{Name: "MemDB", New: mem(0)},
		{Name: "CacheDB(MemDB)", New: mem(1)},
		{Name: "CacheDB(CacheDB(MemDB))", New: mem(2)},
		{Name: "BoltChainDB", New: bolt(false), Reopen: true},
		{Name: "CacheDB(BoltChainDB)", New: bolt(true), Reopen: true},
	}
}

// Mismatch describes the first disagreement of a sequence.
type Mismatch struct {
	Step int
	Kind string // "observe" | "error" | "panic"
	Got  string
	Want string
}

// RunSeq executes seq on a fresh backend instance, observing after every op.
func RunSeq(be Backend, dir string, seq []Op) (mm *Mismatch) {
	db, cleanup, err := be.New(dir)
	if err != nil {
		return &Mismatch{Step: -1, Kind: "open", Got: err.Error()}
	}
	step := 0
	defer func() {
		if r := recover(); r != nil {
			mm = &Mismatch{Step: step, Kind: "panic", Got: fmt.Sprint(r)}
		}
		func() {
			defer func() { recover() }()
			cleanup()
		}()
	}()
	m := NewModel()
	for i, o := range seq {
		step = i
		wantErr := m.Apply(o)
		var gotErr error
		switch o.Kind {
		case "create":
			_, gotErr = db.CreateBucket([]byte(Buckets[o.Bucket]))
		case "put":
			val := []byte(Values[o.Val])
			if Values[o.Val] == nilValue {
				val = nil // a nil slice, which every backend must treat like an empty value
			}
			gotErr = db.Bucket([]byte(Buckets[o.Bucket])).Put([]byte(Keys[o.Key]), val)
		case "del":
			gotErr = db.Bucket([]byte(Buckets[o.Bucket])).Delete([]byte(Keys[o.Key]))
		case "iterdel":
			bk := db.Bucket([]byte(Buckets[o.Bucket]))
			var visited []string
			for k := range bk.Iter() {
				key := append([]byte(nil), k...)
				visited = append(visited, string(key))
				if err := bk.Delete(key); err != nil && gotErr == nil {
					gotErr = err
				}
			}
			sort.Strings(visited)
			if got, want := fmt.Sprint(visited), fmt.Sprint(m.visited); got != want {
				return &Mismatch{Step: i, Kind: "observe", Got: "iteration with deletion of each visited key visited " + got, Want: "every key once: " + want}
			}
		case "flush":
			gotErr = db.Flush()
		case "cancel":
			db.Cancel()
		case "reopen":
			gotErr = db.(*boltHandle).reopen()
		}
		if (gotErr != nil) != wantErr {
			return &Mismatch{Step: i, Kind: "error", Got: fmt.Sprint(gotErr), Want: fmt.Sprintf("error expected: %v", wantErr)}
		}
		if got, want := ObserveDB(db), m.Observe(); got != want {
			return &Mismatch{Step: i, Kind: "observe", Got: got, Want: want}
		}
	}
	return nil
}

// Enumerate calls fn for every applicable sequence of exactly length n that
// starts with prefix (sequences containing an inapplicable op are skipped: they
// are equivalent to a shorter sequence).
func Enumerate(alpha []Op, prefix []Op, n int, fn func(seq []Op) bool) bool {
	m := NewModel()
	for _, o := range prefix {
		if !m.Applicable(o) {
			return true
		}
		m.Apply(o)
	}
	seq := append([]Op(nil), prefix...)
	var rec func(m *Model) bool
	rec = func(m *Model) bool {
		if len(seq) == n {
			return fn(seq)
		}
		for _, o := range alpha {
			if !m.Applicable(o) {
				continue
			}
			m2 := &Model{committed: m.committed, view: cloneKV(m.view)}
			if o.Kind == "cancel" || o.Kind == "flush" || o.Kind == "reopen" {
				m2.committed = cloneKV(m.committed)
			}
			m2.Apply(o)
			seq = append(seq, o)
			ok := rec(m2)
			seq = seq[:len(seq)-1]
			if !ok {
				return false
			}
		}
		return true
	}
	return rec(m)
}
