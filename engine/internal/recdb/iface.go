package recdb

import "go.sia.tech/coreutils/chain"

// Bucket implements chain.DB.
func (db *DB) Bucket(name []byte) chain.DBBucket {
	if b := db.bucketOrNil(name); b != nil {
		return b
	}
	return nil
}

// CreateBucket implements chain.DB.
func (db *DB) CreateBucket(name []byte) (chain.DBBucket, error) {
	b, err := db.createBucket(name)
	if err != nil {
		return nil, err
	}
	return b, nil
}

var _ chain.DB = (*DB)(nil)
