// Package recdb is the harness's own chain.DB: an ordered in-memory store with a
// correct session overlay that can snapshot the committed image at every Flush.
package recdb

import (
	"bytes"
	"crypto/sha256"
	"errors"
	"iter"
	"sort"
)

// Image is a committed database image.
type Image map[string]map[string][]byte

// Clone deep-copies an image.
func (im Image) Clone() Image {
	c := make(Image, len(im))
	for b, kv := range im {
		m := make(map[string][]byte, len(kv))
		for k, v := range kv {
			m[k] = v // values are immutable once stored
		}
		c[b] = m
	}
	return c
}

// DB implements chain.DB.
type DB struct {
	committed Image
	cur       Image
	dirty     bool
	Flushes   int
	OnFlush   func(img Image) // called with a private copy of the committed image
}

// New returns an empty DB.
func New() *DB { return &DB{committed: Image{}, cur: Image{}} }

// FromImage returns a DB whose committed state is img.
func FromImage(img Image) *DB { return &DB{committed: img.Clone(), cur: img.Clone()} }

type bucket struct {
	db   *DB
	name string
}

// Bucket implements chain.DB. (Declared with the chain.DBBucket method set.)
func (db *DB) bucketOrNil(name []byte) *bucket {
	if db.cur[string(name)] == nil {
		return nil
	}
	return &bucket{db, string(name)}
}

func (b *bucket) Get(key []byte) []byte {
	v, ok := b.db.cur[b.name][string(key)]
	if !ok {
		return nil
	}
	return append(make([]byte, 0, len(v)), v...) // cap == len: appends by the caller never alias stored data
}

func (b *bucket) Put(key, value []byte) error {
	b.db.cur[b.name][string(key)] = append(make([]byte, 0, len(value)), value...)
	b.db.dirty = true
	return nil
}

func (b *bucket) Delete(key []byte) error {
	delete(b.db.cur[b.name], string(key))
	b.db.dirty = true
	return nil
}

func (b *bucket) Iter() iter.Seq2[[]byte, []byte] {
	return func(yield func([]byte, []byte) bool) {
		kv := b.db.cur[b.name]
		keys := make([]string, 0, len(kv))
		for k := range kv {
			keys = append(keys, k)
		}
		sort.Strings(keys)
		for _, k := range keys {
			if !yield([]byte(k), append([]byte(nil), kv[k]...)) {
				return
			}
		}
	}
}

// CreateBucketRaw creates a bucket.
func (db *DB) createBucket(name []byte) (*bucket, error) {
	if db.cur[string(name)] != nil {
		return nil, errors.New("bucket already exists")
	}
	db.cur[string(name)] = map[string][]byte{}
	db.dirty = true
	return &bucket{db, string(name)}, nil
}

// Flush implements chain.DB.
func (db *DB) Flush() error {
	db.committed = db.cur.Clone()
	db.dirty = false
	db.Flushes++
	if db.OnFlush != nil {
		db.OnFlush(db.committed.Clone())
	}
	return nil
}

// Cancel implements chain.DB.
func (db *DB) Cancel() {
	db.cur = db.committed.Clone()
	db.dirty = false
}

// Committed returns a copy of the committed image.
func (db *DB) Committed() Image { return db.committed.Clone() }

// Current returns the session view (not a copy; read-only).
func (db *DB) Current() Image { return db.cur }

func dumpImage(h interface{ Write([]byte) (int, error) }, im Image, skip map[string]bool) {
	var bs []string
	for b := range im {
		if !skip[b] {
			bs = append(bs, b)
		}
	}
	sort.Strings(bs)
	for _, b := range bs {
		h.Write([]byte("B:" + b + "\n"))
		kv := im[b]
		keys := make([]string, 0, len(kv))
		for k := range kv {
			keys = append(keys, k)
		}
		sort.Strings(keys)
		for _, k := range keys {
			h.Write([]byte{byte(len(k))})
			h.Write([]byte(k))
			h.Write(kv[k])
			h.Write([]byte{0xff, 0x00})
		}
	}
}

// Hash returns a hash of the session view. The committed image is deliberately left out: it only
// matters on Cancel/reopen (explored separately by the crash checks) and when it is written depends
// on the store's wall-clock flush trigger.
func (db *DB) Hash() [32]byte {
	h := sha256.New()
	dumpImage(h, db.cur, nil)
	var out [32]byte
	copy(out[:], h.Sum(nil))
	return out
}

// CloneDB returns an independent copy (committed image, session view and hooks not included).
func (db *DB) CloneDB() *DB {
	return &DB{committed: db.committed.Clone(), cur: db.cur.Clone(), dirty: db.dirty}
}

// DumpSession renders the session view as bytes, skipping the named buckets.
func (db *DB) DumpSession(skip ...string) []byte {
	var buf bytes.Buffer
	m := map[string]bool{}
	for _, s := range skip {
		m[s] = true
	}
	dumpImage(&buf, db.cur, m)
	return buf.Bytes()
}
