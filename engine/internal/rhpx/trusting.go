package rhpx

import (
	"errors"
	"sync"

	proto4 "go.sia.tech/core/rhp/v4"
	"go.sia.tech/core/types"
	rhp "go.sia.tech/coreutils/rhp/v4"
)

// TrustingContractor is a minimal rhp.Contractor that stores what the server hands it without
// re-checking signatures or revision numbers (as a production contractor that trusts the RPC layer
// would). Semantics otherwise follow the interface documentation: try-lock per contract, debit own
// balance first then attached pools in attachment order, pools auto-create on first credit.
type TrustingContractor struct {
	mu        sync.Mutex
	contracts map[types.FileContractID]types.V2FileContract
	roots     map[types.FileContractID][]types.Hash256
	locks     map[types.FileContractID]bool
	accounts  map[proto4.Account]types.Currency
	pools     map[proto4.Account]types.Currency
	attached  map[proto4.Account][]proto4.Account
	Blocking  bool // LockV2Contract waits instead of failing
	cond      *sync.Cond
}

// NewTrustingContractor returns an empty contractor.
func NewTrustingContractor() *TrustingContractor {
	c := &TrustingContractor{contracts: map[types.FileContractID]types.V2FileContract{}, roots: map[types.FileContractID][]types.Hash256{}, locks: map[types.FileContractID]bool{},
		accounts: map[proto4.Account]types.Currency{}, pools: map[proto4.Account]types.Currency{}, attached: map[proto4.Account][]proto4.Account{}}
	c.cond = sync.NewCond(&c.mu)
	return c
}

func (c *TrustingContractor) LockV2Contract(id types.FileContractID) (rhp.RevisionState, func(), error) {
	c.mu.Lock()
	defer c.mu.Unlock()
	for c.locks[id] {
		if !c.Blocking {
			return rhp.RevisionState{}, nil, errors.New("contract already locked")
		}
		c.cond.Wait()
	}
	rev, ok := c.contracts[id]
	if !ok {
		return rhp.RevisionState{}, nil, errors.New("contract not found")
	}
	c.locks[id] = true
	_, renewed := c.contracts[id.V2RenewalID()]
	var once sync.Once
	return rhp.RevisionState{Revision: rev, Revisable: !renewed, Renewed: renewed, Roots: append([]types.Hash256(nil), c.roots[id]...)}, func() {
		once.Do(func() {
			c.mu.Lock()
			c.locks[id] = false
			c.cond.Broadcast()
			c.mu.Unlock()
		})
	}, nil
}

func (c *TrustingContractor) AddV2Contract(ts rhp.TransactionSet, _ proto4.Usage) error {
	c.mu.Lock()
	defer c.mu.Unlock()
	if len(ts.Transactions) == 0 || len(ts.Transactions[len(ts.Transactions)-1].FileContracts) != 1 {
		return errors.New("expected one contract")
	}
	t := ts.Transactions[len(ts.Transactions)-1]
	id := t.V2FileContractID(t.ID(), 0)
	if _, ok := c.contracts[id]; ok {
		return errors.New("contract already exists")
	}
	c.contracts[id] = t.FileContracts[0]
	c.roots[id] = nil
	return nil
}

func (c *TrustingContractor) RenewV2Contract(ts rhp.TransactionSet, _ proto4.Usage) error {
	c.mu.Lock()
	defer c.mu.Unlock()
	if len(ts.Transactions) == 0 || len(ts.Transactions[len(ts.Transactions)-1].FileContractResolutions) != 1 {
		return errors.New("expected one resolution")
	}
	res := ts.Transactions[len(ts.Transactions)-1].FileContractResolutions[0]
	r, ok := res.Resolution.(*types.V2FileContractRenewal)
	if !ok {
		return errors.New("expected renewal")
	}
	old := types.FileContractID(res.Parent.ID)
	if _, ok := c.contracts[old]; !ok {
		return errors.New("contract not found")
	}
	c.contracts[old.V2RenewalID()] = r.NewContract
	c.roots[old.V2RenewalID()] = append([]types.Hash256(nil), c.roots[old]...)
	return nil
}

func (c *TrustingContractor) ReviseV2Contract(id types.FileContractID, rev types.V2FileContract, roots []types.Hash256, _ proto4.Usage) error {
	c.mu.Lock()
	defer c.mu.Unlock()
	if _, ok := c.contracts[id]; !ok {
		return errors.New("contract not found")
	}
	c.contracts[id] = rev
	c.roots[id] = append([]types.Hash256(nil), roots...)
	return nil
}

func (c *TrustingContractor) V2FileContractElement(types.FileContractID) (types.ChainIndex, types.V2FileContractElement, error) {
	return types.ChainIndex{}, types.V2FileContractElement{}, errors.New("not tracked")
}

func (c *TrustingContractor) AccountBalance(a proto4.Account) (types.Currency, error) {
	c.mu.Lock()
	defer c.mu.Unlock()
	return c.accounts[a], nil
}

func (c *TrustingContractor) AccountBalances(as []proto4.Account) ([]types.Currency, error) {
	c.mu.Lock()
	defer c.mu.Unlock()
	out := make([]types.Currency, len(as))
	for i, a := range as {
		out[i] = c.accounts[a]
	}
	return out, nil
}

func (c *TrustingContractor) credit(m map[proto4.Account]types.Currency, d []proto4.AccountDeposit, id types.FileContractID, rev types.V2FileContract) ([]types.Currency, error) {
	c.mu.Lock()
	defer c.mu.Unlock()
	if _, ok := c.contracts[id]; !ok {
		return nil, errors.New("contract not found")
	}
	out := make([]types.Currency, len(d))
	for i, dep := range d {
		m[dep.Account] = m[dep.Account].Add(dep.Amount)
		out[i] = m[dep.Account]
	}
	c.contracts[id] = rev
	return out, nil
}

func (c *TrustingContractor) CreditAccountsWithContract(d []proto4.AccountDeposit, id types.FileContractID, rev types.V2FileContract, _ proto4.Usage) ([]types.Currency, error) {
	return c.credit(c.accounts, d, id, rev)
}

func (c *TrustingContractor) CreditPoolsWithContract(d []proto4.AccountDeposit, id types.FileContractID, rev types.V2FileContract, _ proto4.Usage) ([]types.Currency, error) {
	return c.credit(c.pools, d, id, rev)
}

func (c *TrustingContractor) DebitAccount(a proto4.Account, u proto4.Usage) error {
	c.mu.Lock()
	defer c.mu.Unlock()
	cost := u.RenterCost()
	draw := c.accounts[a]
	for _, p := range c.attached[a] {
		draw = draw.Add(c.pools[p])
	}
	if draw.Cmp(cost) < 0 {
		return proto4.ErrNotEnoughFunds
	}
	take := func(m map[proto4.Account]types.Currency, k proto4.Account) {
		t := m[k]
		if t.Cmp(cost) > 0 {
			t = cost
		}
		m[k] = m[k].Sub(t)
		cost = cost.Sub(t)
	}
	take(c.accounts, a)
	for _, p := range c.attached[a] {
		take(c.pools, p)
	}
	return nil
}

func (c *TrustingContractor) PoolBalances(ps []proto4.Account) ([]types.Currency, error) {
	c.mu.Lock()
	defer c.mu.Unlock()
	out := make([]types.Currency, len(ps))
	for i, p := range ps {
		out[i] = c.pools[p]
	}
	return out, nil
}

func (c *TrustingContractor) AttachPools(as []proto4.PoolAttachment) error {
	c.mu.Lock()
	defer c.mu.Unlock()
	for _, a := range as {
		if _, ok := c.pools[a.Pool]; !ok {
			return proto4.ErrPoolNotFound
		}
	}
	for _, a := range as {
		dup := false
		for _, p := range c.attached[a.Account] {
			dup = dup || p == a.Pool
		}
		if !dup {
			c.attached[a.Account] = append(c.attached[a.Account], a.Pool)
		}
	}
	return nil
}

func (c *TrustingContractor) DetachPools(ds []proto4.PoolDetachment) error {
	c.mu.Lock()
	defer c.mu.Unlock()
	for _, d := range ds {
		var rest []proto4.Account
		for _, p := range c.attached[d.Account] {
			if p != d.Pool {
				rest = append(rest, p)
			}
		}
		c.attached[d.Account] = rest
	}
	return nil
}

var _ rhp.Contractor = (*TrustingContractor)(nil)
