// Package rhpx is the RHP4 harness: the real rhp.Server reached through Serve() over in-memory
// pipes, the real client functions on the other end, recording Contractor/Sectors wrappers and
// base states planted directly through the Contractor interface.
package rhpx

import (
	"context"
	"errors"
	"fmt"
	"net"
	"os"
	"sort"
	"sync"
	"time"

	"go.sia.tech/core/consensus"
	proto4 "go.sia.tech/core/rhp/v4"
	"go.sia.tech/core/types"
	"go.sia.tech/coreutils/chain"
	rhp "go.sia.tech/coreutils/rhp/v4"
	"go.sia.tech/coreutils/testutil"
	"go.uber.org/zap"
	"verif/internal/memnet"
)

// Call is one recorded call on the Contractor.
type Call struct {
	Name     string
	Contract types.FileContractID
	Revision *types.V2FileContract // revision committed by this call (nil if none)
	Roots    []types.Hash256       // roots committed (ReviseV2Contract)
	Deposits []proto4.AccountDeposit
	Account  proto4.Account
	Usage    proto4.Usage
	Err      error
	Before   *types.V2FileContract // stored revision before the call
}

// RecContractor wraps the in-repo reference contractor and logs every call.
type RecContractor struct {
	rhp.Contractor
	mu    sync.Mutex
	Calls []Call
	// Hook, if set, is called at the start of every mutating call (scheduling point for race harnesses).
	Hook func(name string)
	// LockHook, if set, is called before LockV2Contract.
	LockHook func(name string)
	blocked  chan struct{}
}

// BlockedOnLock returns a channel that receives when a LockV2Contract call has been waiting for more than
// a grace period (only meaningful with a blocking contractor): the gate driver then lets the other RPC run.
func (c *RecContractor) BlockedOnLock() <-chan struct{} {
	c.mu.Lock()
	defer c.mu.Unlock()
	if c.blocked == nil {
		c.blocked = make(chan struct{}, 4)
	}
	return c.blocked
}

func (c *RecContractor) blockedCh() chan struct{} {
	c.BlockedOnLock()
	return c.blocked
}

// LockV2Contract forwards to the wrapped contractor; reports long waits on BlockedOnLock.
func (c *RecContractor) LockV2Contract(id types.FileContractID) (rhp.RevisionState, func(), error) {
	if c.LockHook != nil {
		c.LockHook("LockV2Contract")
	}
	done := make(chan struct{})
	ch := c.blockedCh()
	go func() {
		select {
		case <-done:
		case <-time.After(30 * time.Millisecond):
			select {
			case ch <- struct{}{}:
			default:
			}
		}
	}()
	rs, unlock, err := c.Contractor.LockV2Contract(id)
	close(done)
	return rs, unlock, err
}

func (c *RecContractor) log(call Call) {
	c.mu.Lock()
	c.Calls = append(c.Calls, call)
	c.mu.Unlock()
}

// stored returns the stored revision without taking the contract lock.
func (c *RecContractor) stored(id types.FileContractID) *types.V2FileContract {
	// V2FileContractElement is not populated for planted contracts; use a non-locking peek through AccountBalance-like API:
	// the reference contractor only exposes revisions through LockV2Contract, which fails when the server holds the
	// lock - in that case the server passes the state it was given, so we remember the last committed revision ourselves.
	c.mu.Lock()
	defer c.mu.Unlock()
	for i := len(c.Calls) - 1; i >= 0; i-- {
		if c.Calls[i].Contract == id && c.Calls[i].Revision != nil && c.Calls[i].Err == nil {
			r := *c.Calls[i].Revision
			return &r
		}
	}
	return nil
}

func (c *RecContractor) hook(n string) {
	if c.Hook != nil {
		c.Hook(n)
	}
}

func (c *RecContractor) AddV2Contract(ts rhp.TransactionSet, u proto4.Usage) error {
	c.hook("AddV2Contract")
	err := c.Contractor.AddV2Contract(ts, u)
	call := Call{Name: "AddV2Contract", Usage: u, Err: err}
	if n := len(ts.Transactions); n > 0 && len(ts.Transactions[n-1].FileContracts) == 1 {
		t := ts.Transactions[n-1]
		fc := t.FileContracts[0]
		call.Revision, call.Contract = &fc, t.V2FileContractID(t.ID(), 0)
	}
	c.log(call)
	return err
}

func (c *RecContractor) RenewV2Contract(ts rhp.TransactionSet, u proto4.Usage) error {
	c.hook("RenewV2Contract")
	err := c.Contractor.RenewV2Contract(ts, u)
	call := Call{Name: "RenewV2Contract", Usage: u, Err: err}
	if n := len(ts.Transactions); n > 0 && len(ts.Transactions[n-1].FileContractResolutions) == 1 {
		res := ts.Transactions[n-1].FileContractResolutions[0]
		if r, ok := res.Resolution.(*types.V2FileContractRenewal); ok {
			fc := r.NewContract
			call.Revision, call.Contract = &fc, types.FileContractID(res.Parent.ID).V2RenewalID()
		}
	}
	c.log(call)
	return err
}

func (c *RecContractor) ReviseV2Contract(id types.FileContractID, rev types.V2FileContract, roots []types.Hash256, u proto4.Usage) error {
	c.hook("ReviseV2Contract")
	before := c.stored(id)
	err := c.Contractor.ReviseV2Contract(id, rev, roots, u)
	c.log(Call{Name: "ReviseV2Contract", Contract: id, Revision: &rev, Roots: append([]types.Hash256(nil), roots...), Usage: u, Err: err, Before: before})
	return err
}

func (c *RecContractor) CreditAccountsWithContract(d []proto4.AccountDeposit, id types.FileContractID, rev types.V2FileContract, u proto4.Usage) ([]types.Currency, error) {
	c.hook("CreditAccountsWithContract")
	before := c.stored(id)
	b, err := c.Contractor.CreditAccountsWithContract(d, id, rev, u)
	c.log(Call{Name: "CreditAccountsWithContract", Contract: id, Revision: &rev, Deposits: append([]proto4.AccountDeposit(nil), d...), Usage: u, Err: err, Before: before})
	return b, err
}

func (c *RecContractor) CreditPoolsWithContract(d []proto4.AccountDeposit, id types.FileContractID, rev types.V2FileContract, u proto4.Usage) ([]types.Currency, error) {
	c.hook("CreditPoolsWithContract")
	before := c.stored(id)
	b, err := c.Contractor.CreditPoolsWithContract(d, id, rev, u)
	c.log(Call{Name: "CreditPoolsWithContract", Contract: id, Revision: &rev, Deposits: append([]proto4.AccountDeposit(nil), d...), Usage: u, Err: err, Before: before})
	return b, err
}

func (c *RecContractor) DebitAccount(a proto4.Account, u proto4.Usage) error {
	c.hook("DebitAccount")
	err := c.Contractor.DebitAccount(a, u)
	c.log(Call{Name: "DebitAccount", Account: a, Usage: u, Err: err})
	return err
}

func (c *RecContractor) AttachPools(a []proto4.PoolAttachment) error {
	err := c.Contractor.AttachPools(a)
	c.log(Call{Name: "AttachPools", Err: err})
	return err
}

func (c *RecContractor) DetachPools(d []proto4.PoolDetachment) error {
	err := c.Contractor.DetachPools(d)
	c.log(Call{Name: "DetachPools", Err: err})
	return err
}

// Take returns and clears the call log.
func (c *RecContractor) Take() []Call {
	c.mu.Lock()
	defer c.mu.Unlock()
	out := c.Calls
	c.Calls = nil
	return out
}

// SectorOp is one recorded sector-store call.
type SectorOp struct {
	Name           string
	Root           types.Hash256
	Offset, Length uint64
	Err            error
}

// RecSectors wraps the reference sector store; it can vouch for synthetic roots (HasSector true
// without data) so that contracts with many sectors do not need 4 MiB each.
type RecSectors struct {
	*testutil.EphemeralSectorStore
	mu      sync.Mutex
	Vouched map[types.Hash256]bool
	Ops     []SectorOp
}

func (s *RecSectors) HasSector(root types.Hash256) (bool, error) {
	s.mu.Lock()
	v := s.Vouched[root]
	s.mu.Unlock()
	if v {
		return true, nil
	}
	return s.EphemeralSectorStore.HasSector(root)
}

func (s *RecSectors) ReadSector(root types.Hash256, off, n uint64) ([]byte, []types.Hash256, error) {
	d, p, err := s.EphemeralSectorStore.ReadSector(root, off, n)
	s.mu.Lock()
	s.Ops = append(s.Ops, SectorOp{"ReadSector", root, off, n, err})
	s.mu.Unlock()
	return d, p, err
}

func (s *RecSectors) StoreSector(root types.Hash256, data *[proto4.SectorSize]byte, sub []types.Hash256, exp uint64) error {
	err := s.EphemeralSectorStore.StoreSector(root, data, sub, exp)
	s.mu.Lock()
	s.Ops = append(s.Ops, SectorOp{"StoreSector", root, 0, 0, err})
	s.mu.Unlock()
	return err
}

// Take returns and clears the op log.
func (s *RecSectors) Take() []SectorOp {
	s.mu.Lock()
	defer s.mu.Unlock()
	out := s.Ops
	s.Ops = nil
	return out
}

// --- transport ---------------------------------------------------------------

// trackedConn signals when the server side closes the stream (handler finished).
type trackedConn struct {
	net.Conn
	once sync.Once
	done chan struct{}
}

func (c *trackedConn) Close() error {
	err := c.Conn.Close()
	c.once.Do(func() { close(c.done) })
	return err
}

// Mux is the server-side TransportMux.
type Mux struct {
	accept chan net.Conn
	closed chan struct{}
	once   sync.Once
}

func (m *Mux) AcceptStream() (net.Conn, error) {
	select {
	case c := <-m.accept:
		return c, nil
	case <-m.closed:
		return nil, net.ErrClosed
	}
}

func (m *Mux) Close() error { m.once.Do(func() { close(m.closed) }); return nil }

// Interposer may wrap the client end of a new stream (proxy for fault injection).
type Interposer func(client net.Conn) net.Conn

// Transport is the client-side TransportClient.
type Transport struct {
	mux     *Mux
	hostKey types.PublicKey
	mu      sync.Mutex
	pending []*trackedConn
	Wrap    Interposer
	DialErr error
	// Buffered selects a buffered in-memory stream (writes do not wait for the reader, like a socket) instead
	// of the synchronous net.Pipe.
	Buffered bool
}

func (t *Transport) DialStream(ctx context.Context) (net.Conn, error) {
	if t.DialErr != nil {
		return nil, t.DialErr
	}
	c, s := net.Pipe()
	if t.Buffered {
		c, s = memnet.Pipe()
	}
	tc := &trackedConn{Conn: s, done: make(chan struct{})}
	t.mu.Lock()
	t.pending = append(t.pending, tc)
	t.mu.Unlock()
	select {
	case t.mux.accept <- tc:
	case <-t.mux.closed:
		return nil, net.ErrClosed
	}
	if t.Wrap != nil {
		return t.Wrap(c), nil
	}
	return c, nil
}

func (t *Transport) FrameSize() int           { return 1440 }
func (t *Transport) PeerKey() types.PublicKey { return t.hostKey }
func (t *Transport) Close() error             { return nil }

// WaitIdle waits until the server has finished (closed) every stream dialled so far.
func (t *Transport) WaitIdle() error {
	t.mu.Lock()
	p := t.pending
	t.pending = nil
	t.mu.Unlock()
	for _, c := range p {
		select {
		case <-c.done:
		case <-time.After(120 * time.Second):
			return errors.New("server handler did not finish within 120 s")
		}
	}
	return nil
}

// --- world ---------------------------------------------------------------------

type settingsReporter struct{ s proto4.HostSettings }

func (r settingsReporter) RHP4Settings() proto4.HostSettings { return r.s }

// ChainStub is a minimal rhp.ChainManager at a fixed state (no pool).
type ChainStub struct{ CS consensus.State }

func (c ChainStub) Tip() types.ChainIndex          { return c.CS.Index }
func (c ChainStub) TipState() consensus.State      { return c.CS }
func (c ChainStub) RecommendedFee() types.Currency { return types.NewCurrency64(1) }
func (c ChainStub) V2TransactionSet(b types.ChainIndex, t types.V2Transaction) (types.ChainIndex, []types.V2Transaction, error) {
	return b, []types.V2Transaction{t}, nil
}
func (c ChainStub) AddV2PoolTransactions(types.ChainIndex, []types.V2Transaction) (bool, error) {
	return false, nil
}
func (c ChainStub) UpdateV2TransactionSet(t []types.V2Transaction, from, to types.ChainIndex) ([]types.V2Transaction, error) {
	return t, nil
}

// World is one host + renter rig.
type World struct {
	HostKey, RenterKey types.PrivateKey
	CS                 consensus.State
	Con                *RecContractor
	Sec                *RecSectors
	Srv                *rhp.Server
	T                  *Transport
	Prices             proto4.HostPrices
	Settings           proto4.HostSettings
	Contract           rhp.ContractRevision // the renter's view of the planted contract
	serveDone          chan struct{}
	closeCon           func()
}

// Key returns a deterministic key.
func Key(name string) types.PrivateKey {
	seed := make([]byte, 32)
	copy(seed, name)
	return types.NewPrivateKeyFromSeed(seed)
}

// Prices returns the fixed, host-signed price table.
func Prices(hostKey types.PrivateKey, tipHeight uint64, validUntil time.Time) proto4.HostPrices {
	p := proto4.HostPrices{
		ContractPrice:   types.Siacoins(1).Div64(5),
		Collateral:      types.NewCurrency64(100),
		StoragePrice:    types.NewCurrency64(100),
		IngressPrice:    types.NewCurrency64(100),
		EgressPrice:     types.NewCurrency64(100),
		FreeSectorPrice: types.NewCurrency64(1000000),
		TipHeight:       tipHeight,
		ValidUntil:      validUntil,
	}
	p.Signature = hostKey.SignHash(p.SigHash())
	return p
}

// NewWorld builds a rig whose chain state is cs. wallet may be nil (only needed for formation RPCs).
func NewWorld(cm *chain.Manager, wallet rhp.Wallet) *World { return NewWorldWith(cm, wallet, false) }

// NewWorldWith optionally uses the trusting contractor (stores whatever the server hands it, without
// re-verifying signatures or revision numbers) instead of the in-repo reference contractor, so that the
// server's own checks are what stands between a bad request and the host's state.
func NewWorldWith(cm *chain.Manager, wallet rhp.Wallet, trusting bool) *World {
	return NewWorldWrap(cm, wallet, trusting, nil)
}

// NewWorldWrap additionally lets the caller wrap the sector store handed to the server.
func NewWorldWrap(cm *chain.Manager, wallet rhp.Wallet, trusting bool, wrapSectors func(rhp.Sectors) rhp.Sectors) *World {
	cs := cm.TipState()
	w := &World{HostKey: Key("verif-host"), RenterKey: Key("verif-renter"), CS: cs}
	if trusting {
		w.Con = &RecContractor{Contractor: NewTrustingContractor()}
	} else {
		ec := testutil.NewEphemeralContractor(cm)
		w.closeCon = func() { ec.Close() }
		w.Con = &RecContractor{Contractor: ec}
	}
	w.Sec = &RecSectors{EphemeralSectorStore: testutil.NewEphemeralSectorStore(), Vouched: map[types.Hash256]bool{}}
	w.Prices = Prices(w.HostKey, cs.Index.Height, time.Now().Add(time.Hour))
	w.Settings = proto4.HostSettings{
		AcceptingContracts:  true,
		WalletAddress:       types.StandardUnlockHash(w.HostKey.PublicKey()),
		MaxCollateral:       types.Siacoins(10000),
		MaxContractDuration: 1000,
		RemainingStorage:    1 << 40,
		TotalStorage:        1 << 40,
		Prices:              w.Prices,
	}
	if wallet != nil {
		w.Settings.WalletAddress = wallet.Address()
	}
	var sectors rhp.Sectors = w.Sec
	if wrapSectors != nil {
		sectors = wrapSectors(w.Sec)
	}
	w.Srv = rhp.NewServer(w.HostKey, cm, w.Con, wallet, settingsReporter{w.Settings}, sectors)
	mux := &Mux{accept: make(chan net.Conn), closed: make(chan struct{})}
	w.T = &Transport{mux: mux, hostKey: w.HostKey.PublicKey()}
	w.serveDone = make(chan struct{})
	go func() {
		defer close(w.serveDone)
		log := zap.NewNop()
		if os.Getenv("VERIF_DEBUG") != "" {
			log, _ = zap.NewDevelopment()
		}
		w.Srv.Serve(mux, log)
	}()
	return w
}

// Close shuts the rig down.
func (w *World) Close() {
	w.T.mux.Close()
	w.Srv.Close()
	<-w.serveDone
	if w.closeCon != nil {
		w.closeCon()
	}
}

// Root returns a synthetic sector root.
func Root(i int) types.Hash256 {
	return types.HashBytes([]byte(fmt.Sprintf("verif-synthetic-root-%d", i)))
}

// Plant installs a contract with k synthetic sector roots directly through the Contractor interface.
func (w *World) Plant(k int, allowance, collateral types.Currency) {
	params := proto4.RPCFormContractParams{
		RenterPublicKey: w.RenterKey.PublicKey(),
		RenterAddress:   types.StandardUnlockHash(w.RenterKey.PublicKey()),
		Allowance:       allowance,
		Collateral:      collateral,
		ProofHeight:     w.CS.Index.Height + 500,
	}
	fc, usage := proto4.NewContract(w.Prices, params, w.HostKey.PublicKey(), w.Settings.WalletAddress)
	sign := func(fc *types.V2FileContract) {
		fc.RenterSignature, fc.HostSignature = types.Signature{}, types.Signature{}
		h := w.CS.ContractSigHash(*fc)
		fc.RenterSignature, fc.HostSignature = w.RenterKey.SignHash(h), w.HostKey.SignHash(h)
	}
	sign(&fc)
	txn := types.V2Transaction{FileContracts: []types.V2FileContract{fc}}
	if err := w.Con.AddV2Contract(rhp.TransactionSet{Transactions: []types.V2Transaction{txn}}, usage); err != nil {
		panic(err)
	}
	id := txn.V2FileContractID(txn.ID(), 0)
	if k > 0 {
		roots := make([]types.Hash256, k)
		for i := range roots {
			roots[i] = Root(i)
			w.Sec.Vouched[roots[i]] = true
		}
		fc.RevisionNumber++
		fc.Filesize = uint64(k) * proto4.SectorSize
		fc.Capacity = fc.Filesize
		fc.FileMerkleRoot = proto4.MetaRoot(roots)
		sign(&fc)
		if err := w.Con.ReviseV2Contract(id, fc, roots, proto4.Usage{}); err != nil {
			panic(err)
		}
	}
	w.Contract = rhp.ContractRevision{ID: id, Revision: fc}
	w.Con.Take()
}

// MarkRenewed records a renewal of the planted contract directly at the contractor, so that the planted
// contract is no longer revisable (RevisionState.Renewed, !Revisable).
func (w *World) MarkRenewed() {
	fc := w.Contract.Revision
	nc := fc
	nc.RevisionNumber = 0
	nc.ProofHeight += 100
	nc.ExpirationHeight += 100
	nc.RenterSignature, nc.HostSignature = types.Signature{}, types.Signature{}
	h := w.CS.ContractSigHash(nc)
	nc.RenterSignature, nc.HostSignature = w.RenterKey.SignHash(h), w.HostKey.SignHash(h)
	txn := types.V2Transaction{FileContractResolutions: []types.V2FileContractResolution{{
		Parent:     types.V2FileContractElement{ID: w.Contract.ID, V2FileContract: fc},
		Resolution: &types.V2FileContractRenewal{NewContract: nc, FinalRenterOutput: fc.RenterOutput, FinalHostOutput: fc.HostOutput},
	}}}
	if err := w.Con.RenewV2Contract(rhp.TransactionSet{Transactions: []types.V2Transaction{txn}}, proto4.Usage{}); err != nil {
		panic(err)
	}
	w.Con.Take()
}

// Snapshot is the host's durable state for a contract plus balances.
type Snapshot struct {
	Revision types.V2FileContract
	Roots    []types.Hash256
	Accounts map[proto4.Account]types.Currency
	Pools    map[proto4.Account]types.Currency
	Err      error
}

// Snap reads the host's state through LockV2Contract and the balance queries.
func (w *World) Snap(id types.FileContractID, accounts, pools []proto4.Account) Snapshot {
	var s Snapshot
	rs, unlock, err := w.Con.LockV2Contract(id)
	if err != nil {
		s.Err = err
		return s
	}
	s.Revision = rs.Revision
	s.Roots = append([]types.Hash256(nil), rs.Roots...)
	unlock()
	s.Accounts, s.Pools = map[proto4.Account]types.Currency{}, map[proto4.Account]types.Currency{}
	if b, err := w.Con.AccountBalances(accounts); err == nil {
		for i, a := range accounts {
			s.Accounts[a] = b[i]
		}
	}
	if b, err := w.Con.PoolBalances(pools); err == nil {
		for i, a := range pools {
			s.Pools[a] = b[i]
		}
	}
	return s
}

// String renders a snapshot canonically.
func (s Snapshot) String() string {
	if s.Err != nil {
		return "err:" + s.Err.Error()
	}
	out := fmt.Sprintf("rev=%d size=%d root=%v renter=%v host=%v missed=%v sigs=%x/%x roots=%v", s.Revision.RevisionNumber, s.Revision.Filesize, s.Revision.FileMerkleRoot,
		s.Revision.RenterOutput.Value, s.Revision.HostOutput.Value, s.Revision.MissedHostValue, s.Revision.RenterSignature[:4], s.Revision.HostSignature[:4], s.Roots)
	var ks []string
	for a, b := range s.Accounts {
		ks = append(ks, fmt.Sprintf("acct %x=%v", a[:4], b))
	}
	for a, b := range s.Pools {
		ks = append(ks, fmt.Sprintf("pool %x=%v", a[:4], b))
	}
	sort.Strings(ks)
	return out + fmt.Sprint(ks)
}

// Consistent checks MetaRoot(roots)==FileMerkleRoot and count*SectorSize==Filesize.
func (s Snapshot) Consistent() error {
	if s.Err != nil {
		return s.Err
	}
	if got := proto4.MetaRoot(s.Roots); got != s.Revision.FileMerkleRoot {
		return fmt.Errorf("MetaRoot of the %d stored roots is %v but the committed revision %d says %v", len(s.Roots), got, s.Revision.RevisionNumber, s.Revision.FileMerkleRoot)
	}
	if uint64(len(s.Roots))*proto4.SectorSize != s.Revision.Filesize {
		return fmt.Errorf("%d stored roots but committed filesize %d", len(s.Roots), s.Revision.Filesize)
	}
	return nil
}
