// Package bfs is a small explicit-state breadth-first explorer over real objects.
// A state is reached by a history of operations; successors are produced by cloning the
// world (fast path) or by replaying the history on a fresh world, then applying one more
// operation. States are deduplicated by a complete canonical key.
package bfs

// World is an instance of the system under test plus harness-side model state.
type World interface {
	// Key is a complete canonical fingerprint: equal keys must imply equal futures.
	Key() [32]byte
	// Clone returns an independent world in the same state, or nil if the world cannot be cloned
	// (the explorer then rebuilds it by replaying the history).
	Clone() World
}

// Op is an opaque operation (JSON-serialisable for replay files).
type Op any

// Violation describes a failed oracle.
type Violation struct {
	Signature string
	What      string
	History   []Op
}

// Config drives one exploration.
type Config struct {
	New      func() World
	Ops      func(w World, depth int) []Op
	Apply    func(w World, op Op, check bool) *Violation // executes op on the real system and evaluates oracles if check
	MaxDepth int
	MaxStates int
	Stop     func() bool
	OnState  func(w World, history []Op) (v *Violation, prune bool) // optional per-new-state check; prune: do not expand this state
	// ValidateReplay: every new state reached through Clone is also rebuilt by replaying its history on a
	// fresh instance; the keys must agree (binds the clone shortcut to the implementation).
	ValidateReplay bool
}

// Result summarises the exploration.
type Result struct {
	States      int
	Transitions int
	Replays     int // histories re-executed from scratch on a fresh instance
	MaxDepth    int
	Capped      bool
	Complete    bool // frontier exhausted below MaxDepth (fixpoint)
	Violations  []Violation
	Samples     [][]Op
}

type item struct {
	hist []Op
	w    World
}

// Run explores breadth-first.
func Run(c Config) Result {
	var res Result
	seen := map[[32]byte]struct{}{}
	w0 := c.New()
	seen[w0.Key()] = struct{}{}
	res.States = 1
	frontier := []item{{nil, w0}}
	addViol := func(v *Violation, hist []Op) {
		for _, o := range res.Violations {
			if o.Signature == v.Signature {
				return
			}
		}
		v.History = append([]Op(nil), hist...)
		res.Violations = append(res.Violations, *v)
	}
	rebuild := func(hist []Op) World {
		w := c.New()
		for _, op := range hist {
			c.Apply(w, op, false)
		}
		res.Replays++
		return w
	}
	for depth := 0; len(frontier) > 0; depth++ {
		if depth >= c.MaxDepth {
			res.Capped = true
			break
		}
		var next []item
		for _, it := range frontier {
			if c.Stop != nil && c.Stop() {
				res.Capped = true
				return res
			}
			ops := c.Ops(it.w, depth)
			for _, op := range ops {
				var w World
				if w = it.w.Clone(); w == nil {
					w = rebuild(it.hist)
				}
				hist := append(append([]Op(nil), it.hist...), op)
				res.Transitions++
				if v := c.Apply(w, op, true); v != nil {
					addViol(v, hist)
					if len(res.Violations) >= 40 {
						return res
					}
					continue
				}
				k := w.Key()
				if _, ok := seen[k]; ok {
					continue
				}
				seen[k] = struct{}{}
				res.States++
				if c.ValidateReplay {
					if rk := rebuild(hist).Key(); rk != k {
						addViol(&Violation{Signature: "harness:replay-mismatch", What: "state reached by cloning differs from the state reached by replaying its history on a fresh instance"}, hist)
					}
				}
				if c.OnState != nil {
					v, prune := c.OnState(w, hist)
					if v != nil {
						addViol(v, hist)
					}
					if prune {
						continue
					}
				}
				if len(res.Samples) < 3 && len(hist) >= 3 {
					res.Samples = append(res.Samples, hist)
				}
				if depth+1 > res.MaxDepth {
					res.MaxDepth = depth + 1
				}
				if c.MaxStates > 0 && res.States >= c.MaxStates {
					res.Capped = true
					return res
				}
				next = append(next, item{hist, w})
			}
			it.w = nil
		}
		frontier = next
	}
	if !res.Capped {
		res.Complete = true
	}
	return res
}
