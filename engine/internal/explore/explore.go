// Package explore enumerates schedules of a multi-threaded harness over the
// cooperative scheduler in go.sia.tech/coreutils/vsync (overlay package) with
// iterative preemption bounding.
package explore

import (
	"fmt"

	"go.sia.tech/coreutils/vsync"
)

// Scenario builds a fresh instance and returns thread bodies plus a check
// evaluated after the execution completed (or deadlocked).
type Scenario func() (bodies []func(), check func(x *vsync.Execution) (signature, what string))

// Result summarises one exploration.
type Result struct {
	Executions  int
	Points      int // total scheduling points over all executions
	MaxPoints   int
	Outcomes    map[string]int // distinct observation strings (set by Observe)
	Capped      bool
	Bound       int
	Violations  []Violation
	Diverged    int
}

// Violation is a failing schedule.
type Violation struct {
	Signature string
	What      string
	Choices   []int
	Schedule  []int
}

// Explorer explores all schedules with at most Bound preemptions (Bound<0: unbounded).
type Explorer struct {
	Bound    int
	MaxExec  int
	MaxSteps int
	Stop     func() bool
	Observe  func() string // optional: called after each execution to fingerprint the outcome
	res      Result
	sc       Scenario
}

// Run explores the scenario.
func (e *Explorer) Run(sc Scenario) Result {
	e.sc = sc
	e.res = Result{Outcomes: map[string]int{}, Bound: e.Bound}
	e.explore(nil)
	return e.res
}

// Replay runs one schedule and returns the check verdict.
func Replay(sc Scenario, choices []int, maxSteps int) (x *vsync.Execution, sig, what string) {
	bodies, check := sc()
	x = vsync.Run(choices, maxSteps, bodies...)
	sig, what = check(x)
	return
}

func (e *Explorer) explore(prefix []int) {
	if e.res.Capped {
		return
	}
	if (e.MaxExec > 0 && e.res.Executions >= e.MaxExec) || (e.Stop != nil && e.Stop()) {
		e.res.Capped = true
		return
	}
	bodies, check := e.sc()
	x := vsync.Run(prefix, e.MaxSteps, bodies...)
	e.res.Executions++
	e.res.Points += len(x.Points)
	if len(x.Points) > e.res.MaxPoints {
		e.res.MaxPoints = len(x.Points)
	}
	if x.Diverged != "" {
		e.res.Diverged++
		e.res.Violations = append(e.res.Violations, Violation{Signature: "harness:diverged", What: x.Diverged, Choices: prefix})
		return
	}
	sig, what := check(x)
	if e.Observe != nil {
		e.res.Outcomes[e.Observe()]++
	}
	if sig != "" {
		dup := false
		for _, v := range e.res.Violations {
			if v.Signature == sig {
				dup = true
			}
		}
		if !dup {
			e.res.Violations = append(e.res.Violations, Violation{Signature: sig, What: what, Choices: x.Choices(), Schedule: x.Schedule()})
		}
	}
	for i := len(prefix); i < len(x.Points); i++ {
		p := x.Points[i]
		cost := x.PreemptionsBefore(i)
		if p.RunEnabled {
			cost++
		}
		if e.Bound >= 0 && cost > e.Bound {
			continue
		}
		for alt := 1; alt < len(p.Enabled); alt++ {
			np := make([]int, i+1)
			copy(np, x.Choices()[:i])
			np[i] = alt
			e.explore(np)
		}
	}
}

// String renders a schedule compactly.
func String(sched []int) string { return fmt.Sprint(sched) }
