// Package wstore is the harness's wallet store: it implements wallet.SingleAddressStore and
// wallet.UpdateTx, records as its tip the index the update stream left it at, and can be cloned.
package wstore

import (
	"errors"
	"sort"
	"time"

	"go.sia.tech/core/types"
	"go.sia.tech/coreutils/wallet"
)

// Store is an in-memory wallet store.
type Store struct {
	TipIdx      types.ChainIndex
	UTXOs       map[types.SiacoinOutputID]types.SiacoinElement
	Events      []wallet.Event
	Broadcasted []wallet.BroadcastedSet
	Faults      []string // internal inconsistencies reported by the update path (duplicate element, missing element)
}

// New returns an empty store.
func New() *Store { return &Store{UTXOs: map[types.SiacoinOutputID]types.SiacoinElement{}} }

// Clone deep-copies the store.
func (s *Store) Clone() *Store {
	c := &Store{TipIdx: s.TipIdx, UTXOs: make(map[types.SiacoinOutputID]types.SiacoinElement, len(s.UTXOs))}
	for k, v := range s.UTXOs {
		c.UTXOs[k] = v.Copy()
	}
	c.Events = append([]wallet.Event(nil), s.Events...)
	c.Broadcasted = append([]wallet.BroadcastedSet(nil), s.Broadcasted...)
	c.Faults = append([]string(nil), s.Faults...)
	return c
}

// --- wallet.UpdateTx ---

func (s *Store) UpdateWalletSiacoinElementProofs(pu wallet.ProofUpdater) error {
	for id, se := range s.UTXOs {
		pu.UpdateElementProof(&se.StateElement)
		s.UTXOs[id] = se
	}
	return nil
}

func (s *Store) WalletApplyIndex(index types.ChainIndex, created, spent []types.SiacoinElement, events []wallet.Event, _ time.Time) error {
	for _, se := range spent {
		if _, ok := s.UTXOs[se.ID]; !ok {
			s.Faults = append(s.Faults, "apply: spent element "+se.ID.String()+" is not in the store")
		}
		delete(s.UTXOs, se.ID)
	}
	for _, se := range created {
		if _, ok := s.UTXOs[se.ID]; ok {
			s.Faults = append(s.Faults, "apply: created element "+se.ID.String()+" already in the store")
		}
		s.UTXOs[se.ID] = se.Copy()
	}
	s.Events = append(s.Events, events...)
	s.TipIdx = index
	return nil
}

func (s *Store) WalletRevertIndex(index types.ChainIndex, removed, unspent []types.SiacoinElement, _ time.Time) error {
	filtered := s.Events[:0:0]
	for _, e := range s.Events {
		if e.Index != index {
			filtered = append(filtered, e)
		}
	}
	s.Events = filtered
	for _, se := range removed {
		if _, ok := s.UTXOs[se.ID]; !ok {
			s.Faults = append(s.Faults, "revert: removed element "+se.ID.String()+" is not in the store")
		}
		delete(s.UTXOs, se.ID)
	}
	for _, se := range unspent {
		if _, ok := s.UTXOs[se.ID]; ok {
			s.Faults = append(s.Faults, "revert: unspent element "+se.ID.String()+" already in the store")
		}
		s.UTXOs[se.ID] = se.Copy()
	}
	// NOTE: the tip is set by the driver to the index the stream left the wallet at (the parent of the
	// reverted block), as the property's quantifier stipulates.
	return nil
}

// --- wallet.SingleAddressStore ---

func (s *Store) Tip() (types.ChainIndex, error) { return s.TipIdx, nil }

func (s *Store) UnspentSiacoinElements() (types.ChainIndex, []types.SiacoinElement, error) {
	out := make([]types.SiacoinElement, 0, len(s.UTXOs))
	for _, se := range s.UTXOs {
		out = append(out, se.Copy())
	}
	sort.Slice(out, func(i, j int) bool { return string(out[i].ID[:]) < string(out[j].ID[:]) })
	return s.TipIdx, out, nil
}

func (s *Store) WalletEvent(id types.Hash256) (wallet.Event, error) {
	for _, e := range s.Events {
		if e.ID == id {
			return e, nil
		}
	}
	return wallet.Event{}, wallet.ErrEventNotFound
}

func (s *Store) WalletEvents(offset, limit int) ([]wallet.Event, error) {
	ev := append([]wallet.Event(nil), s.Events...)
	sort.SliceStable(ev, func(i, j int) bool { return ev[i].MaturityHeight > ev[j].MaturityHeight })
	if offset > len(ev) {
		return nil, nil
	}
	end := offset + limit
	if end > len(ev) {
		end = len(ev)
	}
	return ev[offset:end], nil
}

func (s *Store) WalletEventCount() (uint64, error) { return uint64(len(s.Events)), nil }

func (s *Store) AddBroadcastedSet(set wallet.BroadcastedSet) error {
	for _, e := range s.Broadcasted {
		if e.ID() == set.ID() {
			return nil
		}
	}
	s.Broadcasted = append(s.Broadcasted, set)
	return nil
}

func (s *Store) BroadcastedSets() ([]wallet.BroadcastedSet, error) {
	return append([]wallet.BroadcastedSet(nil), s.Broadcasted...), nil
}

func (s *Store) RemoveBroadcastedSet(set wallet.BroadcastedSet) error {
	for i, e := range s.Broadcasted {
		if e.ID() == set.ID() {
			s.Broadcasted = append(s.Broadcasted[:i:i], s.Broadcasted[i+1:]...)
			return nil
		}
	}
	return errors.New("broadcasted set not found")
}

var (
	_ wallet.SingleAddressStore = (*Store)(nil)
	_ wallet.UpdateTx           = (*Store)(nil)
)
