// Package univ builds deterministic universes: networks, actors, transactions of
// every element-changing kind, blocks, fork trees and block corruptions. It only
// uses go.sia.tech/core and the reference ledger.
package univ

import (
	"encoding/binary"
	"fmt"
	"sort"
	"time"

	"go.sia.tech/core/consensus"
	"go.sia.tech/core/types"
	"go.sia.tech/coreutils/chain"
	"verif/internal/ledger"
)

// Actor is a deterministic key with its v1-style address (spendable by v1 and v2 transactions).
type Actor struct {
	Name string
	Key  types.PrivateKey
	UC   types.UnlockConditions
	Addr types.Address
}

// Actors returns the four deterministic actors. Actor 3 is also the Foundation address;
// actor 0 is the wallet under test where a wallet is involved.
func Actors() [4]Actor {
	var as [4]Actor
	for i := range as {
		seed := make([]byte, 32)
		copy(seed, fmt.Sprintf("verif-actor-%d", i))
		k := types.NewPrivateKeyFromSeed(seed)
		uc := types.StandardUnlockConditions(k.PublicKey())
		as[i] = Actor{Name: fmt.Sprintf("A%d", i), Key: k, UC: uc, Addr: uc.UnlockHash()}
	}
	return as
}

// Regime names a hardfork schedule.
type Regime string

// Regimes: v1-only, v1+v2 overlap crossing allow/require/final-cut, v2-only.
const (
	RegimeV1 Regime = "v1"
	RegimeX  Regime = "x"
	RegimeV2 Regime = "v2"
	// RegimeS (syncer scenarios): v2 allowed from 2, required from 8, final cut at 10
	RegimeS Regime = "s"
	// RegimeH: v2 allowed from 2, required from 1000, and a proof-of-work target that a random id meets with
	// probability 1/4096 - so that a block id derived from the wrong state fails the work check, as on a real network
	RegimeH Regime = "h"
)

// SC is shorthand for whole siacoins.
func SC(n uint32) types.Currency { return types.Siacoins(n) }

// Network returns the network and genesis block for a regime. Derived from the
// repository's testutil.Network() parameters (Zen with trivial PoW, all old
// hardforks at height 1) with MaturityDelay 2 and a genesis block paying the actors.
func Network(reg Regime) (*consensus.Network, types.Block) {
	as := Actors()
	// same derivation as the repository's testutil.Network(): Zen parameters, trivial PoW, old hardforks at height 1
	n, _ := chain.TestnetZen()
	n.Name = "verif-" + string(reg)
	n.InitialTarget = types.BlockID{0xFF}
	n.BlockInterval = time.Second
	n.MaturityDelay = 2
	n.HardforkDevAddr.Height = 1
	n.HardforkTax.Height = 1
	n.HardforkStorageProof.Height = 1
	n.HardforkOak.Height = 1
	n.HardforkASIC.Height = 1
	n.HardforkFoundation.Height = 1
	n.HardforkFoundation.PrimaryAddress = as[3].Addr
	n.HardforkFoundation.FailsafeAddress = as[3].Addr
	switch reg {
	case RegimeV1:
		n.HardforkV2.AllowHeight, n.HardforkV2.RequireHeight, n.HardforkV2.FinalCutHeight = 1000, 1100, 1200
	case RegimeX:
		n.HardforkV2.AllowHeight, n.HardforkV2.RequireHeight, n.HardforkV2.FinalCutHeight = 3, 5, 6
	case RegimeV2:
		n.HardforkV2.AllowHeight, n.HardforkV2.RequireHeight, n.HardforkV2.FinalCutHeight = 1, 1, 1
	case RegimeS:
		n.HardforkV2.AllowHeight, n.HardforkV2.RequireHeight, n.HardforkV2.FinalCutHeight = 2, 8, 10
	case RegimeH:
		n.HardforkV2.AllowHeight, n.HardforkV2.RequireHeight, n.HardforkV2.FinalCutHeight = 2, 1000, 1100
		n.InitialTarget = types.BlockID{0x00, 0x10}
	}
	n.HardforkV2.EphemeralOutputHeight = n.HardforkV2.AllowHeight
	txn := types.Transaction{}
	for i, a := range as {
		// three outputs per actor with distinct values so that spends are distinguishable
		for j, v := range []uint32{100, 50, 25} {
			_ = j
			txn.SiacoinOutputs = append(txn.SiacoinOutputs, types.SiacoinOutput{Address: a.Addr, Value: SC(v + uint32(i))})
		}
	}
	txn.SiafundOutputs = []types.SiafundOutput{
		{Address: as[0].Addr, Value: 4000}, {Address: as[1].Addr, Value: 3000}, {Address: as[2].Addr, Value: 2000}, {Address: as[3].Addr, Value: 1000},
	}
	genesis := types.Block{Timestamp: n.HardforkOak.GenesisTimestamp, Transactions: []types.Transaction{txn}}
	return n, genesis
}

// --- element selection -------------------------------------------------------

// OwnedSC returns the mature unspent siacoin elements of addr, sorted by value descending then id.
func OwnedSC(l *ledger.Ledger, addr types.Address) []types.SiacoinElement {
	var out []types.SiacoinElement
	for _, e := range l.SCEs {
		if e.SiacoinOutput.Address == addr && e.MaturityHeight <= l.State.Index.Height+1 {
			out = append(out, e.Copy())
		}
	}
	sort.Slice(out, func(i, j int) bool {
		if c := out[i].SiacoinOutput.Value.Cmp(out[j].SiacoinOutput.Value); c != 0 {
			return c > 0
		}
		return string(out[i].ID[:]) < string(out[j].ID[:])
	})
	return out
}

// OwnedSF returns the siafund elements of addr.
func OwnedSF(l *ledger.Ledger, addr types.Address) []types.SiafundElement {
	var out []types.SiafundElement
	for _, e := range l.SFEs {
		if e.SiafundOutput.Address == addr {
			out = append(out, e.Copy())
		}
	}
	sort.Slice(out, func(i, j int) bool { return string(out[i].ID[:]) < string(out[j].ID[:]) })
	return out
}

// --- v1 transactions ----------------------------------------------------------

func signV1(cs consensus.State, txn *types.Transaction, parent types.Hash256, a Actor) {
	sig := types.TransactionSignature{ParentID: parent, CoveredFields: types.CoveredFields{WholeTransaction: true}}
	txn.Signatures = append(txn.Signatures, sig)
	i := len(txn.Signatures) - 1
	h := cs.WholeSigHash(*txn, parent, 0, 0, nil)
	s := a.Key.SignHash(h)
	txn.Signatures[i].Signature = s[:]
}

// V1Spend spends element e of actor a: amt to dst, the rest (minus fee) back to a.
func V1Spend(cs consensus.State, a Actor, e types.SiacoinElement, dst types.Address, amt, fee types.Currency) types.Transaction {
	txn := types.Transaction{
		SiacoinInputs:  []types.SiacoinInput{{ParentID: e.ID, UnlockConditions: a.UC}},
		SiacoinOutputs: []types.SiacoinOutput{{Address: dst, Value: amt}},
	}
	if !fee.IsZero() {
		txn.MinerFees = []types.Currency{fee}
	}
	if rest := e.SiacoinOutput.Value.Sub(amt).Sub(fee); !rest.IsZero() {
		txn.SiacoinOutputs = append(txn.SiacoinOutputs, types.SiacoinOutput{Address: a.Addr, Value: rest})
	}
	signV1(cs, &txn, types.Hash256(e.ID), a)
	return txn
}

// V1SpendID is V1Spend for an output that is not in the ledger yet (ephemeral parent in the same block/set).
func V1SpendID(cs consensus.State, a Actor, id types.SiacoinOutputID, value types.Currency, dst types.Address, amt, fee types.Currency) types.Transaction {
	return V1Spend(cs, a, types.SiacoinElement{ID: id, SiacoinOutput: types.SiacoinOutput{Value: value, Address: a.Addr}}, dst, amt, fee)
}

// V1SiafundSpend moves siafund element e of a to dst (claim goes to claimAddr).
func V1SiafundSpend(cs consensus.State, a Actor, e types.SiafundElement, dst, claimAddr types.Address) types.Transaction {
	txn := types.Transaction{
		SiafundInputs:  []types.SiafundInput{{ParentID: e.ID, UnlockConditions: a.UC, ClaimAddress: claimAddr}},
		SiafundOutputs: []types.SiafundOutput{{Address: dst, Value: e.SiafundOutput.Value}},
	}
	signV1(cs, &txn, types.Hash256(e.ID), a)
	return txn
}

// V1Contract builds a contract-formation transaction funded by e. Valid outputs pay
// renter/host (actors a and h), missed outputs pay renter/host/void.
func V1Contract(cs consensus.State, a, h Actor, e types.SiacoinElement, windowStart, windowEnd uint64, filesize uint64, root types.Hash256, salt uint64) (types.Transaction, types.FileContract) {
	renterPay, hostPay := SC(4), SC(2).Add(types.NewCurrency64(salt))
	fc := types.FileContract{
		Filesize: filesize, FileMerkleRoot: root, WindowStart: windowStart, WindowEnd: windowEnd,
		UnlockHash: a.UC.UnlockHash(),
		ValidProofOutputs: []types.SiacoinOutput{{Address: a.Addr, Value: renterPay}, {Address: h.Addr, Value: hostPay}},
		MissedProofOutputs: []types.SiacoinOutput{{Address: a.Addr, Value: renterPay}, {Address: h.Addr, Value: hostPay.Sub(SC(1))}, {Address: types.VoidAddress, Value: SC(1)}},
	}
	// payout such that payout - tax(payout) == validSum: search the fixed point (tax is 3.9% rounded down to a multiple of siafund count)
	validSum := renterPay.Add(hostPay)
	fc.Payout = validSum
	for i := 0; i < 64; i++ {
		tax := cs.FileContractTax(fc)
		if fc.Payout.Equals(validSum.Add(tax)) {
			break
		}
		fc.Payout = validSum.Add(tax)
	}
	txn := types.Transaction{
		SiacoinInputs: []types.SiacoinInput{{ParentID: e.ID, UnlockConditions: a.UC}},
		FileContracts: []types.FileContract{fc},
	}
	if rest := e.SiacoinOutput.Value.Sub(fc.Payout); !rest.IsZero() {
		txn.SiacoinOutputs = []types.SiacoinOutput{{Address: a.Addr, Value: rest}}
	}
	signV1(cs, &txn, types.Hash256(e.ID), a)
	return txn, fc
}

// V1Revision revises contract fce (owned by a): bumps the revision number, optionally moves the window.
func V1Revision(cs consensus.State, a Actor, fce types.FileContractElement, windowStart, windowEnd uint64, revNum uint64) types.Transaction {
	fc := fce.FileContract
	fc.RevisionNumber = revNum
	fc.WindowStart, fc.WindowEnd = windowStart, windowEnd
	txn := types.Transaction{
		FileContractRevisions: []types.FileContractRevision{{ParentID: fce.ID, UnlockConditions: a.UC, FileContract: fc}},
	}
	signV1(cs, &txn, types.Hash256(fce.ID), a)
	return txn
}

// Leaf64 is the fixed 64-byte file used for non-empty storage proofs.
var Leaf64 = func() (l [64]byte) {
	for i := range l {
		l[i] = byte(i*7 + 1)
	}
	return
}()

// V1LeafRoot is the Merkle root of the one-leaf file Leaf64 under v1 rules.
func V1LeafRoot() types.Hash256 {
	buf := make([]byte, 65)
	copy(buf[1:], Leaf64[:])
	return types.HashBytes(buf)
}

// V1StorageProof proves contract id (empty file or the one-leaf file).
func V1StorageProof(id types.FileContractID) types.Transaction {
	return types.Transaction{StorageProofs: []types.StorageProof{{ParentID: id, Leaf: Leaf64}}}
}

// --- v2 transactions ----------------------------------------------------------

func policy(a Actor) types.SatisfiedPolicy {
	return types.SatisfiedPolicy{Policy: types.SpendPolicy{Type: types.PolicyTypeUnlockConditions(a.UC)}}
}

// SignV2 signs all siacoin/siafund inputs of txn with a's key.
func SignV2(cs consensus.State, txn *types.V2Transaction, a Actor) {
	h := cs.InputSigHash(*txn)
	sig := a.Key.SignHash(h)
	for i := range txn.SiacoinInputs {
		txn.SiacoinInputs[i].SatisfiedPolicy = policy(a)
		txn.SiacoinInputs[i].SatisfiedPolicy.Signatures = []types.Signature{sig}
	}
	for i := range txn.SiafundInputs {
		txn.SiafundInputs[i].SatisfiedPolicy = policy(a)
		txn.SiafundInputs[i].SatisfiedPolicy.Signatures = []types.Signature{sig}
	}
}

// V2Spend spends element e (with its proof as of the ledger it was taken from).
func V2Spend(cs consensus.State, a Actor, e types.SiacoinElement, dst types.Address, amt, fee types.Currency) types.V2Transaction {
	txn := types.V2Transaction{
		SiacoinInputs:  []types.V2SiacoinInput{{Parent: e.Copy()}},
		SiacoinOutputs: []types.SiacoinOutput{{Address: dst, Value: amt}},
		MinerFee:       fee,
	}
	if rest := e.SiacoinOutput.Value.Sub(amt).Sub(fee); !rest.IsZero() {
		txn.SiacoinOutputs = append(txn.SiacoinOutputs, types.SiacoinOutput{Address: a.Addr, Value: rest})
	}
	SignV2(cs, &txn, a)
	return txn
}

// Ephemeral returns the (proof-less) element for output i of a not-yet-confirmed v2 transaction.
func Ephemeral(parent types.V2Transaction, i int) types.SiacoinElement {
	return types.SiacoinElement{
		ID:            parent.SiacoinOutputID(parent.ID(), i),
		StateElement:  types.StateElement{LeafIndex: types.UnassignedLeafIndex},
		SiacoinOutput: parent.SiacoinOutputs[i],
	}
}

// V2SiafundSpend moves siafund element e.
func V2SiafundSpend(cs consensus.State, a Actor, e types.SiafundElement, dst, claimAddr types.Address) types.V2Transaction {
	txn := types.V2Transaction{
		SiafundInputs:  []types.V2SiafundInput{{Parent: e.Copy(), ClaimAddress: claimAddr}},
		SiafundOutputs: []types.SiafundOutput{{Address: dst, Value: e.SiafundOutput.Value}},
	}
	SignV2(cs, &txn, a)
	return txn
}

// V2LeafRoot is the Merkle root of the one-leaf file under v2 rules.
func V2LeafRoot(cs consensus.State) types.Hash256 { return cs.StorageProofLeafHash(Leaf64[:]) }

// SignContract signs fc with both keys.
func SignContract(cs consensus.State, fc *types.V2FileContract, renter, host Actor) {
	fc.RenterSignature, fc.HostSignature = types.Signature{}, types.Signature{}
	h := cs.ContractSigHash(*fc)
	fc.RenterSignature = renter.Key.SignHash(h)
	fc.HostSignature = host.Key.SignHash(h)
}

// V2Contract forms a contract between renter a and host h funded entirely by a's element e.
func V2Contract(cs consensus.State, a, h Actor, e types.SiacoinElement, proofHeight, expHeight uint64, salt uint64) (types.V2Transaction, types.V2FileContract) {
	fc := types.V2FileContract{
		Capacity: 64, Filesize: 64, FileMerkleRoot: V2LeafRoot(cs),
		ProofHeight: proofHeight, ExpirationHeight: expHeight,
		RenterOutput:    types.SiacoinOutput{Address: a.Addr, Value: SC(5)},
		HostOutput:      types.SiacoinOutput{Address: h.Addr, Value: SC(3).Add(types.NewCurrency64(salt))},
		MissedHostValue: SC(2), TotalCollateral: SC(1),
		RenterPublicKey: a.Key.PublicKey(), HostPublicKey: h.Key.PublicKey(),
	}
	SignContract(cs, &fc, a, h)
	cost := fc.RenterOutput.Value.Add(fc.HostOutput.Value).Add(cs.V2FileContractTax(fc))
	txn := types.V2Transaction{
		SiacoinInputs: []types.V2SiacoinInput{{Parent: e.Copy()}},
		FileContracts: []types.V2FileContract{fc},
	}
	if rest := e.SiacoinOutput.Value.Sub(cost); !rest.IsZero() {
		txn.SiacoinOutputs = []types.SiacoinOutput{{Address: a.Addr, Value: rest}}
	}
	SignV2(cs, &txn, a)
	return txn, fc
}

// V2Revision revises fce: moves 1 SC from renter to host and bumps the revision number.
func V2Revision(cs consensus.State, a, h Actor, fce types.V2FileContractElement, revNum uint64) types.V2Transaction {
	rev := fce.V2FileContract
	rev.RevisionNumber = revNum
	rev.RenterOutput.Value = rev.RenterOutput.Value.Sub(SC(1))
	rev.HostOutput.Value = rev.HostOutput.Value.Add(SC(1))
	SignContract(cs, &rev, a, h)
	return types.V2Transaction{FileContractRevisions: []types.V2FileContractRevision{{Parent: fce.Copy(), Revision: rev}}}
}

// V2Renewal renews fce into a new contract, rolling over the renter's funds; extra funds from e.
func V2Renewal(cs consensus.State, a, h Actor, fce types.V2FileContractElement, e types.SiacoinElement, proofHeight, expHeight uint64) types.V2Transaction {
	old := fce.V2FileContract
	nc := types.V2FileContract{
		Capacity: old.Capacity, Filesize: old.Filesize, FileMerkleRoot: old.FileMerkleRoot,
		ProofHeight: proofHeight, ExpirationHeight: expHeight,
		RenterOutput:    types.SiacoinOutput{Address: a.Addr, Value: SC(6)},
		HostOutput:      types.SiacoinOutput{Address: h.Addr, Value: SC(3)},
		MissedHostValue: SC(2), TotalCollateral: SC(1),
		RenterPublicKey: old.RenterPublicKey, HostPublicKey: old.HostPublicKey,
	}
	SignContract(cs, &nc, a, h)
	ren := &types.V2FileContractRenewal{
		NewContract:       nc,
		RenterRollover:    SC(2),
		HostRollover:      SC(1),
		FinalRenterOutput: types.SiacoinOutput{Address: a.Addr, Value: old.RenterOutput.Value.Sub(SC(2))},
		FinalHostOutput:   types.SiacoinOutput{Address: h.Addr, Value: old.HostOutput.Value.Sub(SC(1))},
	}
	rh := cs.RenewalSigHash(*ren)
	ren.RenterSignature, ren.HostSignature = a.Key.SignHash(rh), h.Key.SignHash(rh)
	cost := nc.RenterOutput.Value.Add(nc.HostOutput.Value).Add(cs.V2FileContractTax(nc)).Sub(SC(3))
	txn := types.V2Transaction{
		SiacoinInputs:           []types.V2SiacoinInput{{Parent: e.Copy()}},
		FileContractResolutions: []types.V2FileContractResolution{{Parent: fce.Copy(), Resolution: ren}},
	}
	if rest := e.SiacoinOutput.Value.Sub(cost); !rest.IsZero() {
		txn.SiacoinOutputs = []types.SiacoinOutput{{Address: a.Addr, Value: rest}}
	}
	SignV2(cs, &txn, a)
	return txn
}

// V2StorageProof resolves fce with a storage proof; cie is the chain index element at the proof height.
func V2StorageProof(fce types.V2FileContractElement, cie types.ChainIndexElement) types.V2Transaction {
	return types.V2Transaction{FileContractResolutions: []types.V2FileContractResolution{{
		Parent: fce.Copy(), Resolution: &types.V2StorageProof{ProofIndex: cie.Copy(), Leaf: Leaf64},
	}}}
}

// V2Expiration resolves fce as expired.
func V2Expiration(fce types.V2FileContractElement) types.V2Transaction {
	return types.V2Transaction{FileContractResolutions: []types.V2FileContractResolution{{Parent: fce.Copy(), Resolution: &types.V2FileContractExpiration{}}}}
}

// V2Attestation returns a transaction carrying one attestation by a.
func V2Attestation(cs consensus.State, a Actor, key string) types.V2Transaction {
	at := types.Attestation{PublicKey: a.Key.PublicKey(), Key: key, Value: []byte("v")}
	at.Signature = a.Key.SignHash(cs.AttestationSigHash(at))
	return types.V2Transaction{Attestations: []types.Attestation{at}}
}

// --- blocks --------------------------------------------------------------------

// BuildBlock assembles and "mines" a child of l's tip. It does not validate.
func BuildBlock(l *ledger.Ledger, ts time.Time, miner types.Address, txns []types.Transaction, v2txns []types.V2Transaction) types.Block {
	cs := l.State
	b := types.Block{ParentID: cs.Index.ID, Timestamp: ts, MinerPayouts: []types.SiacoinOutput{{Address: miner, Value: cs.BlockReward()}}}
	b.Transactions = txns
	for _, t := range txns {
		b.MinerPayouts[0].Value = b.MinerPayouts[0].Value.Add(t.TotalFees())
	}
	child := cs.Index.Height + 1
	if child >= cs.Network.HardforkV2.AllowHeight {
		b.V2 = &types.V2BlockData{Height: child, Transactions: v2txns}
		for _, t := range v2txns {
			b.MinerPayouts[0].Value = b.MinerPayouts[0].Value.Add(t.MinerFee)
		}
		b.V2.Commitment = cs.Commitment(miner, b.Transactions, b.V2Transactions())
	}
	Mine(cs, &b)
	return b
}

// Mine finds a nonce satisfying the PoW target of cs.
func Mine(cs consensus.State, b *types.Block) {
	b.Nonce = 0
	f := cs.NonceFactor()
	for b.ID().CmpWork(cs.PoWTarget()) < 0 {
		b.Nonce += f
	}
}

// MineFail finds a nonce that does NOT satisfy the target (insufficient work corruption).
func MineFail(cs consensus.State, b *types.Block) bool {
	b.Nonce = 0
	f := cs.NonceFactor()
	for i := 0; i < 1<<20; i++ {
		if b.ID().CmpWork(cs.PoWTarget()) < 0 {
			return true
		}
		b.Nonce += f
	}
	return false
}

// TS returns the canonical timestamp for a block at height h with sibling salt (whole seconds).
func TS(n *consensus.Network, h uint64, salt int) time.Time {
	return n.HardforkOak.GenesisTimestamp.Add(time.Duration(h)*n.BlockInterval + time.Duration(salt)*time.Second)
}

func u64(v uint64) []byte { var b [8]byte; binary.LittleEndian.PutUint64(b[:], v); return b[:] }
