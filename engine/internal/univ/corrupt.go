package univ

import (
	"time"

	"go.sia.tech/core/consensus"
	"go.sia.tech/core/types"
	"verif/internal/ledger"
)

// Corruptions lists the single-block corruption kinds.
var Corruptions = []string{
	"badpow", "ts-low", "ts-future", "payout+1", "payout-1", "payout-zero", "second-payout",
	"v2-wrong-height", "v2-wrong-commitment", "v2-before-allow", "v1txn-after-require", "v2-missing",
	"bad-signature", "double-spend", "spend-missing", "bad-v2-signature", "v2-double-spend",
}

// Corrupt returns a copy of u in which node k carries corruption kind; descendants of k are
// rebuilt on top of it as header-valid coinbase-only blocks. ok=false if the corruption does not
// apply at that position (e.g. a v2-only corruption on a v1 block).
func Corrupt(u *Universe, k int, kind string) (*Universe, bool) {
	nu := NewUniverse(u.Name+"+"+kind+"@"+itoa(k), u.Regime)
	remap := map[int]int{0: 0}
	for i := 1; i < len(u.Nodes); i++ {
		old := u.Nodes[i]
		p := remap[old.Parent]
		switch {
		case i == k:
			b, ok := corruptBlock(nu, nu.Nodes[p], old.Block, kind)
			if !ok {
				return nil, false
			}
			remap[i] = nu.AddRaw(p, b, kind)
			if nu.Nodes[remap[i]].Valid {
				return nil, false // corruption had no effect on validity here
			}
		case u.IsAncestor(k, i):
			salt := 0
			for j, c := range u.Nodes[old.Parent].Children {
				if c == i {
					salt = j
				}
			}
			remap[i] = nu.AddHeaderOnly(p, salt, "on-corrupt")
		default:
			remap[i] = nu.AddRaw(p, old.Block, old.Label)
		}
	}
	return nu, true
}

func itoa(i int) string {
	if i < 10 {
		return string(rune('0' + i))
	}
	return itoa(i/10) + string(rune('0'+i%10))
}

func corruptBlock(u *Universe, p *Node, b types.Block, kind string) (types.Block, bool) {
	b = cloneBlock(b)
	cs := p.HS
	if p.Valid {
		cs = p.L.State
	}
	child := p.Height + 1
	as := u.As
	remine := func() { Mine(cs, &b) }
	recommit := func() {
		if b.V2 != nil {
			b.V2.Commitment = cs.Commitment(b.MinerPayouts[0].Address, b.Transactions, b.V2Transactions())
		}
	}
	addFee := func(f types.Currency) { b.MinerPayouts[0].Value = b.MinerPayouts[0].Value.Add(f) }
	switch kind {
	case "badpow":
		return b, MineFail(cs, &b)
	case "ts-low":
		// at or below the median of the previous timestamps
		ts := cs.PrevTimestamps[0]
		for _, t := range cs.PrevTimestamps[:min(int(child), 11)] {
			if t.Before(ts) {
				ts = t
			}
		}
		b.Timestamp = ts.Add(-time.Second)
		remine()
	case "ts-future":
		b.Timestamp = time.Now().Add(4 * time.Hour).Truncate(time.Second)
		remine()
	case "payout+1":
		b.MinerPayouts[0].Value = b.MinerPayouts[0].Value.Add(types.NewCurrency64(1))
		remine()
	case "payout-1":
		b.MinerPayouts[0].Value = b.MinerPayouts[0].Value.Sub(types.NewCurrency64(1))
		remine()
	case "payout-zero":
		b.MinerPayouts = append(b.MinerPayouts, types.SiacoinOutput{Address: as[1].Addr})
		remine()
	case "second-payout":
		if b.V2 == nil {
			return b, false
		}
		half := b.MinerPayouts[0].Value.Div64(2)
		b.MinerPayouts = []types.SiacoinOutput{{Address: b.MinerPayouts[0].Address, Value: b.MinerPayouts[0].Value.Sub(half)}, {Address: as[1].Addr, Value: half}}
		remine()
	case "v2-wrong-height":
		if b.V2 == nil {
			return b, false
		}
		b.V2.Height++
		remine()
	case "v2-wrong-commitment":
		if b.V2 == nil {
			return b, false
		}
		b.V2.Commitment[0] ^= 1
		remine()
	case "v2-before-allow":
		if b.V2 != nil || child >= cs.Network.HardforkV2.AllowHeight || !p.Valid {
			return b, false
		}
		b.V2 = &types.V2BlockData{Height: child}
		if own := OwnedSC(p.L, as[2].Addr); p.Valid && len(own) > 0 {
			// (an empty v2 body before the allow height is accepted by consensus; a v2 transaction is not)
			b.V2.Transactions = append(b.V2.Transactions, V2Spend(cs, as[2], own[0], as[1].Addr, SC(1), SC(1)))
			addFee(SC(1))
		}
		recommit()
		remine()
	case "v1txn-after-require":
		if child < cs.Network.HardforkV2.RequireHeight || !p.Valid {
			return b, false
		}
		own := OwnedSC(p.L, as[2].Addr)
		if len(own) == 0 {
			return b, false
		}
		b.Transactions = append(b.Transactions, V1Spend(cs, as[2], own[0], as[1].Addr, SC(1), types.ZeroCurrency))
		recommit()
		remine()
	case "v2-missing":
		if child < cs.Network.HardforkV2.RequireHeight || b.V2 == nil {
			return b, false
		}
		b.V2 = nil
		remine()
	case "bad-signature", "double-spend", "spend-missing":
		if child >= cs.Network.HardforkV2.RequireHeight || !p.Valid {
			return b, false
		}
		own := OwnedSC(p.L, as[2].Addr)
		if len(own) == 0 {
			return b, false
		}
		t := V1Spend(cs, as[2], own[0], as[1].Addr, SC(1), SC(1))
		switch kind {
		case "bad-signature":
			t.Signatures[0].Signature[3] ^= 0x40
			b.Transactions = append(b.Transactions, t)
			addFee(SC(1))
		case "double-spend":
			t2 := V1Spend(cs, as[2], own[0], as[3].Addr, SC(2), SC(1))
			b.Transactions = append(b.Transactions, t, t2)
			addFee(SC(2))
		case "spend-missing":
			ghost := own[0]
			ghost.ID[5] ^= 0x21
			t = V1Spend(cs, as[2], ghost, as[1].Addr, SC(1), SC(1))
			b.Transactions = append(b.Transactions, t)
			addFee(SC(1))
		}
		recommit()
		remine()
	case "bad-v2-signature", "v2-double-spend":
		if b.V2 == nil || !p.Valid {
			return b, false
		}
		own := OwnedSC(p.L, as[2].Addr)
		if len(own) == 0 {
			return b, false
		}
		t := V2Spend(cs, as[2], own[0], as[1].Addr, SC(1), SC(1))
		if kind == "bad-v2-signature" {
			t.SiacoinInputs[0].SatisfiedPolicy.Signatures[0][7] ^= 0x10
			b.V2.Transactions = append(b.V2.Transactions, t)
			addFee(SC(1))
		} else {
			t2 := V2Spend(cs, as[2], own[0], as[3].Addr, SC(2), SC(1))
			b.V2.Transactions = append(b.V2.Transactions, t, t2)
			addFee(SC(2))
		}
		recommit()
		remine()
	default:
		return b, false
	}
	return b, true
}

func cloneBlock(b types.Block) types.Block {
	c := b
	c.MinerPayouts = append([]types.SiacoinOutput(nil), b.MinerPayouts...)
	c.Transactions = append([]types.Transaction(nil), b.Transactions...)
	if b.V2 != nil {
		v := *b.V2
		v.Transactions = append([]types.V2Transaction(nil), b.V2.Transactions...)
		c.V2 = &v
	}
	return c
}

var _ = consensus.State{}
var _ = ledger.Ledger{}
