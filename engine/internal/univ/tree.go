package univ

import (
	"fmt"
	"sort"
	"strings"
	"time"

	"go.sia.tech/core/consensus"
	"go.sia.tech/core/types"
	"verif/internal/ledger"
)

// Node is one block of a universe.
type Node struct {
	ID, Parent int
	Children   []int
	Block      types.Block
	Height     uint64
	L          *ledger.Ledger  // ledger after this block; nil unless the whole chain up to here is valid
	HS         consensus.State // header-derived state (ApplyHeader chain); defined when HeaderOK for the whole chain
	Valid      bool            // genesis..this block fully valid per the reference
	HeaderOK   bool            // passes ValidateOrphan + future check at its position and all ancestors do
	Err        string          // why it is not valid
	Label      string
}

// Universe is a finite tree of pre-built blocks.
type Universe struct {
	Name    string
	Regime  Regime
	Net     *consensus.Network
	Genesis types.Block
	Nodes   []*Node
	ByID    map[types.BlockID]int
	As      [4]Actor
}

// NewUniverse creates a universe holding only genesis (node 0).
func NewUniverse(name string, reg Regime) *Universe {
	n, g := Network(reg)
	u := &Universe{Name: name, Regime: reg, Net: n, Genesis: g, ByID: map[types.BlockID]int{}, As: Actors()}
	l0 := ledger.New(n)
	l1, _, err := l0.ApplyBlock(g)
	if err != nil {
		panic(err)
	}
	hs := consensus.ApplyHeader(n.GenesisState(), g.Header(), time.Time{})
	u.Nodes = append(u.Nodes, &Node{ID: 0, Parent: -1, Block: g, Height: 0, L: l1, HS: hs, Valid: true, HeaderOK: true, Label: "genesis"})
	u.ByID[g.ID()] = 0
	return u
}

func (u *Universe) ancestorTS(parent *Node) time.Time {
	if parent.Height > u.Net.HardforkOak.Height {
		return time.Time{}
	}
	return u.Genesis.Timestamp
}

// AddRaw attaches block b under parent and classifies it with the reference.
func (u *Universe) AddRaw(parent int, b types.Block, label string) int {
	if i, ok := u.ByID[b.ID()]; ok {
		return i
	}
	p := u.Nodes[parent]
	nd := &Node{ID: len(u.Nodes), Parent: parent, Block: b, Height: p.Height + 1, Label: label}
	nd.HS = consensus.ApplyHeader(p.HS, b.Header(), u.ancestorTS(p)) // defined even for invalid headers so that descendants can be mined
	if p.HeaderOK {
		err := consensus.ValidateOrphan(p.HS, b)
		if err == nil && b.Timestamp.After(p.HS.MaxFutureTimestamp(time.Now())) {
			err = fmt.Errorf("future block")
		}
		if err == nil {
			nd.HeaderOK = true
		} else {
			nd.Err = err.Error()
		}
	} else {
		nd.Err = "ancestor not header-valid"
	}
	if p.Valid && nd.HeaderOK {
		l, _, err := p.L.ApplyBlock(b)
		if err == nil {
			nd.L, nd.Valid = l, true
		} else {
			nd.Err = err.Error()
		}
	} else if nd.Err == "" {
		nd.Err = "ancestor invalid"
	}
	u.Nodes = append(u.Nodes, nd)
	p.Children = append(p.Children, nd.ID)
	u.ByID[b.ID()] = nd.ID
	return nd.ID
}

// Truncate drops every node with an index >= n (nodes added dynamically by a finished run), so that a
// long-lived universe does not keep one reference ledger per block ever mined on it.
func (u *Universe) Truncate(n int) {
	if n >= len(u.Nodes) {
		return
	}
	for _, nd := range u.Nodes[n:] {
		delete(u.ByID, nd.Block.ID())
	}
	for _, nd := range u.Nodes[:n] {
		kept := nd.Children[:0]
		for _, c := range nd.Children {
			if c < n {
				kept = append(kept, c)
			}
		}
		nd.Children = kept
	}
	for i := n; i < len(u.Nodes); i++ {
		u.Nodes[i] = nil
	}
	u.Nodes = u.Nodes[:n]
}

// Add builds a block on a valid parent with the given transactions and attaches it.
// salt distinguishes siblings (miner address and timestamp offset).
func (u *Universe) Add(parent int, salt int, txns []types.Transaction, v2 []types.V2Transaction, label string) int {
	p := u.Nodes[parent]
	if !p.Valid {
		panic("Add on invalid parent; use AddHeaderOnly")
	}
	b := BuildBlock(p.L, TS(u.Net, p.Height+1, salt), u.As[salt%4].Addr, txns, v2)
	return u.AddRaw(parent, b, label)
}

// AddHeaderOnly builds a coinbase-only block on a parent that is only header-valid.
func (u *Universe) AddHeaderOnly(parent int, salt int, label string) int {
	p := u.Nodes[parent]
	fake := &ledger.Ledger{State: p.HS}
	b := BuildBlock(fake, TS(u.Net, p.Height+1, salt), u.As[salt%4].Addr, nil, nil)
	return u.AddRaw(parent, b, label)
}

// PathTo returns the node indices from genesis (exclusive) to k (inclusive).
func (u *Universe) PathTo(k int) []int {
	var p []int
	for k > 0 {
		p = append(p, k)
		k = u.Nodes[k].Parent
	}
	for i, j := 0, len(p)-1; i < j; i, j = i+1, j-1 {
		p[i], p[j] = p[j], p[i]
	}
	return p
}

// IsAncestor reports whether a is an ancestor of (or equal to) b.
func (u *Universe) IsAncestor(a, b int) bool {
	for b >= 0 {
		if a == b {
			return true
		}
		b = u.Nodes[b].Parent
	}
	return false
}

// Blocks returns the blocks of the given nodes.
func (u *Universe) Blocks(ks []int) []types.Block {
	bs := make([]types.Block, len(ks))
	for i, k := range ks {
		bs[i] = u.Nodes[k].Block
	}
	return bs
}

// Describe renders the tree compactly: "1<0 2<1 3<1 ..." with labels.
func (u *Universe) Describe() string {
	var sb strings.Builder
	fmt.Fprintf(&sb, "%s[%s]", u.Name, u.Regime)
	for _, n := range u.Nodes[1:] {
		v := ""
		if !n.Valid {
			v = "!"
			if !n.HeaderOK {
				v = "!!"
			}
		}
		fmt.Fprintf(&sb, " %d<%d%s", n.ID, n.Parent, v)
		if n.Label != "" {
			sb.WriteString(":" + n.Label)
		}
	}
	return sb.String()
}

// Shapes returns all unordered rooted trees with exactly n non-root nodes as parent arrays
// (parent[i] for node i+1, parents precede children).
func Shapes(n int) [][]int {
	seen := map[string]bool{}
	var out [][]int
	par := make([]int, n)
	var canon func(children map[int][]int, v int) string
	canon = func(children map[int][]int, v int) string {
		var cs []string
		for _, c := range children[v] {
			cs = append(cs, canon(children, c))
		}
		sort.Strings(cs)
		return "(" + strings.Join(cs, "") + ")"
	}
	var rec func(i int)
	rec = func(i int) {
		if i == n {
			ch := map[int][]int{}
			for k, p := range par {
				ch[p] = append(ch[p], k+1)
			}
			c := canon(ch, 0)
			if !seen[c] {
				seen[c] = true
				out = append(out, append([]int(nil), par...))
			}
			return
		}
		for p := 0; p <= i; p++ {
			par[i] = p
			rec(i + 1)
		}
	}
	rec(0)
	return out
}
