// Package node wraps the system under test: recording DB + chain.DBStore + chain.Manager,
// with canonical dumps and the shared best-chain audit.
package node

import (
	"bytes"
	"crypto/sha256"
	"encoding/binary"
	"fmt"
	"sort"

	"go.sia.tech/core/consensus"
	"go.sia.tech/core/types"
	"go.sia.tech/coreutils/chain"
	"verif/internal/recdb"
	"verif/internal/univ"
)

// Node is one manager under test.
type Node struct {
	U     *univ.Universe
	DB    *recdb.DB
	Store *chain.DBStore
	Obs   *ObsStore
	CM    *chain.Manager
}

// New creates a node at genesis of u.
func New(u *univ.Universe) *Node {
	db := recdb.New()
	return Open(u, db)
}

// Open opens a node over an existing DB.
func Open(u *univ.Universe, db *recdb.DB) *Node {
	n, err := TryOpen(u, db)
	if err != nil {
		panic(err)
	}
	return n
}

// TryOpen opens a node over an existing DB, returning errors.
func TryOpen(u *univ.Universe, db *recdb.DB) (*Node, error) {
	store, tip, err := chain.NewDBStore(db, u.Net, u.Genesis, nil)
	if err != nil {
		return nil, err
	}
	n := &Node{U: u, DB: db, Store: store}
	n.Obs = &ObsStore{DBStore: store, n: n}
	n.CM = chain.NewManager(n.Obs, tip)
	return n, nil
}

// Enc encodes v canonically.
func Enc(v types.EncoderTo) []byte {
	var buf bytes.Buffer
	e := types.NewEncoder(&buf)
	v.EncodeTo(e)
	e.Flush()
	return buf.Bytes()
}

// StateBytes encodes a consensus state.
func StateBytes(cs consensus.State) []byte { return Enc(cs) }

// Key returns the state key of the node: store bytes (session view) and tip state; with pool=true also
// the transaction pool's private state (transactions, last-reverted lists, cache flags).
func (n *Node) Key(pool bool) [32]byte {
	h := sha256.New()
	dh := n.DB.Hash()
	h.Write(dh[:])
	h.Write(StateBytes(n.CM.TipState()))
	if pool {
		h.Write(n.CM.VerifPoolKey())
	}
	var k [32]byte
	copy(k[:], h.Sum(nil))
	return k
}

// BestChain returns the indices BestIndex(0..tip).
func (n *Node) BestChain() ([]types.ChainIndex, error) {
	tip := n.CM.Tip()
	var out []types.ChainIndex
	for h := uint64(0); h <= tip.Height; h++ {
		idx, ok := n.CM.BestIndex(h)
		if !ok {
			return nil, fmt.Errorf("BestIndex(%d) missing below tip %v", h, tip)
		}
		out = append(out, idx)
	}
	return out, nil
}

func encHeight(h uint64) string {
	var b [8]byte
	binary.BigEndian.PutUint64(b[:], h)
	return string(b[:])
}

func treeKey(row, col uint64) string {
	var b [4]byte
	binary.BigEndian.PutUint32(b[:], uint32(((1<<row)-1)<<(32-row)|col))
	return string(b[:])
}

// CanonDump renders everything the store serves for the current best chain: MainChain,
// States and Blocks (with supplements) of best-chain ids, the element buckets (elements and
// expiration lists in order), and for every stored element the Merkle proof the store would
// hand out (read from the Tree bucket the way the store does), instead of raw Tree bytes,
// which legitimately keep stale nodes.
func (n *Node) CanonDump() (map[string]string, error) {
	out := map[string]string{}
	cur := n.DB.Current()
	best, err := n.BestChain()
	if err != nil {
		return nil, err
	}
	for k, v := range cur["MainChain"] {
		out["MainChain/"+fmt.Sprintf("%x", k)] = fmt.Sprintf("%x", v)
	}
	for _, idx := range best {
		out["States/"+idx.String()] = fmt.Sprintf("%x", cur["States"][string(idx.ID[:])])
		out["Blocks/"+idx.String()] = fmt.Sprintf("%x", cur["Blocks"][string(idx.ID[:])])
	}
	tipState := n.CM.TipState()
	numLeaves := tipState.Elements.NumLeaves
	live := tipState.Index.Height <= n.U.Net.HardforkV2.RequireHeight
	for _, b := range []string{"SiacoinElements", "SiafundElements", "FileContracts"} {
		for k, v := range cur[b] {
			out[b+"/"+fmt.Sprintf("%x", k)] = fmt.Sprintf("%x", v)
			if !live || (b == "FileContracts" && len(k) == 8) {
				continue
			}
			// the element with the Merkle proof the store hands out for it, obtained through the
			// store's own API (SupplementTipTransaction), plus a check against the tip accumulator
			var txn types.Transaction
			switch b {
			case "SiacoinElements":
				txn.SiacoinInputs = []types.SiacoinInput{{ParentID: types.SiacoinOutputID([]byte(k))}}
			case "SiafundElements":
				txn.SiafundInputs = []types.SiafundInput{{ParentID: types.SiafundOutputID([]byte(k))}}
			default:
				txn.FileContractRevisions = []types.FileContractRevision{{ParentID: types.FileContractID([]byte(k))}}
			}
			served, perr := func() (s string, err error) {
				defer func() {
					if r := recover(); r != nil {
						err = fmt.Errorf("SupplementTipTransaction panicked: %v", r)
					}
				}()
				ts := n.Store.SupplementTipTransaction(txn)
				var v2 types.V2Transaction
				for _, e := range ts.SiacoinInputs {
					v2.SiacoinInputs = append(v2.SiacoinInputs, types.V2SiacoinInput{Parent: e.Copy()})
				}
				for _, e := range ts.SiafundInputs {
					v2.SiafundInputs = append(v2.SiafundInputs, types.V2SiafundInput{Parent: e.Copy()})
				}
				if len(v2.SiacoinInputs)+len(v2.SiafundInputs) > 0 {
					if err := tipState.Elements.ValidateTransactionElements(v2); err != nil {
						return "", fmt.Errorf("served proof does not verify against the tip accumulator: %v", err)
					}
				}
				return fmt.Sprintf("%x", Enc(ts)), nil
			}()
			if perr != nil {
				return nil, fmt.Errorf("%s/%x: %v", b, k, perr)
			}
			out[b+"/"+fmt.Sprintf("%x", k)+"/served"] = served
		}
	}
	_ = numLeaves
	return out, nil
}

func leafIndexOf(bucket string, v []byte) (uint64, bool) {
	d := types.NewBufDecoder(v)
	switch bucket {
	case "SiacoinElements":
		var e types.SiacoinElement
		e.DecodeFrom(d)
		return e.StateElement.LeafIndex, d.Err() == nil
	case "SiafundElements":
		var e types.SiafundElement
		e.DecodeFrom(d)
		return e.StateElement.LeafIndex, d.Err() == nil
	default:
		var e types.FileContractElement
		e.DecodeFrom(d)
		return e.StateElement.LeafIndex, d.Err() == nil
	}
}

// DiffDumps returns the sorted keys on which two canonical dumps differ.
func DiffDumps(a, b map[string]string) []string {
	var ks []string
	for k, v := range a {
		if b[k] != v {
			ks = append(ks, k)
		}
	}
	for k := range b {
		if _, ok := a[k]; !ok {
			ks = append(ks, k)
		}
	}
	sort.Strings(ks)
	return ks
}

// Audit is the shared best-chain audit (C01): parent links, every block is a block the
// reference accepted at that position, tip/state agreement with the independent replay.
func (n *Node) Audit() error {
	u := n.U
	best, err := n.BestChain()
	if err != nil {
		return err
	}
	tipState := n.CM.TipState()
	tip := n.CM.Tip()
	if tip != tipState.Index {
		return fmt.Errorf("Tip() %v != TipState().Index %v", tip, tipState.Index)
	}
	if last := best[len(best)-1]; last != tip {
		return fmt.Errorf("BestIndex(tip height) %v != Tip() %v", last, tip)
	}
	if idx, ok := n.CM.BestIndex(tip.Height + 1); ok {
		return fmt.Errorf("BestIndex(tip+1) present: %v", idx)
	}
	prev := -1
	for h, idx := range best {
		k, ok := u.ByID[idx.ID]
		if !ok {
			return fmt.Errorf("best chain holds unknown block %v", idx)
		}
		nd := u.Nodes[k]
		if nd.Parent != prev || nd.Height != uint64(h) {
			return fmt.Errorf("best chain not parent-linked at height %d (node %d parent %d, expected parent %d)", h, k, nd.Parent, prev)
		}
		if !nd.Valid {
			return fmt.Errorf("INVALID block on best chain at height %d: node %d (%s): %s", h, k, nd.Label, nd.Err)
		}
		b, ok := n.CM.Block(idx.ID)
		if !ok {
			// pruned bodies are allowed (C19); header must still be there
		} else if b.ID() != idx.ID || b.ParentID != nd.Block.ParentID {
			return fmt.Errorf("Block(%v) returns a different block", idx)
		} else if !bytes.Equal(Enc(types.V2Block(b)), Enc(types.V2Block(nd.Block))) {
			// (a block id does not cover the whole body: a v2 id does not bind payout values or the v2 height)
			return fmt.Errorf("Block(%v) has the right id but a body that differs from the block that was validated", idx)
		}
		cs, ok := n.CM.State(idx.ID)
		if !ok {
			return fmt.Errorf("State(%v) missing for best-chain block", idx)
		}
		if !bytes.Equal(StateBytes(cs), StateBytes(nd.L.State)) {
			return fmt.Errorf("State(%v) differs from independent replay at height %d", idx, h)
		}
		prev = k
	}
	want := u.Nodes[prev].L.State
	if !bytes.Equal(StateBytes(tipState), StateBytes(want)) || tipState.Network != u.Net {
		return fmt.Errorf("TipState() differs from independent replay of the best chain")
	}
	// History / Headers consistency
	hist, err := n.CM.History()
	if err != nil {
		return fmt.Errorf("History: %v", err)
	}
	if hist[0] != tip.ID {
		return fmt.Errorf("History()[0] %v != tip %v", hist[0], tip.ID)
	}
	for i, id := range hist {
		if id == (types.BlockID{}) {
			continue
		}
		k, ok := u.ByID[id]
		if !ok || !u.IsAncestor(k, prev) {
			return fmt.Errorf("History()[%d] = %v is not on the best chain", i, id)
		}
	}
	hdrs, rem, err := n.CM.Headers(best[0], 1000)
	if err != nil {
		return fmt.Errorf("Headers from genesis: %v", err)
	}
	if len(hdrs) != len(best)-1 || rem != 0 {
		return fmt.Errorf("Headers from genesis returned %d headers, %d remaining; chain has %d", len(hdrs), rem, len(best)-1)
	}
	for i, bh := range hdrs {
		if bh.ID() != best[i+1].ID {
			return fmt.Errorf("Headers()[%d] is not the best-chain block at height %d", i, i+1)
		}
	}
	return nil
}

// TipNode returns the universe node index of the tip, or -1.
func (n *Node) TipNode() int {
	if k, ok := n.U.ByID[n.CM.Tip().ID]; ok {
		return k
	}
	return -1
}
