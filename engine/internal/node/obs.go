package node

import (
	"fmt"
	"sort"
	"strings"

	"go.sia.tech/core/consensus"
	"go.sia.tech/core/types"
	"go.sia.tech/coreutils/chain"
)

// ExpMismatch describes the first block-granular divergence of the store's expiration lists from
// the reference ledger's (linear discipline) lists for the same tip.
type ExpMismatch struct {
	OnRevert   bool
	OrderOnly  bool
	Height     uint64
	Perm       string // got order expressed as positions in the wanted order
	Reinserted string // positions (in the wanted order) of the ids this revert put back
	Tip        string
	// PrependAfterSwapRemove: the observed order is exactly what "removal = swap-remove, revert = prepend"
	// produces from the linear order for the single id this revert put back (the recorded known finding).
	PrependAfterSwapRemove bool
}

// Signature is the structural signature of the mismatch.
func (m *ExpMismatch) Signature() string {
	ev := "apply"
	if m.OnRevert {
		ev = "revert"
	}
	if !m.OrderOnly {
		return "c02:expiration-list-content:on-" + ev
	}
	if m.PrependAfterSwapRemove {
		return "c02:expiration-order:revert-prepends-after-swap-remove"
	}
	return fmt.Sprintf("c02:expiration-order:on-%s:perm=%s:reinserted=%s", ev, m.Perm, m.Reinserted)
}

// ObsStore wraps the real store and checks the expiration lists after every single block
// apply/revert (also inside multi-block reorgs) against the reference ledger of that tip.
type ObsStore struct {
	*chain.DBStore
	n     *Node
	First *ExpMismatch
	// CoreRevert is set when, right after the revert of a block that both revised and resolved one v1
	// contract, a proof the store serves no longer verifies (core's RevertBlock derives the restored leaf
	// from the diff, which holds the revised contract; see DESIGN A.3)
	CoreRevert string
	Hook  func(applied bool, tip types.ChainIndex) // optional extra observer
}

func (s *ObsStore) check(onRevert bool, tip types.ChainIndex, reinserted []types.FileContractID) {
	if s.First != nil {
		return
	}
	u := s.n.U
	k, ok := u.ByID[tip.ID]
	if !ok || !u.Nodes[k].Valid || tip.Height > u.Net.HardforkV2.RequireHeight {
		return
	}
	ref := u.Nodes[k].L.Exp
	heights := map[uint64]bool{}
	for h := range ref {
		heights[h] = true
	}
	for h := uint64(0); h <= tip.Height+12; h++ {
		heights[h] = true
	}
	var hs []uint64
	for h := range heights {
		hs = append(hs, h)
	}
	sort.Slice(hs, func(i, j int) bool { return hs[i] < hs[j] })
	for _, h := range hs {
		got := s.DBStore.ExpiringFileContractIDs(h)
		want := ref[h]
		same := len(got) == len(want)
		for i := 0; same && i < len(got); i++ {
			same = got[i] == want[i]
		}
		if same {
			continue
		}
		m := &ExpMismatch{OnRevert: onRevert, Height: h, Tip: u.Nodes[k].Label}
		pos := map[types.FileContractID]int{}
		for i, id := range want {
			pos[id] = i
		}
		m.OrderOnly = len(got) == len(want)
		var perm []string
		seen := map[int]bool{}
		for _, id := range got {
			p, ok := pos[id]
			if !ok || seen[p] {
				m.OrderOnly = false
			}
			seen[p] = true
			perm = append(perm, fmt.Sprint(p))
		}
		m.Perm = strings.Join(perm, ",")
		var re []string
		for _, id := range reinserted {
			if p, ok := pos[id]; ok {
				re = append(re, fmt.Sprint(p))
			}
		}
		sort.Strings(re)
		m.Reinserted = strings.Join(re, ",")
		if m.OrderOnly && onRevert && len(reinserted) == 1 {
			if p, ok := pos[reinserted[0]]; ok {
				exp := append([]types.FileContractID(nil), want...)
				exp[p] = exp[len(exp)-1]
				exp = append([]types.FileContractID{reinserted[0]}, exp[:len(exp)-1]...)
				m.PrependAfterSwapRemove = true
				for i := range exp {
					if exp[i] != got[i] {
						m.PrependAfterSwapRemove = false
					}
				}
			}
		}
		s.First = m
		return
	}
}

// ApplyBlock implements chain.Store.
func (s *ObsStore) ApplyBlock(cs consensus.State, cau consensus.ApplyUpdate) {
	s.DBStore.ApplyBlock(cs, cau)
	s.check(false, cs.Index, nil)
	if s.Hook != nil {
		s.Hook(true, cs.Index)
	}
}

// RevertBlock implements chain.Store.
func (s *ObsStore) RevertBlock(cs consensus.State, cru consensus.RevertUpdate) {
	s.DBStore.RevertBlock(cs, cru)
	var re []types.FileContractID
	for _, d := range cru.FileContractElementDiffs() {
		switch {
		case d.Created && d.Resolved:
		case d.Resolved:
			re = append(re, d.FileContractElement.ID)
		case d.Revision != nil && d.Revision.WindowEnd != d.FileContractElement.FileContract.WindowEnd:
			re = append(re, d.FileContractElement.ID)
		}
	}
	for _, d := range cru.FileContractElementDiffs() {
		if d.Resolved && d.Revision != nil && !d.Created && s.CoreRevert == "" {
			if err := s.proofs(cs); err != nil {
				s.CoreRevert = fmt.Sprintf("after reverting to %v: %v", cs.Index, err)
			}
		}
	}
	s.check(true, cs.Index, re)
	if s.Hook != nil {
		s.Hook(false, cs.Index)
	}
}

// proofs checks every siacoin element proof the store serves against the accumulator of cs (the tip).
func (s *ObsStore) proofs(cs consensus.State) (err error) {
	defer func() {
		if r := recover(); r != nil {
			err = fmt.Errorf("SupplementTipTransaction panicked: %v", r)
		}
	}()
	if cs.Index.Height > s.n.U.Net.HardforkV2.RequireHeight {
		return nil
	}
	var ids []string
	for k := range s.n.DB.Current()["SiacoinElements"] {
		ids = append(ids, k)
	}
	sort.Strings(ids)
	for _, k := range ids {
		ts := s.DBStore.SupplementTipTransaction(types.Transaction{SiacoinInputs: []types.SiacoinInput{{ParentID: types.SiacoinOutputID([]byte(k))}}})
		var v2 types.V2Transaction
		for _, e := range ts.SiacoinInputs {
			v2.SiacoinInputs = append(v2.SiacoinInputs, types.V2SiacoinInput{Parent: e.Copy()})
		}
		if len(v2.SiacoinInputs) > 0 {
			if err := cs.Elements.ValidateTransactionElements(v2); err != nil {
				return fmt.Errorf("the proof served for siacoin element %x does not verify: %v", k, err)
			}
		}
	}
	return nil
}
