package memnet

import (
	"io"
	"net"
	"os"
	"sync"
	"time"
)

// half is one direction of a buffered in-memory connection.
type half struct {
	mu       sync.Mutex
	cond     *sync.Cond
	buf      []byte
	closed   bool // writer closed
	rclosed  bool // reader closed
	deadline time.Time
	timer    *time.Timer
	parked   int // readers waiting for data
}

func newHalf() *half {
	h := &half{}
	h.cond = sync.NewCond(&h.mu)
	return h
}

func (h *half) setDeadline(t time.Time) {
	h.mu.Lock()
	h.deadline = t
	if h.timer != nil {
		h.timer.Stop()
		h.timer = nil
	}
	if !t.IsZero() {
		d := time.Until(t)
		if d < 0 {
			d = 0
		}
		h.timer = time.AfterFunc(d, func() {
			h.mu.Lock()
			h.cond.Broadcast()
			h.mu.Unlock()
		})
	}
	h.cond.Broadcast()
	h.mu.Unlock()
}

func (h *half) read(p []byte) (int, error) {
	h.mu.Lock()
	defer h.mu.Unlock()
	for {
		if h.rclosed {
			return 0, io.ErrClosedPipe
		}
		if len(h.buf) > 0 {
			n := copy(p, h.buf)
			h.buf = h.buf[n:]
			return n, nil
		}
		if h.closed {
			return 0, io.EOF
		}
		if !h.deadline.IsZero() && !time.Now().Before(h.deadline) {
			return 0, os.ErrDeadlineExceeded
		}
		h.parked++
		h.cond.Wait()
		h.parked--
	}
}

func (h *half) write(p []byte) (int, error) {
	h.mu.Lock()
	defer h.mu.Unlock()
	if h.closed || h.rclosed {
		return 0, io.ErrClosedPipe
	}
	h.buf = append(h.buf, p...)
	h.cond.Broadcast()
	return len(p), nil
}

// bufConn is a buffered, full-duplex in-memory connection (writes never block, like a socket with a
// large send buffer).
type bufConn struct {
	r, w   *half
	wdl    time.Time
	wmu    sync.Mutex
	closed sync.Once
}

func (c *bufConn) Read(p []byte) (int, error) { return c.r.read(p) }
func (c *bufConn) Write(p []byte) (int, error) {
	c.wmu.Lock()
	dl := c.wdl
	c.wmu.Unlock()
	if !dl.IsZero() && !time.Now().Before(dl) {
		return 0, os.ErrDeadlineExceeded
	}
	return c.w.write(p)
}
func (c *bufConn) Close() error {
	c.closed.Do(func() {
		c.w.mu.Lock()
		c.w.closed = true
		c.w.cond.Broadcast()
		c.w.mu.Unlock()
		c.r.mu.Lock()
		c.r.rclosed = true
		c.r.cond.Broadcast()
		c.r.mu.Unlock()
	})
	return nil
}
func (c *bufConn) LocalAddr() net.Addr  { return nil }
func (c *bufConn) RemoteAddr() net.Addr { return nil }
func (c *bufConn) SetDeadline(t time.Time) error {
	c.SetReadDeadline(t)
	return c.SetWriteDeadline(t)
}
func (c *bufConn) SetReadDeadline(t time.Time) error { c.r.setDeadline(t); return nil }
func (c *bufConn) SetWriteDeadline(t time.Time) error {
	c.wmu.Lock()
	c.wdl = t
	c.wmu.Unlock()
	return nil
}

// Pipe returns a buffered in-memory connection pair.
func Pipe() (net.Conn, net.Conn) {
	a, b := newHalf(), newHalf()
	return &bufConn{r: a, w: b}, &bufConn{r: b, w: a}
}

// PeerState reports, for one end of a Pipe (possibly wrapped by this package), whether the other end is
// currently parked in Read with nothing left to consume (it has processed everything written so far), and
// whether the other end has closed the connection.
func PeerState(c net.Conn) (parked, closed bool) {
	if a, ok := c.(addrConn); ok {
		c = a.Conn
	}
	b, ok := c.(*bufConn)
	if !ok {
		panic("memnet: PeerState on a foreign connection")
	}
	b.w.mu.Lock()
	parked = b.w.parked > 0 && len(b.w.buf) == 0
	closed = b.w.rclosed
	b.w.mu.Unlock()
	b.r.mu.Lock()
	closed = closed || b.r.closed
	b.r.mu.Unlock()
	return
}
