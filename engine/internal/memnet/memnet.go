// Package memnet is an in-process network for syncer harnesses: listeners and dialers joined by
// net.Pipe connections that report configurable TCP addresses (so that subnet logic sees distinct IPs).
package memnet

import (
	"context"
	"errors"
	"fmt"
	"net"
	"sync"
)

// Net is one in-memory network.
type Net struct {
	mu        sync.Mutex
	listeners map[string]*Listener
	nextPort  int
	// OnDial, if set, can veto or observe a dial (from, to).
	OnDial func(from, to string) error
}

// New returns an empty network.
func New() *Net { return &Net{listeners: map[string]*Listener{}, nextPort: 40000} }

type addrConn struct {
	net.Conn
	local, remote net.Addr
}

func (c addrConn) LocalAddr() net.Addr  { return c.local }
func (c addrConn) RemoteAddr() net.Addr { return c.remote }

func tcp(addr string) net.Addr {
	a, err := net.ResolveTCPAddr("tcp", addr)
	if err != nil {
		panic(fmt.Sprintf("memnet: bad address %q: %v", addr, err))
	}
	return a
}

// Listener implements net.Listener.
type Listener struct {
	n      *Net
	addr   string
	ch     chan net.Conn
	closed chan struct{}
	once   sync.Once
}

// Listen opens a listener on addr ("10.0.0.1:9000").
func (n *Net) Listen(addr string) *Listener {
	n.mu.Lock()
	defer n.mu.Unlock()
	l := &Listener{n: n, addr: addr, ch: make(chan net.Conn, 64), closed: make(chan struct{})}
	n.listeners[addr] = l
	return l
}

func (l *Listener) Accept() (net.Conn, error) {
	select {
	case c := <-l.ch:
		return c, nil
	case <-l.closed:
		return nil, net.ErrClosed
	}
}

func (l *Listener) Close() error {
	l.once.Do(func() {
		close(l.closed)
		l.n.mu.Lock()
		if l.n.listeners[l.addr] == l {
			delete(l.n.listeners, l.addr)
		}
		l.n.mu.Unlock()
	})
	return nil
}

func (l *Listener) Addr() net.Addr { return tcp(l.addr) }

// Dialer dials from a fixed source IP.
type Dialer struct {
	N      *Net
	FromIP string
}

// DialContext implements syncer.Dialer.
func (d *Dialer) DialContext(ctx context.Context, _, address string) (net.Conn, error) {
	return d.N.Dial(ctx, d.FromIP, address)
}

// Dial connects fromIP (an ephemeral port is assigned) to the listener at address.
func (n *Net) Dial(ctx context.Context, fromIP, address string) (net.Conn, error) {
	n.mu.Lock()
	l := n.listeners[address]
	n.nextPort++
	from := fmt.Sprintf("%s:%d", fromIP, n.nextPort)
	hook := n.OnDial
	n.mu.Unlock()
	if hook != nil {
		if err := hook(from, address); err != nil {
			return nil, err
		}
	}
	if l == nil {
		return nil, errors.New("memnet: connection refused: " + address)
	}
	c1, c2 := Pipe()
	client := addrConn{c1, tcp(from), tcp(address)}
	server := addrConn{c2, tcp(address), tcp(from)}
	select {
	case l.ch <- server:
		return client, nil
	case <-l.closed:
		return nil, errors.New("memnet: connection refused: " + address)
	case <-ctx.Done():
		return nil, ctx.Err()
	}
}
