// Package ev writes evidence files, replay artefacts and the VIOLATION /
// KNOWN-FINDING lines required by the harness interface.
package ev

import (
	"crypto/sha256"
	"encoding/hex"
	"encoding/json"
	"fmt"
	"os"
	"path/filepath"
	"runtime/debug"
	"sort"
	"strconv"
	"strings"
	"sync"
	"time"
)

// Root is /verif (overridable for tests).
var Root = func() string {
	if r := os.Getenv("VERIF_ROOT"); r != "" {
		return r
	}
	return "/verif"
}()

// Run collects what one check invocation covered.
type Run struct {
	mu sync.Mutex

	Property string
	Tier     string
	Level    string
	Seed     int64
	start    time.Time

	States      int64
	Transitions int64
	Traces      int64 // executions of the real implementation
	Evaluations int64
	distinct    map[[16]byte]struct{}
	DistinctN   int64 // used when distinct set is tracked externally
	Rule        string
	Samples     []any
	Exhaustive  bool
	Explanation string
	Assumptions []string
	Extra       map[string]any

	violations []Violation
	known      []string
	knownFile  []KnownFinding
	deadline   time.Time
	capped     []string
	replaySig  string // replay mode: only this signature counts
	replayPath string
}

// SetReplay puts the run into replay mode: the check is executed as usual, but only a violation with the
// signature stored in the replay file is reported (exit 1 if it is reproduced, 0 otherwise), and the evidence
// file is left alone.
func (r *Run) SetReplay(path string) {
	buf, err := os.ReadFile(path)
	if err != nil {
		HarnessError("replay: %v", err)
	}
	var f struct {
		Property  string `json:"property"`
		Signature string `json:"signature"`
	}
	if err := json.Unmarshal(buf, &f); err != nil || f.Signature == "" {
		HarnessError("replay: %s is not a replay file written by this harness", path)
	}
	if f.Property != r.Property {
		HarnessError("replay: %s belongs to property %s, not %s", path, f.Property, r.Property)
	}
	r.replaySig, r.replayPath = f.Signature, path
	fmt.Printf("replaying %s (signature %s)\n", path, f.Signature)
}

// Violation is one failing case.
type Violation struct {
	Signature string // structural signature used for known-finding matching
	What      string
	Replay    any
	Path      string
}

// KnownFinding is one entry of /verif/known_findings.json.
type KnownFinding struct {
	Status    string `json:"status"` // "known" or "fixed"
	Property  string `json:"property"`
	Signature string `json:"signature"`
	What      string `json:"what"`
	Commit    string `json:"commit,omitempty"`
	Witness   any    `json:"witness,omitempty"`
}

// New starts a run. tier is taken from argument or VERIF_TIER.
func New(property, tier, level string) *Run {
	if tier == "" {
		tier = os.Getenv("VERIF_TIER")
	}
	if tier != "thorough" {
		tier = "quick"
	}
	seed, _ := strconv.ParseInt(os.Getenv("VERIF_SEED"), 10, 64)
	// the explorations allocate and drop whole worlds at a high rate; without a soft limit the collector lets
	// the heap of a 16-core run grow to tens of GB before it catches up (the sandbox has no memory cgroup)
	debug.SetMemoryLimit(16 << 30)
	r := &Run{Property: property, Tier: tier, Level: level, Seed: seed, start: time.Now(),
		distinct: make(map[[16]byte]struct{}), Exhaustive: true, Extra: map[string]any{}}
	if buf, err := os.ReadFile(filepath.Join(Root, "known_findings.json")); err == nil {
		var all []KnownFinding
		if err := json.Unmarshal(buf, &all); err != nil {
			fmt.Fprintln(os.Stderr, "harness error: known_findings.json does not parse:", err)
			os.Exit(2)
		}
		for _, k := range all {
			if k.Property == property {
				r.knownFile = append(r.knownFile, k)
			}
		}
	}
	return r
}

// Thorough reports whether the thorough tier is selected.
func (r *Run) Thorough() bool { return r.Tier == "thorough" }

// SetBudget sets an internal wall-clock budget; Expired() turns true afterwards.
func (r *Run) SetBudget(d time.Duration) { r.deadline = r.start.Add(d) }

// Expired reports whether the budget is used up. A caller that stops because
// of it must call Cap.
func (r *Run) Expired() bool { return !r.deadline.IsZero() && time.Now().After(r.deadline) }

// Cap records that a cap was hit (run no longer exhaustive).
func (r *Run) Cap(what string) {
	r.mu.Lock()
	defer r.mu.Unlock()
	r.Exhaustive = false
	for _, c := range r.capped {
		if c == what {
			return
		}
	}
	r.capped = append(r.capped, what)
}

// Distinct records a distinct non-trivial case by key; returns true if new.
func (r *Run) Distinct(key ...any) bool {
	h := sha256.New()
	for _, k := range key {
		switch v := k.(type) {
		case []byte:
			h.Write(v)
		case string:
			h.Write([]byte(v))
		default:
			fmt.Fprint(h, v)
		}
		h.Write([]byte{0})
	}
	var k16 [16]byte
	copy(k16[:], h.Sum(nil))
	r.mu.Lock()
	defer r.mu.Unlock()
	if _, ok := r.distinct[k16]; ok {
		return false
	}
	r.distinct[k16] = struct{}{}
	return true
}

// Sample keeps up to n samples.
func (r *Run) Sample(s any) {
	r.mu.Lock()
	defer r.mu.Unlock()
	if len(r.Samples) < 6 {
		r.Samples = append(r.Samples, s)
	}
}

// Add adds to counters under lock.
func (r *Run) Add(states, transitions, traces, evals int64) {
	r.mu.Lock()
	r.States += states
	r.Transitions += transitions
	r.Traces += traces
	r.Evaluations += evals
	r.mu.Unlock()
}

// Violate records a violation (deduplicated by signature: only the first
// witness of each signature is kept, but all are counted).
func (r *Run) Violate(signature, what string, replay any) {
	r.mu.Lock()
	defer r.mu.Unlock()
	if r.replaySig != "" && signature != r.replaySig {
		return
	}
	for _, k := range r.knownFile {
		if k.Status == "known" && k.Signature == signature && r.replaySig == "" {
			line := fmt.Sprintf("KNOWN-FINDING: property=%s %s [%s]", r.Property, k.What, signature)
			for _, l := range r.known {
				if l == line {
					return
				}
			}
			r.known = append(r.known, line)
			return
		}
	}
	for _, v := range r.violations {
		if v.Signature == signature {
			return
		}
	}
	if len(r.violations) >= 20 {
		return
	}
	r.violations = append(r.violations, Violation{Signature: signature, What: what, Replay: replay})
}

// NumViolations returns the number of distinct violation signatures so far.
func (r *Run) NumViolations() int {
	r.mu.Lock()
	defer r.mu.Unlock()
	return len(r.violations)
}

// Finish writes evidence, prints lines and exits with the right code.
func (r *Run) Finish() {
	code := r.finish()
	os.Exit(code)
}

func (r *Run) finish() int {
	r.mu.Lock()
	defer r.mu.Unlock()
	os.MkdirAll(filepath.Join(Root, "evidence"), 0o755)
	os.MkdirAll(filepath.Join(Root, "replays"), 0o755)
	for i := range r.violations {
		if r.replaySig != "" {
			break
		}
		v := &r.violations[i]
		sum := sha256.Sum256([]byte(v.Signature))
		v.Path = filepath.Join(Root, "replays", fmt.Sprintf("%s-%s.json", r.Property, hex.EncodeToString(sum[:6])))
		buf, _ := json.MarshalIndent(map[string]any{"property": r.Property, "signature": v.Signature, "what": v.What, "replay": v.Replay}, "", " ")
		os.WriteFile(v.Path, buf, 0o644)
	}
	distinct := int64(len(r.distinct)) + r.DistinctN
	if len(r.Samples) == 0 {
		r.Samples = []any{"(no sample recorded)"}
	}
	expl := r.Explanation
	if len(r.capped) > 0 {
		sort.Strings(r.capped)
		expl += " CAPS HIT: " + strings.Join(r.capped, "; ")
	}
	cov := map[string]any{
		"evaluations":                   max64(r.Evaluations, 1),
		"distinct_nontrivial":           distinct,
		"rule":                          r.Rule,
		"samples":                       r.Samples,
		"states":                        max64(r.States, 1),
		"transitions":                   max64(r.Transitions, 1),
		"traces_validated_against_impl": r.Traces,
		"exhaustive":                    r.Exhaustive,
		"explanation":                   expl,
	}
	for k, v := range r.Extra {
		cov[k] = v
	}
	evd := map[string]any{
		"property_id": r.Property,
		"tier":        r.Tier,
		"seed":        r.Seed,
		"level":       r.Level,
		"coverage":    cov,
		"assumptions": append([]string{}, r.Assumptions...),
		"wall_s":      time.Since(r.start).Seconds(),
		"violations":  len(r.violations),
	}
	if len(r.known) > 0 {
		evd["known_findings_seen"] = r.known
	}
	buf, _ := json.MarshalIndent(evd, "", " ")
	if r.replaySig != "" {
		if len(r.violations) == 0 {
			fmt.Printf("replay: signature %s was NOT reproduced on the current tree\n", r.replaySig)
			return 0
		}
		for _, v := range r.violations {
			fmt.Printf("replay: reproduced: %s\n", v.What)
			fmt.Printf("VIOLATION property=%s replay=%s\n", r.Property, r.replayPath)
		}
		return 1
	}
	if err := os.WriteFile(filepath.Join(Root, "evidence", r.Property+".json"), buf, 0o644); err != nil {
		fmt.Fprintln(os.Stderr, "harness error: cannot write evidence:", err)
		return 2
	}
	for _, l := range r.known {
		fmt.Println(l)
	}
	fmt.Printf("%s %s: states=%d transitions=%d executions=%d evaluations=%d distinct=%d exhaustive=%v wall=%.1fs\n",
		r.Property, r.Tier, r.States, r.Transitions, r.Traces, r.Evaluations, distinct, r.Exhaustive, time.Since(r.start).Seconds())
	if len(r.violations) > 0 {
		for _, v := range r.violations {
			fmt.Printf("  violation: %s\n", v.What)
			fmt.Printf("VIOLATION property=%s replay=%s\n", r.Property, v.Path)
		}
		return 1
	}
	return 0
}

func max64(a, b int64) int64 {
	if a > b {
		return a
	}
	return b
}

// HarnessError aborts with exit 2 (never a VIOLATION).
func HarnessError(format string, args ...any) {
	fmt.Fprintf(os.Stderr, "harness error: "+format+"\n", args...)
	os.Exit(2)
}
