#!/bin/bash
# racepass.sh: free-running race-detector pass over the harness bodies that start real goroutines of the
# repository (syncer clusters, scripted peers, rhp server). Not a registered check: the cooperative
# scheduler's hand-offs are happens-before edges, so the detector can only see something in runs that are not
# scheduled by it; this pass is the complement. Evidence and replays go to a scratch root.
export GOFLAGS=-mod=mod GOPROXY=off GOSUMDB=off GOTOOLCHAIN=local
ROOT=/verif
SCR=$(mktemp -d)
cp $ROOT/known_findings.json $SCR/
cd $ROOT/engine || exit 2
$ROOT/.build/bin/overlaygen $ROOT/.build || exit 2
rc=0
for c in c18 syncmc rhpmc; do
  go1.26 build -race -tags verif -overlay $ROOT/.build/overlay.json -o $SCR/$c ./cmd/$c || exit 2
done
run() { echo "== $*"; VERIF_ROOT=$SCR "$@" > $SCR/out.log 2>&1; n=$(grep -c "DATA RACE" $SCR/out.log); tail -1 $SCR/out.log | cut -c1-200; echo "   data races reported: $n"; [ "$n" != 0 ] && { rc=1; grep -A12 "DATA RACE" $SCR/out.log | head -60; }; }
VERIF_C18_PARTS=slots,caps,rhp run $SCR/c18 -tier quick
run $SCR/syncmc -prop C12 -tier quick
run $SCR/syncmc -prop C11 -tier quick
for p in C08 C09 C15; do run $SCR/rhpmc -prop $p -tier quick; done
rm -rf $SCR
exit $rc
