#!/usr/bin/env python3
"""Regenerates /verif/MANIFEST.json from the table below (keeps it valid at all times)."""
import json, os
ROOT = '/verif'
props = [json.loads(l) for l in open(f'{ROOT}/properties.jsonl')]

# id -> dict(level, text, note, technique, engine, design)
CHECKS = {
 'C18': dict(level='model_checking', engine='sched',
   text='Exhaustive schedule enumeration (iterative preemption bounding, bound 2 quick / 4 thorough) of the real threadgroup.ThreadGroup under a cooperative scheduler: Stop never returns while an admitted thread is running, Add after Stop is rejected, no deadlock, no WaitGroup misuse.',
   note='Interleavings at lock/WaitGroup granularity; memory-model effects only via the separate free-running -race pass. Go runtime trusted.',
   technique='stateless model checking of the implementation: cooperative scheduler + DFS over schedules with preemption bounding', design='§3 E3, §4 C18'),
}
NOT_YET = 'check not built yet in this round (planned, see DESIGN.md §4)'

m = {
 'version': 1,
 'setup_cmd': './setup.sh',
 'hooks': {
  'guard': 'verif',
  'enable': 'no hook commits in /repo: ./run.sh regenerates a `go build -overlay` file from /repo\'s current working tree (hooks/export/** added as zz_verif_*.go with //go:build verif, virtual packages vsync/vtime, import-re-pointed copies of the files listed in hooks/rewrites.txt) and builds with -tags verif',
  'baseline_off_cmd': 'cd /repo && go test -vet=off -count=1 -timeout 25m ./...',
  'source_commits': [],
  'add_only': True,
 },
 'engines': [
  {'name': 'sched', 'path': 'hooks/vsync + engine/internal/explore', 'serves_properties': ['C04', 'C07', 'C18'], 'kind_free_text': 'cooperative scheduler (sync shim via import re-pointing) + preemption-bounded DFS over schedules of the real code'},
 ],
 'checks': [], 'not_applicable': [],
 'notes': 'All checks: ./run.sh <id> <tier>. Exit 0 held / 1 VIOLATION / 2 harness error. See DESIGN.md.',
}
for p in props:
    i = p['id']
    if i in CHECKS:
        c = CHECKS[i]
        m['checks'].append({
          'property_id': i,
          'quick_cmd': f'./run.sh {i} quick',
          'thorough_cmd': f'./run.sh {i} thorough',
          'evidence_file': f'/verif/evidence/{i}.json',
          'replay_cmd_template': f'./run.sh {i} quick -replay {{path}}',
          'engine': c['engine'],
          'level_claimed': {'category': c['level'], 'text': c['text'], 'design_ref': c['design']},
          'level_note': c['note'],
          'technique': c['technique'],
        })
    else:
        m['not_applicable'].append({'property_id': i, 'reason': NOT_YET})
json.dump(m, open(f'{ROOT}/MANIFEST.json', 'w'), indent=1)
print('checks:', len(m['checks']), 'not_applicable:', len(m['not_applicable']))
