#!/usr/bin/env python3
"""Regenerates /verif/MANIFEST.json from the table below (keeps it valid at all times)."""
import json, os
ROOT = '/verif'
props = [json.loads(l) for l in open(f'{ROOT}/properties.jsonl')]

# id -> dict(level, text, note, technique, engine, design)
CHECKS = {
 'C01': dict(level='model_checking', engine='chainmc',
   text='Explicit-state BFS over the real chain.Manager+DBStore: all fork-tree shapes (4 blocks quick / 5 thorough) x 3 hardfork regimes x every single-block corruption kind at every position; every submission op (single/duplicate/orphan, segments, mixed batches, AddValidatedV2Blocks) from every reachable state to depth 5/7. After every transition: parent links, every best-chain block reference-valid, tip/State() equal to an independent core/consensus replay, work monotone, tip moves only with sufficient work, failed reorg leaves the canonical store dump unchanged, valid heavier single-branch chains are adopted.',
   note='go.sia.tech/core consensus is the trusted reference; depth and tree-size bounds; mixed-branch batches exempt from the adoption clause.',
   technique='explicit-state model checking of the implementation (BFS, complete state keys, clone+replay-validated successors) against an independent reference replay', design='§3 E1, §4 C01'),
 'C02': dict(level='model_checking', engine='chainmc',
   text='Explicit-state BFS over the real Manager+DBStore on storyline universes (every element-changing transaction kind x fork point x branch variant {empty, shifted, conflicting} x surplus x 3 hardfork regimes). In every distinct state the canonical store dump (index, states, blocks with supplements, element buckets, expiration lists in order, proofs served through SupplementTipTransaction and verified against the tip accumulator) must equal that of a fresh node fed the same best chain linearly; expiration lists are additionally compared with the reference ledger after every single block apply/revert inside reorgs.',
   note='One recorded known finding (expiration-list order after reverting a swap-removal, pinned by the repository\'s own test); any other divergence is a violation. Tree bucket compared via served proofs. Depth/size bounds as in evidence.',
   technique='explicit-state model checking of the implementation with a differential twin oracle (linear-replay node) and block-granular reference-ledger comparison', design='§3 E1, §4 C02, §5.1'),
 'C03': dict(level='fault_enumeration', engine='chainmc',
   text='Crash-point enumeration: for every transition of the storyline exploration the store\'s flush trigger is forced (vtime seam in chain/db.go) after every single block apply/revert; every committed image captured by the recording DB is reopened with NewDBStore+NewManager and must reopen to a tip the node held, pass the best-chain audit, equal a linear node\'s store, and after resubmitting the history reach the uninterrupted run\'s tip and store.',
   note='Commit boundaries at chain.DB.Flush granularity; torn writes below the DB abstraction (bbolt) trusted. Shared-window-end storylines excluded (recorded C02 finding).',
   technique='exhaustive crash-point enumeration over all commit images of every explored history, on the real store', design='§4 C03'),
 'C19': dict(level='model_checking', engine='chainmc',
   text='Explicit-state BFS over submissions and PruneBlocks(h) (h in 0..3, tip-1..tip+5) on comb and fork-shape universes in 3 regimes with an unpruned twin: bodies below the prune height gone and only those, states/headers/index intact, tip state and History equal to the twin, MinReorgIndex exact, reorgs with fork point at/above it behave like the twin, below it fail cleanly without changing the store, requests needing pruned bodies error.',
   note='Depth and universe bounds as in evidence; twin is the same implementation without prunes, states additionally audited against the core/consensus replay.',
   technique='explicit-state model checking of the implementation with a differential unpruned twin', design='§4 C19'),
 'C04': dict(level='model_checking', engine='chainmc',
   text='(a) Explicit-state BFS over submissions and subscriber polls (chunk 1,2,3,1000) on storyline universes plus universes with a body-invalid block inside a heavier fork: path contiguity, count<=max, short only at tip, ledger folded from nothing but the updates equals the independently replayed ledger at the subscriber index (leaf indices, Merkle proofs verified against that accumulator), one-shot catch-up from every block index in every state (never-applied/unknown indices must error), OnReorg exactly once per tip change. (b) Schedule exploration (preemption bound 2/3) of AddBlocks racing with UpdatesSince polls on the real Manager under the cooperative scheduler.',
   note='Lock-granular interleavings; depth/state caps as in evidence; core/consensus trusted.',
   technique='explicit-state BFS + stateless schedule enumeration with preemption bounding on the real Manager', design='§4 C04'),
 'C05': dict(level='model_checking', engine='chainmc',
   text='Explicit-state BFS by replay (state key includes the pool\'s private state) over block submissions, reorgs that confirm/unconfirm/invalidate pooled transactions, 12 menu sets (independent, conflicting, parent/child, 3 generations, child only, partly known, conflict/invalid at position 1, stale basis) and real MineBlock, in 3 regimes. After every transition every prefix of the reported pool validates on a fresh MidState of the reference tip, v2 proofs equal the reference ledger\'s, mined blocks are accepted by the node and a fresh linear node, and a reference lower-bound pool is contained in the reported pool.',
   note='Fee eviction not explored; depth bound as in evidence; core/consensus trusted.',
   technique='explicit-state model checking of the implementation by history replay against a reference pool model', design='§4 C05'),
 'C13': dict(level='model_checking', engine='chainmc',
   text='In every distinct node state reached by BFS over submissions on pool universes and v2 contract storylines: UpdateV2TransactionSet for every ordered pair of applied indices x every menu set valid at the source (confirmed/ephemeral/mixed/siafund inputs, every transaction confirmed somewhere in the universe incl. contract revision/renewal/storage proof, two-input children) compared byte-for-byte with the expectation computed from the reference ledger at the target; proof/leaf-index/basis corruptions must error without panic; 150-block line for the distance limit; V2TransactionSet for every pooled transaction (parents first, basis==tip, argument untouched).',
   note='Inputs spent or re-created on the way are not judged; depth bound as in evidence.',
   technique='explicit-state exploration of node states with exhaustive (from,to,set) enumeration against a reference ledger', design='§4 C13'),
 'C14': dict(level='model_checking', engine='chainmc',
   text='BFS by replay over submissions and the 12-set menu in 3 regimes: after every Add(V2)PoolTransactions the pool id set is before or before+new (all-or-nothing), known <=> every (unconfirmed) id was pooled, caller memory byte-identical and not aliased, returned v2 transactions and slices not aliased, PoolTransaction/V2PoolTransaction for every v1/v2/unknown id return exactly the pooled transaction or false without panic.',
   note='v1 submissions are not documented to be copied; depth bound as in evidence.',
   technique='explicit-state model checking of the implementation by history replay with contract oracles', design='§4 C14'),
 'C06': dict(level='model_checking', engine='chainmc',
   text='Explicit-state BFS over block submissions and wallet syncs (chunk 1,2,1000) through SingleAddressWallet.UpdateChainState into a recording store, on storyline universes with the wallet address in each of 4 roles (miner/siafund owner+claimant, spender/renter, payee/host, foundation). After every sync: stored UTXOs == reference ledger outputs of the address at the wallet index (value, maturity, leaf index, proof byte-equal and verifying), events == those of a wallet that followed the same chain linearly, none off-chain, sum(inflow)-sum(outflow) == sum(UTXOs), Balance() agrees at the tip.',
   note='Store under test is a harness store recording the index the stream left it at (as the quantifier stipulates). Depth/state caps in evidence.',
   technique='explicit-state model checking of the implementation against a reference ledger and a linear-wallet twin', design='§4 C06'),
 'C07': dict(level='model_checking', engine='chainmc + sched',
   text='(a) Exhaustive enumeration: 8 wallet states x every single Fund/FundV2/Redistribute call for amounts 0..12 SC (+-1 H at boundaries, above balance) x useUnconfirmed x the 4x4x4 defrag option grid; every sequence of length 3 (quick) / 4 (thorough) over fund/release/sign+broadcast/mine+sync/restart/redistribute/split for 3 option settings, v1 and v2 regimes; reservation expiry under a controlled clock. (b) Schedule exploration (preemption bound 2/3) of 2-3 concurrent wallet calls and a block+sync thread on the real wallet and manager. Oracles: inputs owned/mature/unspent by pool/unreserved/unique, conservation, failed call reserves nothing, pool accepts the signed result, Balance == SpendableOutputs == model, no shared inputs.',
   note='Amount domain is whole siacoins plus boundary hastings; lock-granular interleavings; clock via the vtime seam.',
   technique='exhaustive operation-sequence enumeration against a spendability model + stateless schedule enumeration with preemption bounding', design='§4 C07'),
 'C08': dict(level='model_checking', engine='rhpmc',
   text='Exhaustive enumeration of exchange sequences (length 3 quick / 4 thorough) over fund/sector-roots/append/free/replenish accounts+pools spoken by hand against the real server, the last exchange carrying each of 16 request mutations (challenge/revision signature, stale or future revision number, expired/foreign/tampered price table, renter signing a cheaper or structurally different revision, unknown contract), against the reference contractor and a contractor that trusts the server; every commit audited pairwise (revision number, both signatures over exactly the committed revision, keys/heights/collateral/addresses, payout sum, exact charge recomputed from the price table); must-reject classes leave the host byte-identical; latest revision validated by consensus on a real chain; all interleavings of the Contractor calls of two concurrent revising RPCs (try-lock and blocking-lock contractor).',
   note='renew/refresh commits are audited in C16; core price functions trusted.',
   technique='exhaustive sequence + fault enumeration on the real server with commit-log oracles; explicit interleaving enumeration at the Contractor seam', design='§4 C08'),
 'C09': dict(level='fault_enumeration', engine='rhpmc',
   text='Contracts of 0..6 (thorough 8) sectors x every index subset: honest free, raw wire orderings, duplicates, out-of-range, every abort point and a bad signature, each followed by the honest operation; append batches with unknown roots and aborts; all length-3/4 sequences over an append/free/abort menu; both contractors. After every attempt MetaRoot(stored roots)==committed root and count*SectorSize==Filesize; failed/abandoned attempts leave the host byte-identical (or, after the renter handed over a valid signature, completely committed); successes equal the list model; RPCSectorRoots returns the model over ranges.',
   note='synthetic sector roots; core proof code trusted.',
   technique='exhaustive input and abort-point enumeration against a list model on the real server', design='§4 C09'),
 'C10': dict(level='fault_enumeration', engine='rhpmc',
   text='For each renter call (read x2, write, verify, sector roots, append, free, fund, replenish) against the real server: the host->renter byte stream of the honest exchange is recorded and the call repeated once per single deviation - every byte flipped (2/4 masks), the stream cut at every offset, a byte inserted, the trailing host signature replaced by a valid host signature over alternative revisions or by a foreign signature - plus hosts whose collaborators lie (contractor reporting other roots, sector store serving another sector/offset/length). A call that returns nil must satisfy the ground truth held by the harness (exact bytes, root of bytes sent, actual roots, new Merkle root = requested operation on the known roots, host signature valid, charge within the price table).',
   note='single deviation per run; RPCLatestRevision not a binding claim; core proof verifiers trusted.',
   technique='exhaustive single-fault enumeration over every byte of every response stream + lying-collaborator hosts, ground-truth oracle', design='§4 C10'),
 'C15': dict(level='model_checking', engine='rhpmc',
   text='Every sequence of a funding step plus 2 (thorough 3) operations from a 34-entry alphabet (fund at R-1/R/R+1, replenish accounts/pools, attach valid/wrong signer/expired, detach by account/pool/wrong key, reads over offsets{0,32,64}x lengths{32,64,128}, write, verify) on the real server with a real 4 MiB sector and both contractors; a double-entry ledger is rebuilt from the recorded Contractor/Sectors calls and compared with a reference model after every operation.',
   note='balances probed around the 64-byte read price; core validation/pricing trusted.',
   technique='exhaustive operation-sequence enumeration against a reference ledger model with call-log oracles', design='§4 C15'),
 'C16': dict(level='fault_enumeration', engine='rhpmc',
   text='RPCFormContract, RPCRenewContract and both refresh variants with a full host stack (real chain.Manager, SingleAddressWallet, server; reference and trusting contractor) and a separate renter node and wallet: 5 basis relations (same tip, renter behind 1/2, stale fork known/unknown to the host) x dial failure and, at sampled byte offsets of either direction, a flipped byte or a cut; 20 consecutive failures then an honest attempt. Success => both parties hold the same doubly signed contract, the set is accepted by a fresh pool and mining it yields exactly that contract (reference ledger). Failure => no contract recorded and host/renter spendable balance, spendable outputs and reservation tables unchanged (once the renter\'s signatures reached the host, a complete doubly signed contract is the only other allowed outcome).',
   note='fault offsets sampled (every 9th/16th byte quick, denser thorough); exchanges bounded by a 1.2 s deadline that only ends stuck exchanges.',
   technique='exhaustive fault-position enumeration over both byte streams of every exchange on the real stack with ledger/wallet oracles', design='§4 C16'),
 'C17': dict(level='model_checking', engine='kvmc',
   text='Explicit-state enumeration of every applicable operation sequence up to length L (quick 5 / thorough 7 in-memory, 4 / 5 Bolt) over a 2x2x3 bucket/key/value alphabet on MemDB, CacheDB(MemDB), CacheDB(CacheDB(MemDB)), BoltChainDB and CacheDB(BoltChainDB); every Bucket/Get/Iter observation after every operation is compared with a two-map reference model.',
   note='nil-valued puts excluded; nil and empty Get results not distinguished; bbolt atomic commit trusted. Chain-level clause is exercised by the C02 backend replay.',
   technique='explicit-state enumeration of operation sequences on the real backends against a reference model', design='§3 E2, §4 C17'),
 'C20': dict(level='exploration', engine='seedmc',
   text='Exhaustive enumeration of structured families (all <=2-bit masks on 8 base entropies, every 11-bit window x 2048 values, every word position x 2048 words on 8 phrases, whitespace variants at every gap, malformed phrases, boundary key indices) against an independent big-integer BIP-39 reference anchored on published vectors.',
   note='The full 2^128 space is not enumerable; exhaustive only inside the stated families. SHA-256/blake2b/ed25519 trusted.',
   technique='exhaustive enumeration of bounded input families against an independent reference', design='§3 E7, §4 C20'),
 'C18': dict(level='model_checking', engine='sched',
   text='(a) Exhaustive schedule enumeration (iterative preemption bounding, bound 2 quick / 4 thorough) of the real threadgroup.ThreadGroup under a cooperative scheduler: Stop never returns while an admitted thread is running, Add after Stop is rejected, no deadlock, no WaitGroup misuse. (b) Every environment-event sequence (send/release/close, length 5 quick / 6 thorough, 9 limit configurations incl. 0/negative) against a real syncer.Syncer over an in-memory network with handlers parked at a gate inside the ChainManager: exact per-peer and per-subnet high-water marks, back-pressure vs. drop compared step by step with a reference model, Close returns with no handler running, RPCs after Close are refused. (c) Every sequence of connection events (connect / handshake / drop / listener-Close begins / ends, length 5 quick / 7 thorough, caps 0,1,2) against a real Syncer: inbound cap never exceeded, no slot leak, Close/Run return and leave no peer or open connection.',
   note='Interleavings at lock/WaitGroup granularity for (a); (b),(c) control the environment (who sends what when, how long the listener Close takes) and wait for quiescence observed at the in-memory connections, the goroutine schedule inside one environment step is the runtime\'s. Memory-model effects only via a separate free-running -race pass. rhp4.Server.Close and SingleAddressWallet.Close are tg.Stop(): covered by (a) through the identical Add/AddContext worker pattern. Go runtime, mux and go.sia.tech/core trusted.',
   technique='stateless model checking of the implementation: cooperative scheduler + DFS over schedules with preemption bounding (threadgroup); exhaustive bounded enumeration of environment-event sequences against the real Syncer with a reference model (slots, peer caps, shutdown)', design='§3 E3, §4 C18'),
}
NOT_YET = 'check not built yet in this round (planned, see DESIGN.md §4)'

m = {
 'version': 1,
 'setup_cmd': './setup.sh',
 'hooks': {
  'guard': 'verif',
  'enable': 'no hook commits in /repo: ./run.sh regenerates a `go build -overlay` file from /repo\'s current working tree (hooks/export/** added as zz_verif_*.go with //go:build verif, virtual packages vsync/vtime, import-re-pointed copies of the files listed in hooks/rewrites.txt) and builds with -tags verif',
  'baseline_off_cmd': 'cd /repo && go test -vet=off -count=1 -timeout 25m ./...',
  'source_commits': [],
  'add_only': True,
 },
 'engines': [
  {'name': 'chainmc', 'path': 'engine/cmd/chainmc + engine/internal/{bfs,univ,ledger,recdb,node}', 'serves_properties': ['C01','C02','C03','C04','C05','C06','C13','C14','C19'], 'kind_free_text': 'explicit-state BFS over the real chain.Manager on a recording chain.DB; universes of pre-built fork trees; reference ledger built only from core/consensus'},
  {'name': 'rhpmc', 'path': 'engine/cmd/rhpmc + engine/internal/rhpx', 'serves_properties': ['C08','C09','C10','C15','C16'], 'kind_free_text': 'real rhp4.Server behind Serve() over in-memory pipes, real client functions, recording Contractor/Sectors wrappers, hand-spoken exchanges for request mutations and abort points'},
  {'name': 'kvmc', 'path': 'engine/cmd/c17 + engine/internal/kvx', 'serves_properties': ['C17'], 'kind_free_text': 'exhaustive operation-sequence enumeration on real KV backends vs reference maps'},
  {'name': 'seedmc', 'path': 'engine/cmd/c20', 'serves_properties': ['C20'], 'kind_free_text': 'exhaustive structured input families vs independent BIP-39 reference'},
  {'name': 'sched', 'path': 'hooks/vsync + engine/internal/explore', 'serves_properties': ['C04', 'C07', 'C18'], 'kind_free_text': 'cooperative scheduler (sync shim via import re-pointing) + preemption-bounded DFS over schedules of the real code'},
 ],
 'checks': [], 'not_applicable': [],
 'notes': 'All checks: ./run.sh <id> <tier>. Exit 0 held / 1 VIOLATION / 2 harness error. See DESIGN.md.',
}
for p in props:
    i = p['id']
    if i in CHECKS:
        c = CHECKS[i]
        m['checks'].append({
          'property_id': i,
          'quick_cmd': f'./run.sh {i} quick',
          'thorough_cmd': f'./run.sh {i} thorough',
          'evidence_file': f'/verif/evidence/{i}.json',
          'replay_cmd_template': f'./run.sh {i} quick -replay {{path}}',
          'engine': c['engine'],
          'level_claimed': {'category': c['level'], 'text': c['text'], 'design_ref': c['design']},
          'level_note': c['note'],
          'technique': c['technique'],
        })
    else:
        m['not_applicable'].append({'property_id': i, 'reason': NOT_YET})
json.dump(m, open(f'{ROOT}/MANIFEST.json', 'w'), indent=1)
print('checks:', len(m['checks']), 'not_applicable:', len(m['not_applicable']))
