#!/bin/bash
# mut.sh <patch.diff> <property> [tier]: apply a mutation patch to /repo, run the check, revert. Prints exit code.
p=$1; id=$2; tier=${3:-quick}
git -C /repo apply "$p" || { echo "PATCH DOES NOT APPLY: $p"; exit 3; }
/verif/run.sh $id $tier 2>&1 | grep -E "VIOLATION|KNOWN-FINDING: prop|harness error|^C[0-9]+ " | cut -c1-300
rc=${PIPESTATUS[0]}
git -C /repo checkout -- .
echo "mutation $(basename $p) on $id: exit=$rc"
