#!/bin/bash
# confirm_seed.sh <worktree> <seeddir> <pkgdir-for-demo> : verifies a seeded change independently.
export GOFLAGS=-mod=mod GOPROXY=off GOSUMDB=off GOTOOLCHAIN=local
wt=$1; sd=$2; pkg=$3
cd $wt || exit 1
git checkout -q -- . ; git clean -fdq
git apply $sd/patch.diff || { echo "RESULT patch-does-not-apply"; exit 1; }
go1.26 build ./... || { echo "RESULT does-not-compile"; exit 1; }
if go1.26 test -vet=off -count=1 ./... > /tmp/suite.$$.log 2>&1; then echo "RESULT suite-with-change: pass"; else echo "RESULT suite-with-change: FAIL"; grep -E "^(FAIL|---)" /tmp/suite.$$.log | head; fi
cp $sd/demo_test.go $pkg/zz_seed_demo_test.go
if go1.26 test -vet=off -count=1 -run 'Demo|ZZ|Seed' $pkg > /tmp/demo.$$.log 2>&1; then echo "RESULT demo-with-change: pass (BAD)"; else echo "RESULT demo-with-change: fail (good)"; fi
git apply -R $sd/patch.diff
if go1.26 test -vet=off -count=1 -run 'Demo|ZZ|Seed' $pkg > /tmp/demo2.$$.log 2>&1; then echo "RESULT demo-without-change: pass (good)"; else echo "RESULT demo-without-change: FAIL (BAD)"; tail -5 /tmp/demo2.$$.log; fi
git checkout -q -- . ; git clean -fdq
rm -f /tmp/suite.$$.log /tmp/demo.$$.log /tmp/demo2.$$.log
