//go:build verif

package wallet

// Read-only forwards for the verification harness (added through the build overlay only).

// VerifEncodePhrase forwards to encodeBIP39Phrase.
func VerifEncodePhrase(entropy *[16]byte) string { return encodeBIP39Phrase(entropy) }

// VerifDecodePhrase forwards to decodeBIP39Phrase.
func VerifDecodePhrase(entropy *[16]byte, phrase string) error {
	return decodeBIP39Phrase(entropy, phrase)
}

// VerifWordList returns a copy of the word list.
func VerifWordList() []string { return append([]string(nil), bip39EnglishWordList...) }
