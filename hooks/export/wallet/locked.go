//go:build verif

package wallet

import (
	"time"

	"go.sia.tech/core/types"
)

// VerifLocked returns a copy of the reservation table (read-only observer for the verification harness).
func (sw *SingleAddressWallet) VerifLocked() map[types.SiacoinOutputID]time.Time {
	sw.mu.Lock()
	defer sw.mu.Unlock()
	out := make(map[types.SiacoinOutputID]time.Time, len(sw.locked))
	for k, v := range sw.locked {
		out[k] = v
	}
	return out
}
