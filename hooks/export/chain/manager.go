//go:build verif

package chain

import (
	"bytes"

	"go.sia.tech/core/types"
)

// VerifPoolKey returns a canonical encoding of the transaction pool's private state
// (read-only; used only to deduplicate explored states).
func (m *Manager) VerifPoolKey() []byte {
	m.mu.Lock()
	defer m.mu.Unlock()
	var buf bytes.Buffer
	e := types.NewEncoder(&buf)
	e.WriteUint64(uint64(len(m.txpool.txns)))
	for _, t := range m.txpool.txns {
		t.EncodeTo(e)
	}
	e.WriteUint64(uint64(len(m.txpool.v2txns)))
	for _, t := range m.txpool.v2txns {
		t.EncodeTo(e)
	}
	e.WriteUint64(uint64(len(m.txpool.lastReverted)))
	for _, t := range m.txpool.lastReverted {
		t.EncodeTo(e)
	}
	e.WriteUint64(uint64(len(m.txpool.lastRevertedV2)))
	for _, t := range m.txpool.lastRevertedV2 {
		t.EncodeTo(e)
	}
	e.WriteBool(m.txpool.ms == nil)
	e.WriteUint64(m.txpool.weight)
	e.Flush()
	return buf.Bytes()
}

// VerifPoolWeight returns the pool weight the manager has on record, the weight of the transactions that are
// actually pooled, and whether the record is meant to be current (the pool has been validated against the tip).
func (m *Manager) VerifPoolWeight() (recorded, actual uint64, current bool) {
	m.mu.Lock()
	defer m.mu.Unlock()
	for _, t := range m.txpool.txns {
		actual += m.tipState.TransactionWeight(t)
	}
	for _, t := range m.txpool.v2txns {
		actual += m.tipState.V2TransactionWeight(t)
	}
	return m.txpool.weight, actual, m.txpool.ms != nil
}
