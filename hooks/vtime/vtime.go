//go:build verif

// Package vtime is a drop-in for the parts of package time that selected repository files use, with a
// hook that lets a harness answer Since/Now. Without hooks it behaves exactly like package time.
package vtime

import (
	"sync/atomic"
	"time"
)

type (
	Time     = time.Time
	Duration = time.Duration
	Timer    = time.Timer
	Ticker   = time.Ticker
	Month    = time.Month
	Location = time.Location
)

const (
	Nanosecond  = time.Nanosecond
	Microsecond = time.Microsecond
	Millisecond = time.Millisecond
	Second      = time.Second
	Minute      = time.Minute
	Hour        = time.Hour
	RFC3339     = time.RFC3339
)

var UTC = time.UTC

// sinceHook, when set, answers Since for the files compiled against this package.
var sinceHook atomic.Pointer[func(t time.Time) time.Duration]

// nowOffset shifts Now (nanoseconds).
var nowOffset atomic.Int64

// SetSince installs (or with nil removes) the Since hook.
func SetSince(f func(t time.Time) time.Duration) {
	if f == nil {
		sinceHook.Store(nil)
		return
	}
	sinceHook.Store(&f)
}

// Advance shifts Now forward by d (cumulative); Reset with ResetNow.
func Advance(d time.Duration) { nowOffset.Add(int64(d)) }

// ResetNow removes the Now offset.
func ResetNow() { nowOffset.Store(0) }

func Now() time.Time { return time.Now().Add(time.Duration(nowOffset.Load())) }

func Since(t time.Time) time.Duration {
	if f := sinceHook.Load(); f != nil {
		return (*f)(t)
	}
	return Now().Sub(t)
}

func Until(t time.Time) time.Duration            { return t.Sub(Now()) }
func After(d time.Duration) <-chan time.Time      { return time.After(d) }
func AfterFunc(d time.Duration, f func()) *Timer  { return time.AfterFunc(d, f) }
func NewTimer(d time.Duration) *Timer             { return time.NewTimer(d) }
func NewTicker(d time.Duration) *Ticker           { return time.NewTicker(d) }
func Sleep(d time.Duration)                       { time.Sleep(d) }
func Unix(sec, nsec int64) time.Time              { return time.Unix(sec, nsec) }
func Tick(d time.Duration) <-chan time.Time       { return time.Tick(d) }
func ParseDuration(s string) (Duration, error)    { return time.ParseDuration(s) }
func Date(y int, m Month, d, h, mi, s, ns int, l *Location) time.Time {
	return time.Date(y, m, d, h, mi, s, ns, l)
}
