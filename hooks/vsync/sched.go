//go:build verif

// Package vsync is a scheduler-aware drop-in for the parts of package sync
// that coreutils uses. It only exists in verification builds: the overlay
// generator maps this directory to go.sia.tech/coreutils/vsync and re-points
// the "sync" import of selected repository files at it.
//
// Outside an exploration (no Run in progress) or when called from a goroutine
// that is not a registered thread, every primitive behaves exactly like the
// real one it wraps.
package vsync

import (
	"fmt"
	"runtime"
	"sync"
	"sync/atomic"
)

// A Point is one scheduling decision of an execution.
type Point struct {
	Enabled    []int  // thread ids in canonical order: running thread first if enabled, then ascending
	RunEnabled bool   // the thread that was running is still enabled (choosing another one is a preemption)
	Chosen     int    // index into Enabled
	Kind       string // operation the running thread is about to perform
}

// An Execution is the result of one controlled run.
type Execution struct {
	Points    []Point
	Deadlock  bool
	Blocked   []string // description of blocked threads at deadlock
	Panics    []string // panics raised by thread bodies
	Diverged  string   // non-empty if the prefix could not be replayed
	StepLimit bool
}

// Choices returns the chosen indices.
func (x *Execution) Choices() []int {
	c := make([]int, len(x.Points))
	for i, p := range x.Points {
		c[i] = p.Chosen
	}
	return c
}

// Schedule returns the sequence of thread ids chosen.
func (x *Execution) Schedule() []int {
	c := make([]int, len(x.Points))
	for i, p := range x.Points {
		c[i] = p.Enabled[p.Chosen]
	}
	return c
}

// PreemptionsBefore counts preemptions among the first n points.
func (x *Execution) PreemptionsBefore(n int) int {
	c := 0
	for i := 0; i < n && i < len(x.Points); i++ {
		if x.Points[i].RunEnabled && x.Points[i].Chosen != 0 {
			c++
		}
	}
	return c
}

type thread struct {
	id      int
	wake    chan struct{}
	done    bool
	pred    func() bool
	what    string
	aborted bool
}

type abortSignal struct{}

type sched struct {
	mu      sync.Mutex
	threads []*thread
	byGid   map[int64]*thread
	cur     *thread
	prefix  []int
	x       *Execution
	aborted bool
	allDone chan struct{}
	maxStep int
}

var (
	misuse atomic.Bool
	active atomic.Bool
	global *sched
	runMu  sync.Mutex
)

func goid() int64 {
	var buf [64]byte
	n := runtime.Stack(buf[:], false)
	// "goroutine 123 ["
	var id int64
	for _, c := range buf[10:n] {
		if c < '0' || c > '9' {
			break
		}
		id = id*10 + int64(c-'0')
	}
	return id
}

func current() (*sched, *thread) {
	if !active.Load() {
		return nil, nil
	}
	s := global
	if s == nil {
		return nil, nil
	}
	g := goid()
	s.mu.Lock()
	t := s.byGid[g]
	s.mu.Unlock()
	if t == nil || s.aborted {
		return nil, nil
	}
	return s, t
}

// Run executes the bodies as threads 0..n-1 under the scheduler, replaying
// prefix (a list of indices into the canonical enabled list at each point) and
// taking choice 0 afterwards. It returns when every thread finished, or a
// deadlock was detected, or the step limit was exceeded.
func Run(prefix []int, maxSteps int, bodies ...func()) *Execution {
	runMu.Lock()
	defer runMu.Unlock()
	s := &sched{byGid: make(map[int64]*thread), prefix: prefix, x: &Execution{}, allDone: make(chan struct{}), maxStep: maxSteps}
	if s.maxStep <= 0 {
		s.maxStep = 100000
	}
	for i := range bodies {
		s.threads = append(s.threads, &thread{id: i, wake: make(chan struct{}, 1)})
	}
	global = s
	active.Store(true)
	ready := make(chan struct{}, len(bodies))
	for i, body := range bodies {
		t := s.threads[i]
		go func() {
			s.mu.Lock()
			s.byGid[goid()] = t
			s.mu.Unlock()
			ready <- struct{}{}
			<-t.wake
			defer func() {
				if r := recover(); r != nil {
					if _, ok := r.(abortSignal); !ok {
						s.mu.Lock()
						s.x.Panics = append(s.x.Panics, fmt.Sprintf("thread %d: %v", t.id, r))
						s.mu.Unlock()
					}
				}
				s.finish(t)
			}()
			if t.aborted {
				return
			}
			body()
		}()
	}
	for range bodies {
		<-ready
	}
	// initial choice: no thread is running
	s.mu.Lock()
	next := s.choose(nil, "start")
	s.mu.Unlock()
	if next != nil {
		next.wake <- struct{}{}
	} else {
		s.abort()
	}
	<-s.allDone
	active.Store(false)
	global = nil
	return s.x
}

// choose picks the next thread at a scheduling point. Called with s.mu held.
func (s *sched) choose(running *thread, kind string) *thread {
	var enabled []int
	runEnabled := false
	if running != nil && !running.done && (running.pred == nil || running.pred()) {
		enabled = append(enabled, running.id)
		runEnabled = true
	}
	for _, t := range s.threads {
		if t == running || t.done {
			continue
		}
		if t.pred == nil || t.pred() {
			enabled = append(enabled, t.id)
		}
	}
	if len(enabled) == 0 {
		return nil
	}
	step := len(s.x.Points)
	idx := 0
	if step < len(s.prefix) {
		idx = s.prefix[step]
		if idx < 0 || idx >= len(enabled) {
			s.x.Diverged = fmt.Sprintf("step %d: prefix choice %d out of range (enabled %v)", step, idx, enabled)
			return nil
		}
	}
	if step >= s.maxStep {
		s.x.StepLimit = true
		return nil
	}
	s.x.Points = append(s.x.Points, Point{Enabled: enabled, RunEnabled: runEnabled, Chosen: idx, Kind: kind})
	return s.threads[enabled[idx]]
}

// yield is a scheduling point of thread t. pred (may be nil) tells when t may
// continue past the point.
func (s *sched) yield(t *thread, kind string, pred func() bool) {
	s.mu.Lock()
	if s.aborted {
		s.mu.Unlock()
		panic(abortSignal{})
	}
	t.pred = pred
	t.what = kind
	next := s.choose(t, kind)
	if next == nil {
		s.mu.Unlock()
		s.deadlockOrAbort()
		panic(abortSignal{})
	}
	if next == t {
		t.pred = nil
		s.mu.Unlock()
		return
	}
	s.cur = next
	s.mu.Unlock()
	next.wake <- struct{}{}
	<-t.wake
	if t.aborted {
		panic(abortSignal{})
	}
	t.pred = nil
}

func (s *sched) deadlockOrAbort() {
	s.mu.Lock()
	if s.x.Diverged == "" && !s.x.StepLimit {
		all := true
		for _, t := range s.threads {
			if !t.done {
				all = false
				s.x.Blocked = append(s.x.Blocked, fmt.Sprintf("thread %d blocked at %s", t.id, t.what))
			}
		}
		if !all {
			s.x.Deadlock = true
		}
	}
	s.mu.Unlock()
	s.abort()
}

func (s *sched) abort() {
	s.mu.Lock()
	if s.aborted {
		s.mu.Unlock()
		return
	}
	s.aborted = true
	me := goid()
	var wake []*thread
	for g, t := range s.byGid {
		if !t.done && g != me {
			t.aborted = true
			wake = append(wake, t)
		}
	}
	s.mu.Unlock()
	for _, t := range wake {
		select {
		case t.wake <- struct{}{}:
		default:
		}
	}
}

// finish marks t done and hands control to the next enabled thread.
func (s *sched) finish(t *thread) {
	s.mu.Lock()
	t.done = true
	remaining := 0
	for _, o := range s.threads {
		if !o.done {
			remaining++
		}
	}
	if remaining == 0 {
		s.mu.Unlock()
		close(s.allDone)
		return
	}
	if s.aborted {
		s.mu.Unlock()
		return
	}
	next := s.choose(t, "exit")
	s.mu.Unlock()
	if next == nil {
		s.deadlockOrAbort()
		return
	}
	next.wake <- struct{}{}
}

// TakeMisuse returns and clears the WaitGroup misuse flag.
func TakeMisuse() bool { return misuse.Swap(false) }

// Yield is an explicit scheduling point for harness code.
func Yield(kind string) {
	if s, t := current(); s != nil {
		s.yield(t, kind, nil)
	}
}

// Block parks the calling thread until pred holds (evaluated by the scheduler
// with its lock held; pred must only read state written by registered threads).
func Block(kind string, pred func() bool) {
	if s, t := current(); s != nil {
		s.yield(t, kind, pred)
	}
}

// InThread reports whether the caller is a registered thread of an active run.
func InThread() bool {
	s, _ := current()
	return s != nil
}

// ThreadID returns the id of the calling registered thread or -1.
func ThreadID() int {
	if s, t := current(); s != nil {
		return t.id
	}
	return -1
}
