//go:build verif

package vsync

import "sync"

// Locker mirrors sync.Locker.
type Locker = sync.Locker

// Cond and Map, Pool are passed through unchanged (not scheduled).
type (
	Cond = sync.Cond
	Map  = sync.Map
	Pool = sync.Pool
)

// NewCond mirrors sync.NewCond.
func NewCond(l Locker) *Cond { return sync.NewCond(l) }

// PointsAtUnlock controls whether Unlock/Done are scheduling points too.
var PointsAtUnlock = true

// Mutex is a scheduler-aware sync.Mutex.
type Mutex struct {
	real sync.Mutex
	held bool // held by a registered thread (only touched while holding the scheduler token)
}

// Lock implements sync.Locker.
func (m *Mutex) Lock() {
	if s, t := current(); s != nil {
		s.yield(t, "Lock", func() bool { return !m.held })
		m.held = true
	}
	m.real.Lock()
}

// TryLock mirrors sync.Mutex.TryLock.
func (m *Mutex) TryLock() bool {
	if s, t := current(); s != nil {
		s.yield(t, "TryLock", nil)
		if m.held {
			return false
		}
		if m.real.TryLock() {
			m.held = true
			return true
		}
		return false
	}
	return m.real.TryLock()
}

// Unlock implements sync.Locker.
func (m *Mutex) Unlock() {
	if s, t := current(); s != nil {
		if PointsAtUnlock {
			s.yield(t, "Unlock", nil)
		}
		m.held = false
	}
	m.real.Unlock()
}

// RWMutex is a scheduler-aware sync.RWMutex.
type RWMutex struct {
	real    sync.RWMutex
	writer  bool
	readers int
}

// Lock takes the write lock.
func (m *RWMutex) Lock() {
	if s, t := current(); s != nil {
		s.yield(t, "RWLock", func() bool { return !m.writer && m.readers == 0 })
		m.writer = true
	}
	m.real.Lock()
}

// Unlock releases the write lock.
func (m *RWMutex) Unlock() {
	if s, t := current(); s != nil {
		if PointsAtUnlock {
			s.yield(t, "RWUnlock", nil)
		}
		m.writer = false
	}
	m.real.Unlock()
}

// RLock takes a read lock.
func (m *RWMutex) RLock() {
	if s, t := current(); s != nil {
		s.yield(t, "RLock", func() bool { return !m.writer })
		m.readers++
	}
	m.real.RLock()
}

// RUnlock releases a read lock.
func (m *RWMutex) RUnlock() {
	if s, t := current(); s != nil {
		if PointsAtUnlock {
			s.yield(t, "RUnlock", nil)
		}
		m.readers--
	}
	m.real.RUnlock()
}

// WaitGroup is a scheduler-aware sync.WaitGroup. Misuse reports whether Add
// was called with a zero counter while another thread was blocked in Wait
// (the documented misuse of sync.WaitGroup).
type WaitGroup struct {
	real    sync.WaitGroup
	n       int
	waiters int
	Misuse  bool
}

// Add mirrors sync.WaitGroup.Add.
func (w *WaitGroup) Add(d int) {
	if s, t := current(); s != nil {
		if d > 0 || PointsAtUnlock {
			s.yield(t, "WaitGroup.Add", nil)
		}
		if d > 0 && w.n == 0 && w.waiters > 0 {
			w.Misuse = true
			misuse.Store(true)
		}
		w.n += d
	}
	w.real.Add(d)
}

// Done mirrors sync.WaitGroup.Done.
func (w *WaitGroup) Done() { w.Add(-1) }

// Go mirrors sync.WaitGroup.Go.
func (w *WaitGroup) Go(f func()) {
	w.Add(1)
	go func() {
		defer w.Done()
		f()
	}()
}

// Wait mirrors sync.WaitGroup.Wait.
func (w *WaitGroup) Wait() {
	if s, t := current(); s != nil {
		w.waiters++
		s.yield(t, "WaitGroup.Wait", func() bool { return w.n == 0 })
		w.waiters--
	}
	w.real.Wait()
}

// Once is a scheduler-aware sync.Once.
type Once struct {
	m    Mutex
	done bool
}

// Do mirrors sync.Once.Do.
func (o *Once) Do(f func()) {
	o.m.Lock()
	defer o.m.Unlock()
	if !o.done {
		defer func() { o.done = true }()
		f()
	}
}

// OnceFunc etc. pass through.
func OnceFunc(f func()) func() { return sync.OnceFunc(f) }
