#!/bin/bash
# run.sh <property-id> [quick|thorough] [extra args]  — rebuilds from /repo's working tree, runs the check.
set -u
export GOFLAGS=-mod=mod GOPROXY=off GOSUMDB=off GOTOOLCHAIN=local
export PATH=/usr/local/bin:$PATH
ROOT=/verif
id=${1:?property id}; tier=${2:-${VERIF_TIER:-quick}}; shift; shift 2>/dev/null || true
cmd=$(echo "$id" | tr "A-Z" "a-z")
case "$id" in C01|C02|C03|C04|C05|C06|C07|C13|C14|C19) cmd=chainmc; set -- -prop "$id" "$@";; C08|C09|C10|C15|C16) cmd=rhpmc; set -- -prop "$id" "$@";; C11|C12) cmd=syncmc; set -- -prop "$id" "$@";; esac
cd $ROOT/engine || exit 2
mkdir -p $ROOT/.build/bin $ROOT/evidence $ROOT/replays
if [ ! -x $ROOT/.build/bin/overlaygen ] || [ cmd/overlaygen/main.go -nt $ROOT/.build/bin/overlaygen ]; then
  go1.26 build -o $ROOT/.build/bin/overlaygen ./cmd/overlaygen || { echo "harness error: overlaygen build failed" >&2; exit 2; }
fi
$ROOT/.build/bin/overlaygen $ROOT/.build || exit 2
cp -f /repo/go.sum $ROOT/engine/go.sum 2>/dev/null
go1.26 build -tags verif -overlay $ROOT/.build/overlay.json -o $ROOT/.build/bin/$cmd ./cmd/$cmd || { echo "harness error: build of $cmd against /repo failed" >&2; exit 2; }
cd $ROOT
exec $ROOT/.build/bin/$cmd -tier "$tier" "$@"
